#!/bin/bash
# usage: tools/mut.sh <file-rel-to-repo> <sed-expr> <check args...>   -- apply a one-line mutation, run the check, always revert
f=$1; e=$2; shift 2
cd /repo && sed -i "$e" "$f" && git diff --stat | tail -1
if git diff --quiet; then echo "MUTATION DID NOT APPLY"; exit 3; fi
cd /verif && timeout ${MUT_TIMEOUT:-900} ./check "$@" --no-evidence 2>&1 | grep -v "^  violated\|^VIOLATION" | tail -${MUT_TAIL:-6} | cut -c1-300
rc=${PIPESTATUS[0]}
cd /repo && git checkout -- . 
echo "exit=$rc"
