#!/bin/bash
# usage: tools/confirm_seed.sh <worktree> <n> <seed-id>
# Confirms a sub-agent's mutant myself: clean tree -> demo passes; patched tree -> compiles, 105 tests pass, demo fails.
# On success copies patch.diff, demo files and meta.json (with what was run) to /verif/seeded/<seed-id>/
wt=$1; n=$2; id=$3; m=$wt/mutants/$n
cd $wt || exit 9
git checkout -q -- src 2>/dev/null
cmd=$(python3 - "$m/demo.cpp" <<'PY'
import sys,re
ls=open(sys.argv[1]).read().split('\n')[:60]; out=''
for i,l in enumerate(ls):
    if 'g++' in l and 'demo' in l:
        j=i; cur=re.sub(r'^[\s/*]+','',l)
        while cur.rstrip().endswith('\\'):
            j+=1; cur=cur.rstrip()[:-1]+' '+re.sub(r'^[\s/*]+','',ls[j])
        out=cur; break
print(out.replace('$BUILD','_b').replace('<B>','_b'))
PY
)
[ -f "$m/demo.sh" ] && cmd="sh mutants/$n/demo.sh"
[ -z "$cmd" ] && { echo "$id: no demo command"; exit 8; }
log=$m/confirm.log; : > $log
build() { cmake -G Ninja -B _b -DCMAKE_BUILD_TYPE=RelWithDebInfo >>$log 2>&1 && cmake --build _b >>$log 2>&1; }
build || { echo "$id: clean build failed"; exit 7; }
( eval "timeout 900 $cmd" ) >>$log 2>&1; clean_rc=$?
git apply $m/patch.diff || { echo "$id: patch does not apply"; exit 6; }
build; brc=$?
if [ $brc -ne 0 ]; then echo "$id: patched build failed"; git checkout -q -- src; exit 5; fi
timeout 900 ./_b/randomx-tests >$m/tests.log 2>&1; trc=$?
passed=$(grep -c "PASSED" $m/tests.log)
( eval "timeout 900 $cmd" ) >>$log 2>&1; mut_rc=$?
git checkout -q -- src
echo "$id: demo_clean_rc=$clean_rc tests_rc=$trc tests_passed_lines=$passed demo_patched_rc=$mut_rc"
if [ $clean_rc -eq 0 ] && [ $trc -eq 0 ] && [ $mut_rc -ne 0 ]; then
  d=/verif/seeded/$id; mkdir -p $d
  cp $m/patch.diff $d/; cp $m/demo.cpp $d/ 2>/dev/null; cp $m/*.h $m/*.hpp $m/findkey.cpp $m/demo.sh $m/search_input.cpp $d/ 2>/dev/null
  python3 - "$m/meta.json" "$d/meta.json" "$cmd" "$clean_rc" "$trc" "$passed" "$mut_rc" <<'PY'
import json,sys
src,dst,cmd,c,t,p,mr=sys.argv[1:]
try: m=json.load(open(src))
except Exception: m={}
m['confirmed_by_me']={'demo_command':cmd,'demo_exit_clean_tree':int(c),'test_suite_exit_with_patch':int(t),'test_lines_PASSED':int(p),'demo_exit_with_patch':int(mr),
  'procedure':'scratch worktree: build clean -> demo exit 0; git apply patch -> cmake build ok -> ./randomx-tests exit 0 -> demo exit != 0; patch reverted'}
json.dump(m,open(dst,'w'),indent=1)
PY
  echo "$id: CONFIRMED -> $d"
else echo "$id: NOT CONFIRMED"; fi
rm -rf _b
