#!/usr/local/bin/python3-vt
# applies every seeded change in /verif/seeded to /repo (or to the tree named by VERIF_REPO, e.g. a scratch worktree of /repo), runs the quick check of the property it targets (and optionally others), reverts;
# writes seeded/RESULTS.json  {seed: {property: {exit, violated_lemmas}}}
import os, sys, json, subprocess, re, glob
HERE = os.path.dirname(os.path.dirname(os.path.abspath(__file__)))
only = sys.argv[1:]; REPO = os.environ.get('VERIF_REPO', '/repo')
res_p = os.environ.get('SEED_RESULTS', os.path.join(HERE, 'seeded', 'RESULTS.json')); res = json.load(open(res_p)) if os.path.exists(res_p) else {}
for d in sorted(glob.glob(os.path.join(HERE, 'seeded', 'C*-*'))):
    sid = os.path.basename(d); prop = sid.split('-')[0]
    if only and sid not in only and prop not in only: continue
    if subprocess.run(['git', '-C', REPO, 'apply', os.path.join(d, 'patch.diff')]).returncode != 0: print(sid, 'PATCH DOES NOT APPLY'); continue
    try:
        r = subprocess.run([os.path.join(HERE, 'check'), prop, '--tier', 'quick', '--no-evidence'], capture_output=True, text=True, timeout=2400, cwd=HERE)
        lem = sorted(set(re.findall(r'violated: (\w+) case', r.stdout)))
        res.setdefault(sid, {})[prop] = dict(exit=r.returncode, violated_lemmas=lem, first=(re.findall(r'violated: .*', r.stdout) or [''])[0][:300])
        print(sid, prop, 'exit', r.returncode, lem, flush=True)
    finally:
        subprocess.run(['git', '-C', REPO, 'checkout', '--', '.'])
    json.dump(res, open(res_p, 'w'), indent=1)
