#!/usr/local/bin/python3-vt
# rewrites the seeded-changes table in DESIGN.md from seeded/RESULTS.json and the meta.json files
import json, os, glob, re
HERE = os.path.dirname(os.path.dirname(os.path.abspath(__file__)))
res = json.load(open(os.path.join(HERE, 'seeded', 'RESULTS.json')))
rows = ['| seed | change (abridged) | needs | own property check | caught by lemma(s) |', '|---|---|---|---|---|']; caught = 0; tot = 0
for d in sorted(glob.glob(os.path.join(HERE, 'seeded', 'C*-*'))):
    sid = os.path.basename(d); m = json.load(open(os.path.join(d, 'meta.json'))); prop = sid.split('-')[0]
    r = res.get(sid, {}).get(prop); tot += 1
    if r is None: st, lem = 'not run', ''
    else:
        st = {0: '**missed** (exit 0)', 1: 'VIOLATION (exit 1)', 2: 'inconclusive (exit 2)'}.get(r['exit'], str(r['exit'])); lem = ' '.join(r['violated_lemmas']); caught += r['exit'] == 1
    clean = lambda t: re.sub(r'\s+', ' ', str(t)).replace('|', '/')
    rows.append('| %s | %s | %s | %s | %s |' % (sid, clean(m.get('what', ''))[:110], clean(m.get('needs', ''))[:90], st, lem))
rows.append(''); rows.append('%d of %d seeded changes raise a VIOLATION in the quick check of their own property.' % (caught, tot))
p = os.path.join(HERE, 'DESIGN.md'); s = open(p).read()
a = s.index('<!-- SEED-TABLE-BEGIN -->') + len('<!-- SEED-TABLE-BEGIN -->'); b = s.index('<!-- SEED-TABLE-END -->')
open(p, 'w').write(s[:a] + '\n' + '\n'.join(rows) + '\n' + s[b:])
print(caught, 'of', tot)
