#!/usr/bin/env python3
# fills the property table of DESIGN.md section 6 from lemmas/registry.py and the committed evidence files
import json, os, re, sys
HERE = os.path.dirname(os.path.abspath(__file__)); V = os.path.dirname(HERE); sys.path.insert(0, V)
from lemmas import registry as reg
rows = ['| id | lemmas run by the check | level | tier of the evidence | wall time | evaluations | solver queries |', '|---|---|---|---|---|---|---|']
for p in sorted(reg.PROPS):
    P = reg.PROPS[p]; ev = {}
    try: ev = json.load(open(os.path.join(V, 'evidence', p + '.json')))
    except Exception: pass
    cov = ev.get('coverage', {})
    rows.append('| %s | %s%s | %s | %s | %s s | %s | %s |' % (p, ' '.join(P['lemmas']), ' (footprint)' if P.get('footprint') else '', P['level'].replace('_', ' '), ev.get('tier', '-'),
                ev.get('wall_s', cov.get('wall_s', '-')), cov.get('evaluations', '-'), cov.get('solver_queries', cov.get('queries', '-'))))
s = open(os.path.join(V, 'DESIGN.md')).read()
a = s.index('<!-- PROP-TABLE-BEGIN -->') + len('<!-- PROP-TABLE-BEGIN -->'); b = s.index('<!-- PROP-TABLE-END -->')
s = s[:a] + '\n' + '\n'.join(rows) + '\n' + s[b:]
open(os.path.join(V, 'DESIGN.md'), 'w').write(s); print('\n'.join(rows))
