#!/bin/bash
# usage: tools/seedtest.sh <patch.diff> <check args...>  -- apply a seeded change to /repo, run the check, always revert
p=$1; shift
cd /repo && git apply "$p" || { echo "PATCH DID NOT APPLY"; exit 3; }
cd /verif && timeout ${MUT_TIMEOUT:-1500} ./check "$@" --no-evidence 2>&1 | grep -v "^VIOLATION" | grep "violated:\|jobs=\|HOLDS\|VIOLATED\|INCONCL\|ERROR" | head -${MUT_TAIL:-8} | cut -c1-400
rc=${PIPESTATUS[0]}
cd /repo && git checkout -- . && git status --short | grep -v _build
echo "exit=$rc"
