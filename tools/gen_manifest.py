#!/usr/local/bin/python3-vt
# regenerates MANIFEST.json from lemmas/registry.py (claimed properties) + the not-applicable table below
import json, os, sys
HERE = os.path.dirname(os.path.dirname(os.path.abspath(__file__))); sys.path.insert(0, HERE)
from lemmas import registry as R
NA = {
}
PENDING = 'check not built yet in this session (breadth-first build in progress); no claim is made'
props = [json.loads(l) for l in open(os.path.join(HERE, 'properties.jsonl'))]
checks = []; na = []
for p in props:
    pid = p['id']
    if pid in R.PROPS:
        P = R.PROPS[pid]
        checks.append(dict(property_id=pid, quick_cmd='./check %s --tier quick' % pid, thorough_cmd='./check %s --tier thorough' % pid,
            evidence_file='/verif/evidence/%s.json' % pid, replay_cmd_template='./check %s --replay {path}' % pid, engine='irsym+z3',
            level_claimed=dict(category=P['level'], text=P.get('claim', 'Bounded symbolic verdicts (SMT unsat per obligation) on lemmas over the real functions lowered from /repo on each run; the lemmas and their bounds are listed in the evidence; composition of lemmas into the end-to-end property is a written argument, not mechanised.'), design_ref='DESIGN.md section 6 / ' + pid),
            level_note='trusted: ' + '; '.join(P.get('trusted', []) + ['clang-14 -O1 IR of the current tree', 'irsym interpreter', 'z3']),
            technique=P.get('technique', 'symbolic execution of clang LLVM IR (own interpreter) + SMT (z3) per obligation; lemmas: ' + ','.join(P['lemmas']))))
    else:
        na.append(dict(property_id=pid, reason=NA.get(pid, PENDING)))
M = dict(version=1, setup_cmd='./setup.sh',
    hooks=dict(guard='TEVADOR_RANDOMX_VERIF', enable='no source hooks are needed: checks lower /repo sources with clang -DTEVADOR_RANDOMX_VERIF (the define guards nothing at present)',
               baseline_off_cmd='cmake --build /repo/_build && /repo/_build/randomx-tests', source_commits=[], add_only=True),
    engines=[dict(name='irsym', path='/verif/engine/irsym.py', serves_properties=sorted(R.PROPS), kind_free_text='own symbolic interpreter for clang-14 LLVM IR producing z3 terms; forking by re-execution; chunk/array memory; C++ EH'),
             dict(name='a64sem', path='/verif/engine/a64sem.py', serves_properties=[p for p in ('C19',) if p in R.PROPS], kind_free_text='AArch64 subset semantics for the ARM64 back-end output (Arm ARM transcription; decoder cross-checked against llvm-objdump, semantics not validated on hardware)'),
             dict(name='rv64sem', path='/verif/engine/rv64sem.py', serves_properties=[p for p in ('C20',) if p in R.PROPS], kind_free_text='RV64GC subset semantics for the scalar RISC-V back-end output (ISA manual transcription; decoder cross-checked against llvm-objdump, semantics not validated on hardware)'),
             dict(name='x86sem', path='/verif/engine/x86sem.py', serves_properties=[p for p in ('C04', 'C08', 'C09', 'C06', 'C01') if p in R.PROPS], kind_free_text='x86-64 subset semantics for JIT output and the hand-written templates, validated against the host CPU')],
    checks=checks, not_applicable=na,
    notes='Every check regenerates IR/bytes from /repo on each run. Exit 0 = all claimed lemmas discharged; 1 = replayed violation (VIOLATION line); 2 = inconclusive/engine error (never reported as success or as violation).')
json.dump(M, open(os.path.join(HERE, 'MANIFEST.json'), 'w'), indent=1)
print('claimed', [c['property_id'] for c in checks], 'not applicable/pending', [n['property_id'] for n in na])
