#!/bin/bash
# runs every claimed check of one tier against /repo, one after another; prints id, exit code, seconds
tier=${1:-quick}; shift
ids=${@:-$(python3 -c "import json;print(' '.join(c['property_id'] for c in json.load(open('/verif/MANIFEST.json'))['checks']))" 2>/dev/null)}
cd /verif
for id in $ids; do
  s=$(date +%s); ./check $id --tier $tier > /tmp/run_all_$id.log 2>&1; e=$?; echo "$id exit=$e $(( $(date +%s) - s ))s $(tail -1 /tmp/run_all_$id.log | cut -c1-120)"
done
