#!/bin/bash
# runs every claimed check of one tier against /repo, one after another, from the checkout this script lives in; prints id, exit code, seconds
tier=${1:-quick}; shift
V=$(cd "$(dirname "$0")/.." && pwd); cd "$V"
ids=${@:-$(python3 -c "import json;print(' '.join(c['property_id'] for c in json.load(open('MANIFEST.json'))['checks']))" 2>/dev/null)}
L=${RUN_ALL_LOGDIR:-/tmp}
for id in $ids; do
  s=$(date +%s); ./check $id --tier $tier > $L/run_all_${tier}_$id.log 2>&1; e=$?; echo "$id exit=$e $(( $(date +%s) - s ))s $(tail -1 $L/run_all_${tier}_$id.log | cut -c1-120)"
done
