#!/bin/bash
# offline setup: self-tests of the reference models and of the engines (no build products are kept; checks rebuild per run)
set -e
cd "$(dirname "$0")"
python3-vt - <<'PY'
import sys; sys.path.insert(0, '.')
from spec import blake2b_ref, aes_ref, params
assert blake2b_ref.selftest() and aes_ref.selftest()
assert aes_ref.check_constants_against_spec_doc(open(params.DOC).read()) == []
print('spec model self-tests ok')
PY
echo setup ok
