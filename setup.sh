#!/bin/bash
# offline setup: self-tests of the reference models and of the engines (no build products are kept; checks rebuild per run)
set -e
cd "$(dirname "$0")"
python3-vt - <<'PY'
import sys; sys.path.insert(0, '.')
from spec import blake2b_ref, aes_ref, params
assert blake2b_ref.selftest() and aes_ref.selftest()
assert aes_ref.check_constants_against_spec_doc(open(params.DOC).read()) == []
print('spec model self-tests ok')
PY
# tools the checks call (all pre-installed in this image; nothing is fetched)
for t in clang-14 clang++-14 llvm-link-14 llvm-nm-14 llvm-objcopy-14 llvm-objdump-14 ld.lld gcc g++ objcopy nm; do command -v $t >/dev/null || { echo "missing tool: $t"; exit 1; }; done
T=$(mktemp -d); printf '.text\nadd x0, x1, x2\n' > $T/a.s; clang-14 --target=aarch64-linux-gnu -c $T/a.s -o $T/a.o
printf '.text\nadd a0, a1, a2\n' > $T/r.s; clang-14 --target=riscv64-linux-gnu -march=rv64gc -c $T/r.s -o $T/r.o; rm -rf $T
echo setup ok
