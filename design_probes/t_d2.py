import time, z3, sys
from irsym0 import *
mod=Module('rx_nd.ll')
N=(2147483648+33554368)//64
def run(fk, fixed_count=None):
    it=Interp(mod); it.fork=fk
    calls=[]
    it.hooks['STUB_dsinit']=lambda s,a: calls.append((a[1],a[2],a[3]))
    ds=it.mem.alloc(16,'dsobj'); dmem=it.mem.mkarr('dataset',N*64); it.mem.store(Ptr('dsobj',0),dmem,8)
    tc=resolve(NamedT('struct.randomx_cache',mod)); cache=it.mem.alloc(tc.size(),'cache'); it.mem.store(Ptr('cache',tc.layout()[0][4]),Ptr('@fn:STUB_dsinit',0),8)
    start,count=z3.BitVecs('start count',64)
    fk['pc']+=[z3.ULT(start,N), z3.ULE(count,N), z3.ULE(start+count,N)]            # the function's own (debug-build) asserts = documented contract
    cnt=count
    if fixed_count is not None: fk['pc'].append(count==fixed_count); cnt=fixed_count
    # make the small memcpy length concrete for the prototype
    orig=it.intrinsic
    copied=[]
    def intr(fn,args,rt):
        if fn.startswith('llvm.memcpy') and not is_c(args[2]):
            n=z3.simplify(z3.substitute(args[2],(count,z3.BitVecVal(fixed_count,64)))); assert z3.is_bv_value(n); copied.append((args[0],n.as_long())); return None
        return orig(fn,args,rt)
    it.intrinsic=intr
    it.call('randomx_init_dataset',[ds,cache,start,count])
    # writes into the dataset: recorded init calls whose pointer is inside the dataset object + the memcpy
    i=z3.BitVec('i',64)
    covered=[]; inside=[]; shape=[]
    pc=fk['pc']
    for (p,s_,e_) in calls:
        s64=z3.ZeroExt(32,bv(s_,32)); e64=z3.ZeroExt(32,bv(e_,32))
        shape+= [z3.And(z3.ULT(s64,e64), (e64-s64)&3==0)]
        if p.obj=='dataset':
            shape.append(bv(p.off,64)==s64*64)
            covered.append(z3.And(z3.ULE(s64,i),z3.ULT(i,e64))); inside.append(z3.And(z3.ULE(start,s64),z3.ULE(e64,start+count)))
    for (p,n) in copied:
        assert p.obj=='dataset'; covered.append(z3.And(z3.ULE(bv(p.off,64),i*64), z3.ULT(i*64,bv(p.off,64)+n))); inside.append(z3.And(bv(p.off,64)==start*64, n==64*fixed_count))
    res={}
    def prove(name,f):
        s=z3.Solver(); s.add(*pc); s.add(z3.Not(f)); res[name]=str(s.check())
    prove('every call is a positive multiple of 4 items at memory+64*start', z3.And(shape) if shape else z3.BoolVal(True))
    prove('writes stay inside [start,start+count)', z3.And(inside) if inside else z3.BoolVal(True))
    prove('every requested item is written', z3.Implies(z3.And(z3.ULE(start,i),z3.ULT(i,start+count)), z3.Or(covered) if covered else z3.BoolVal(False)))
    return len(calls),[p.obj for p,_,_ in calls],copied and copied[0][1],res
t=time.time()
for fc in (0,1,2,3):
    res,q=explore(lambda fk: run(fk,fc))
    for taken,pc,r in res: print('count=%d'%fc, r)
res,q=explore(lambda fk: (fk['pc'].append(z3.UGE(z3.BitVec('count',64),4)), run(fk))[1])
for taken,pc,r in res: print('count>=4 path',taken, r)
print('wall',round(time.time()-t,2))
