import time, z3, sys
from irsym0 import *
mod=Module('rxall.ll')
def run(fk):
    it=Interp(mod); it.fork=fk
    live={}; log=[]
    def new_obj(s,size,kind):
        p=s.mem.alloc(size if size<(1<<20) else 64,kind+'%d'%(len(live)+len(log))); live[p.obj]=kind; return p
    def znwm(s,a):
        if s.decide(z3.BitVec('fail_new_%d'%len(log),1)): log.append('new:FAIL'); raise Thrown('_ZTISt9bad_alloc')
        log.append('new:ok'); return new_obj(s,a[0],'new')
    def zdl(s,a):
        if a[0].obj is not None: assert live.pop(a[0].obj)=='new',('delete of non-new',a[0]); log.append('delete')
        return None
    def pmemalign(s,a):
        if s.decide(z3.BitVec('fail_memalign_%d'%len(log),1)): log.append('memalign:FAIL'); return 12
        log.append('memalign:ok'); s.mem.store(a[0],new_obj(s,a[2],'memalign'),8); return 0
    def free_(s,a):
        if a[0].obj is not None: assert live.pop(a[0].obj)=='memalign',('free of non-memalign',a[0]); log.append('free')
        return None
    def largepages(s,a):
        if s.decide(z3.BitVec('fail_mmap_%d'%len(log),1)): log.append('mmap:FAIL'); return Ptr(None,0)
        log.append('mmap:ok'); return new_obj(s,a[0],'mmap')
    def freepaged(s,a):
        if a[0].obj is not None: assert live.pop(a[0].obj)=='mmap'; log.append('munmap(%s)'%a[1])
        return None
    it.hooks.update({'_Znwm':znwm,'_ZdlPv':zdl,'posix_memalign':pmemalign,'free':free_,'allocLargePagesMemory':largepages,'freePagedMemory':freepaged})
    it.hooks['__cxa_allocate_exception']=lambda s,a: s.mem.alloc(a[0],'excobj%d'%len(log))
    it.hooks['_ZNSt9bad_allocC2Ev']=lambda s,a: None
    def cxa_throw(s,a): raise Thrown(a[1].obj[1:])
    it.hooks['__cxa_throw']=cxa_throw
    it.hooks['__cxa_begin_catch']=lambda s,a: a[0]; it.hooks['__cxa_end_catch']=lambda s,a: None
    flags=z3.BitVec('flags',32)
    try:
        r=it.call('randomx_alloc_dataset',[flags]); esc=None
    except Thrown as t: r=None; esc=t.ty
    leaked=dict(live); ok_after=None
    if esc is None and r.obj is not None:
        it.call('randomx_release_dataset',[r]); ok_after=dict(live)
    return dict(ret=('NULL' if (r is None or r.obj is None) else r.obj), escaped=esc, log=log, live_after_call=leaked, live_after_release=ok_after)
t=time.time(); res,q=explore(run)
bad=0
for taken,pc,r in res:
    failed=any('FAIL' in x for x in r['log'])
    ok = r['escaped'] is None and ((failed and r['ret']=='NULL' and not r['live_after_call']) or (not failed and r['ret']!='NULL' and r['live_after_release']=={}))
    bad+= (not ok)
    print('OK ' if ok else 'BAD', [str(z3.simplify(p)) for p in pc][:1], r['ret'], r['log'], 'leak:',r['live_after_call'] if failed else r['live_after_release'])
print('paths',len(res),'violations',bad,'wall',round(time.time()-t,2))
