import time, z3, sys
from irsym0 import *
t0=time.time()
mod=Module('blake2b.ll'); print('parse',round(time.time()-t0,2))
it=Interp(mod)
# state object: struct __blake2b_state { h[8], t[2], f[2], buf[128], buflen u32, outlen u32, last_node u8 }
S=it.mem.alloc(256,'S'); blk=it.mem.alloc(128,'blk')
h=[z3.BitVec('h%d'%i,64) for i in range(8)]; t=[z3.BitVec('t%d'%i,64) for i in range(2)]; f=[z3.BitVec('f%d'%i,64) for i in range(2)]
m=[z3.BitVec('m%d'%i,64) for i in range(16)]
for i in range(8): it.mem.store(Ptr('S',8*i),h[i],8)
for i in range(2): it.mem.store(Ptr('S',64+8*i),t[i],8); it.mem.store(Ptr('S',80+8*i),f[i],8)
for i in range(16): it.mem.store(Ptr('blk',8*i),m[i],8)
t1=time.time()
it.call('blake2b_compress',[S,blk])
print('interp',round(time.time()-t1,2),'steps',it.steps)
out=[it.mem.load(Ptr('S',8*i),8) for i in range(8)]
# spec (RFC 7693) in python/z3
IV=[0x6A09E667F3BCC908,0xBB67AE8584CAA73B,0x3C6EF372FE94F82B,0xA54FF53A5F1D36F1,0x510E527FADE682D1,0x9B05688C2B3E6C1F,0x1F83D9ABFB41BD6B,0x5BE0CD19137E2179]
sigma=[[0,1,2,3,4,5,6,7,8,9,10,11,12,13,14,15],[14,10,4,8,9,15,13,6,1,12,0,2,11,7,5,3],[11,8,12,0,5,2,15,13,10,14,3,6,7,1,9,4],[7,9,3,1,13,12,11,14,2,6,5,10,4,0,15,8],[9,0,5,7,2,4,10,15,14,1,11,12,6,8,3,13],[2,12,6,10,0,11,8,3,4,13,7,5,15,14,1,9],[12,5,1,15,14,13,4,10,0,7,6,3,9,2,8,11],[13,11,7,14,12,1,3,9,5,0,15,4,8,6,2,10],[6,15,14,9,11,3,0,8,12,2,13,7,1,4,10,5],[10,2,8,4,7,6,1,5,15,11,9,14,3,12,13,0],[0,1,2,3,4,5,6,7,8,9,10,11,12,13,14,15],[14,10,4,8,9,15,13,6,1,12,0,2,11,7,5,3]]
v=list(h)+[z3.BitVecVal(x,64) for x in IV]
v[12]=v[12]^t[0]; v[13]=v[13]^t[1]; v[14]=v[14]^f[0]; v[15]=v[15]^f[1]
R=z3.RotateRight
def G(a,b,c,d,x,y):
    v[a]=v[a]+v[b]+x; v[d]=R(v[d]^v[a],32); v[c]=v[c]+v[d]; v[b]=R(v[b]^v[c],24)
    v[a]=v[a]+v[b]+y; v[d]=R(v[d]^v[a],16); v[c]=v[c]+v[d]; v[b]=R(v[b]^v[c],63)
for r in range(12):
    s=sigma[r]
    G(0,4,8,12,m[s[0]],m[s[1]]);G(1,5,9,13,m[s[2]],m[s[3]]);G(2,6,10,14,m[s[4]],m[s[5]]);G(3,7,11,15,m[s[6]],m[s[7]])
    G(0,5,10,15,m[s[8]],m[s[9]]);G(1,6,11,12,m[s[10]],m[s[11]]);G(2,7,8,13,m[s[12]],m[s[13]]);G(3,4,9,14,m[s[14]],m[s[15]])
spec=[h[i]^v[i]^v[i+8] for i in range(8)]
t2=time.time()
g=z3.simplify(z3.Or([a!=b for a,b in zip(out,spec)]))
print('simplify ->',g if z3.is_false(g) or z3.is_true(g) else 'residual', round(time.time()-t2,2))
