// RFC 7693 Appendix C reference (transcribed)
#include <stdint.h>
#include <stddef.h>
typedef struct { uint8_t b[128]; uint64_t h[8]; uint64_t t[2]; size_t c; size_t outlen; } rfc_ctx;
#define ROTR64(x, y)  (((x) >> (y)) ^ ((x) << (64 - (y))))
#define B2B_GET64(p) (((uint64_t) ((uint8_t *) (p))[0]) ^ (((uint64_t) ((uint8_t *) (p))[1]) << 8) ^ (((uint64_t) ((uint8_t *) (p))[2]) << 16) ^ (((uint64_t) ((uint8_t *) (p))[3]) << 24) ^ (((uint64_t) ((uint8_t *) (p))[4]) << 32) ^ (((uint64_t) ((uint8_t *) (p))[5]) << 40) ^ (((uint64_t) ((uint8_t *) (p))[6]) << 48) ^ (((uint64_t) ((uint8_t *) (p))[7]) << 56))
#define B2B_G(a, b, c, d, x, y) { v[a] = v[a] + v[b] + x; v[d] = ROTR64(v[d] ^ v[a], 32); v[c] = v[c] + v[d]; v[b] = ROTR64(v[b] ^ v[c], 24); v[a] = v[a] + v[b] + y; v[d] = ROTR64(v[d] ^ v[a], 16); v[c] = v[c] + v[d]; v[b] = ROTR64(v[b] ^ v[c], 63); }
static const uint64_t blake2b_iv[8] = { 0x6A09E667F3BCC908, 0xBB67AE8584CAA73B, 0x3C6EF372FE94F82B, 0xA54FF53A5F1D36F1, 0x510E527FADE682D1, 0x9B05688C2B3E6C1F, 0x1F83D9ABFB41BD6B, 0x5BE0CD19137E2179 };
static void rfc_compress(rfc_ctx *ctx, int last) {
  const uint8_t sigma[12][16] = {
 { 0, 1, 2, 3, 4, 5, 6, 7, 8, 9, 10, 11, 12, 13, 14, 15 }, { 14, 10, 4, 8, 9, 15, 13, 6, 1, 12, 0, 2, 11, 7, 5, 3 }, { 11, 8, 12, 0, 5, 2, 15, 13, 10, 14, 3, 6, 7, 1, 9, 4 }, { 7, 9, 3, 1, 13, 12, 11, 14, 2, 6, 5, 10, 4, 0, 15, 8 }, { 9, 0, 5, 7, 2, 4, 10, 15, 14, 1, 11, 12, 6, 8, 3, 13 }, { 2, 12, 6, 10, 0, 11, 8, 3, 4, 13, 7, 5, 15, 14, 1, 9 }, { 12, 5, 1, 15, 14, 13, 4, 10, 0, 7, 6, 3, 9, 2, 8, 11 }, { 13, 11, 7, 14, 12, 1, 3, 9, 5, 0, 15, 4, 8, 6, 2, 10 }, { 6, 15, 14, 9, 11, 3, 0, 8, 12, 2, 13, 7, 1, 4, 10, 5 }, { 10, 2, 8, 4, 7, 6, 1, 5, 15, 11, 9, 14, 3, 12, 13, 0 }, { 0, 1, 2, 3, 4, 5, 6, 7, 8, 9, 10, 11, 12, 13, 14, 15 }, { 14, 10, 4, 8, 9, 15, 13, 6, 1, 12, 0, 2, 11, 7, 5, 3 } };
  int i; uint64_t v[16], m[16];
  for (i = 0; i < 8; i++) { v[i] = ctx->h[i]; v[i + 8] = blake2b_iv[i]; }
  v[12] ^= ctx->t[0]; v[13] ^= ctx->t[1]; if (last) v[14] = ~v[14];
  for (i = 0; i < 16; i++) m[i] = B2B_GET64(&ctx->b[8 * i]);
  for (i = 0; i < 12; i++) {
    B2B_G( 0, 4,  8, 12, m[sigma[i][ 0]], m[sigma[i][ 1]]); B2B_G( 1, 5,  9, 13, m[sigma[i][ 2]], m[sigma[i][ 3]]);
    B2B_G( 2, 6, 10, 14, m[sigma[i][ 4]], m[sigma[i][ 5]]); B2B_G( 3, 7, 11, 15, m[sigma[i][ 6]], m[sigma[i][ 7]]);
    B2B_G( 0, 5, 10, 15, m[sigma[i][ 8]], m[sigma[i][ 9]]); B2B_G( 1, 6, 11, 12, m[sigma[i][10]], m[sigma[i][11]]);
    B2B_G( 2, 7,  8, 13, m[sigma[i][12]], m[sigma[i][13]]); B2B_G( 3, 4,  9, 14, m[sigma[i][14]], m[sigma[i][15]]);
  }
  for( i = 0; i < 8; ++i ) ctx->h[i] ^= v[i] ^ v[i + 8];
}
void rfc_update(rfc_ctx *ctx, const void *in, size_t inlen) {
  size_t i;
  for (i = 0; i < inlen; i++) {
    if (ctx->c == 128) { ctx->t[0] += ctx->c; if (ctx->t[0] < ctx->c) ctx->t[1]++; rfc_compress(ctx, 0); ctx->c = 0; }
    ctx->b[ctx->c++] = ((const uint8_t *) in)[i];
  }
}
int rfc_init(rfc_ctx *ctx, size_t outlen, const void *key, size_t keylen) {
  size_t i;
  if (outlen == 0 || outlen > 64 || keylen > 64) return -1;
  for (i = 0; i < 8; i++) ctx->h[i] = blake2b_iv[i];
  ctx->h[0] ^= 0x01010000 ^ (keylen << 8) ^ outlen;
  ctx->t[0] = 0; ctx->t[1] = 0; ctx->c = 0; ctx->outlen = outlen;
  for (i = keylen; i < 128; i++) ctx->b[i] = 0;
  if (keylen > 0) { rfc_update(ctx, key, keylen); ctx->c = 128; }
  return 0;
}
void rfc_final(rfc_ctx *ctx, void *out) {
  size_t i;
  ctx->t[0] += ctx->c; if (ctx->t[0] < ctx->c) ctx->t[1]++;
  while (ctx->c < 128) ctx->b[ctx->c++] = 0;
  rfc_compress(ctx, 1);
  for (i = 0; i < ctx->outlen; i++) ((uint8_t *) out)[i] = (ctx->h[i >> 3] >> (8 * (i & 7))) & 0xFF;
}
