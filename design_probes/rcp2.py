import z3, time, sys
def bv(k,to):
    d=z3.BitVec('d',32); D=z3.ZeroExt(32,d); p=z3.BitVecVal(1<<63,64)
    q=z3.UDiv(p,D); r=z3.URem(p,D)
    impl=(q<<k)+z3.UDiv(r<<k, D)
    I=z3.ZeroExt(64,impl); Dd=z3.ZeroExt(96,d); NN=z3.BitVecVal(1<<(63+k),128)
    s=z3.SolverFor("QF_BV"); s.set("timeout",to*1000)
    s.add(z3.UGE(d,1<<(k-1)), z3.ULT(z3.ZeroExt(1,d),z3.BitVecVal(1<<k,33)), (d&(d-1))!=0)
    s.add(z3.Not(z3.And(z3.ULE(I*Dd,NN), z3.ULT(NN,(I+1)*Dd))))
    t=time.time(); r=s.check(); return r, round(time.time()-t,1)
def integer(k,to):
    d=z3.Int('d'); P=1<<63
    q=z3.Int('q'); r=z3.Int('r'); u=z3.Int('u'); v=z3.Int('v')
    s=z3.Solver(); s.set("timeout",to*1000)
    s.add(d>(1<<(k-1)), d<(1<<k))
    # q,r = divmod(P,d) ; u,v = divmod(r*2^k, d)
    s.add(P==q*d+r, r>=0, r<d, r*(1<<k)==u*d+v, v>=0, v<d)
    res=q*(1<<k)+u
    N=1<<(63+k)
    # claim: res*d <= N < (res+1)*d  and no overflow: q*2^k<2^64, r*2^k<2^64, res<2^64
    claim=z3.And(res*d<=N, N<(res+1)*d, q*(1<<k)<(1<<64), r*(1<<k)<(1<<64), res<(1<<64))
    s.add(z3.Not(claim))
    t=time.time(); rr=s.check(); return rr, round(time.time()-t,1)
for k in [4,8,12,16,20,24,32]:
    print(k, "int", integer(k,60), flush=True)
