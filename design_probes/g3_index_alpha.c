#include <assert.h>
#include <stdint.h>
#include "argon2.h"
#include "argon2_core.h"
uint32_t nondet_u32(void); uint8_t nondet_u8(void); int nondet_int(void);
/* RFC 9106 3.4.2 for p=1 (same lane), written independently */
static uint32_t spec_index(uint32_t pass, uint32_t slice, uint32_t index, uint32_t seg, uint32_t J1) {
  uint64_t lane_len = 4ull*seg;
  uint64_t W;                      /* |W| reference set size */
  if (pass==0) W = (uint64_t)slice*seg + index - 1;
  else W = lane_len - seg + index - 1;
  uint64_t x = ((uint64_t)J1*J1) >> 32;
  uint64_t y = (W * x) >> 32;
  uint64_t zz = W - 1 - y;
  uint64_t start = (pass==0 || slice==3) ? 0 : (uint64_t)(slice+1)*seg;
  return (uint32_t)((start + zz) % lane_len);
}
void harness(void){
  argon2_instance_t I; argon2_position_t P;
  uint32_t seg=nondet_u32(); __CPROVER_assume(seg>=2 && seg<= (1u<<SEGBITS));
  I.segment_length=seg; I.lane_length=4*seg; I.lanes=1; I.memory_blocks=4*seg;
  P.pass=nondet_u32(); __CPROVER_assume(P.pass<3); P.lane=0; P.slice=nondet_u8(); __CPROVER_assume(P.slice<4);
  P.index=nondet_u32(); __CPROVER_assume(P.index<seg);
  __CPROVER_assume(!(P.pass==0 && P.slice==0 && P.index<2));
  uint32_t J1=nondet_u32();
  uint32_t r=randomx_argon2_index_alpha(&I,&P,J1,1);
  assert(r==spec_index(P.pass,P.slice,P.index,seg,J1));
  assert(r<I.lane_length);
  uint32_t cur=P.slice*seg+P.index;
  assert(r!=cur);                                  /* never the block being built */
  if (P.pass==0) assert(r<cur);                    /* only already-built blocks in pass 0 */
#ifdef WITNESS
  assert(0);
#endif
}
