import z3, time
x00,x01,x10,x11=z3.BitVecs('x00 x01 x10 x11',64)
M=(2**32-1)**2
LO=lambda v: v & 0xffffffff
HI=lambda v: z3.LShR(v,32)
# portable mulh (instructions_portable.cpp), with the four partial products as shared opaque terms
m1=LO(x10)+LO(x01)+HI(x00); m2=HI(x10)+HI(x01)+LO(x11)+HI(m1); m3=HI(x11)+HI(m2)
impl=(m3<<32)+LO(m2)
# schoolbook identity for the 128-bit product
Z=lambda v: z3.ZeroExt(64,v)
full=(Z(x11)<<64)+(Z(x10)<<32)+(Z(x01)<<32)+Z(x00)
spec=z3.Extract(127,64,full)
s=z3.Solver(); s.set('timeout',120000)
s.add(*[z3.ULE(v,M) for v in (x00,x01,x10,x11)]); s.add(impl!=spec)
t=time.time(); print('mulh limb-level:', s.check(), round(time.time()-t,2))
# smulh correction identity with T = zext(a)*zext(b) opaque
a,b=z3.BitVecs('a b',64); T=z3.BitVec('T',128)
sext=lambda v: z3.SignExt(64,v)
neg=lambda v: z3.If(v<0, z3.BitVecVal(1,128), z3.BitVecVal(0,128))
# sext(a)*sext(b) == T - [a<0]*2^64*zext(b) - [b<0]*2^64*zext(a) (+ 2^128 term vanishes)  -- identity assumed; check the high-half consequence:
prod=T-(neg(a)*(Z(b)<<64))-(neg(b)*(Z(a)<<64))
hi_spec=z3.Extract(127,64,prod)
mulh_u=z3.Extract(127,64,T)
hi_impl=mulh_u - z3.If(a<0,b,z3.BitVecVal(0,64)) - z3.If(b<0,a,z3.BitVecVal(0,64))
s=z3.Solver(); s.add(hi_impl!=hi_spec); t=time.time(); print('smulh correction:', s.check(), round(time.time()-t,2))
