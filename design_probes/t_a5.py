import time, z3, sys
from irsym0 import *
mod=Module('aes_ni.ll')
V=z3.BitVecSort(128)
ENC=z3.Function('aesenc',V,V,V); DEC=z3.Function('aesdec',V,V,V)
def v128(x): return z3.Concat(bv(x[1],64),bv(x[0],64))
def lanes(t): return [z3.Extract(63,0,t),z3.Extract(127,64,t)]
calls=[]
def run(fk):
    it=Interp(mod); it.fork=fk
    it.hooks['_Z6aesencILb1EEDv2_xS0_S0_']=lambda s,a:(calls.append(('enc',a[1])), lanes(ENC(v128(a[0]),v128(a[1]))))[1]
    it.hooks['_Z6aesdecILb1EEDv2_xS0_S0_']=lambda s,a:(calls.append(('dec',a[1])), lanes(DEC(v128(a[0]),v128(a[1]))))[1]
    SIZE=2097152
    state=it.mem.alloc(64,'state'); buf=it.mem.mkarr('buf',SIZE)
    n=z3.BitVec('n',64); p=z3.BitVec('p',64)
    S=[[z3.BitVec('s%d_%d'%(i,j),64) for j in range(2)] for i in range(4)]
    fk['pc']+= [n&63==0, z3.ULE(n,SIZE), n!=0, p&63==0, z3.ULT(p,n)]          # loop invariant assumed at the header
    def on_enter(s,env):                                                    # havoc the loop-carried state
        return {'%22':Ptr('buf',p),'%23':S[0],'%24':S[1],'%25':S[2],'%26':S[3]}
    it.cut={'fn':'_Z11fillAes1Rx4ILb1EEvPvmS0_','header':'21','on_enter':on_enter}
    arr0=it.mem.objs['buf']['arr']
    try:
        it.call('_Z11fillAes1Rx4ILb1EEvPvmS0_',[state,n,buf]); kind='exit'; env=None
    except BackEdge as e: kind='backedge'; env=e.env
    arr1=it.mem.objs['buf']['arr']
    # spec of one step (spec 3.2): state0=dec(state0,key0), state1=enc(state1,key1), state2=dec(..key2), state3=enc(..key3); output = the 4 new states
    keys=[c[1] for c in calls[-4:]]; kinds=[c[0] for c in calls[-4:]]
    new=[(DEC if i%2==0 else ENC)(v128(S[i]),v128(keys[i])) for i in range(4)]
    sol=z3.Solver(); sol.add(*fk['pc'])
    j=z3.BitVec('j',64)
    expect=z3.If(z3.And(z3.UGE(j,p),z3.ULT(j,p+64)), z3.BitVecVal(0,8), z3.Select(arr0,j))
    bad=[]
    # bytes inside the window equal the new states (little endian), bytes outside unchanged
    for i in range(4):
        for k in range(16): bad.append(z3.Select(arr1,p+16*i+k)!=z3.Extract(8*k+7,8*k,new[i]))
    bad.append(z3.And(z3.Or(z3.ULT(j,p),z3.UGE(j,p+64)), z3.Select(arr1,j)!=z3.Select(arr0,j)))
    if kind=='backedge':
        bad.append(env['%22'].off!=p+64)
        for i,r in enumerate(('%23','%24','%25','%26')): bad.append(v128(env[r])!=new[i])
    sol.add(z3.Or(bad)); r=sol.check()
    ext=[]
    for (_,off,nb,sz,_) in it.mem.checks:
        s2=z3.Solver(); s2.add(*fk['pc']); s2.add(z3.Not(z3.ULE(bv(off,64),sz-nb))); ext.append(s2.check()==z3.unsat)
    return kind,kinds,str(r),all(ext),[hex(z3.simplify(v128(k)).as_long()) for k in keys]
t=time.time(); res,q=explore(run)
for taken,pc,r in res: print(r[:4]); 
print('keys',res[0][2][4]); print('paths',len(res),'wall',round(time.time()-t,2))
