import time, z3, sys
from irsym0 import *
mod=Module('vmi_ni.ll')
FN='_ZN7randomx13InterpretedVmINS_16AlignedAllocatorILm64EEELb1EE7executeEv'
L3M64=(2097152//8//8-1)*64; DSMASK=(2147483648-1)&~63
O=dict(reg=3264,cfg=3520,rr=3536,mem=3552,spp=3568,dsoff=3584,flags=3592,bm=3696,bc=3736)
I2D=z3.Function('i2d',z3.BitVecSort(32),z3.BitVecSort(64))
DS=z3.Function('DS',z3.BitVecSort(64),z3.BitVecSort(64))   # dataset word at byte address
def run(fk):
    it=Interp(mod); it.fork=fk
    vm=it.mem.alloc(16064,'vm'); sp=it.mem.mkarr('sp',2097152); vt=it.mem.alloc(8*20,'vt')
    it.mem.store(Ptr('vm',0),vt,8); it.mem.store(Ptr('vt',8*12),Ptr('@fn:STUB_prefetch',0),8); it.mem.store(Ptr('vt',8*11),Ptr('@fn:STUB_read',0),8)
    it.mem.store(Ptr('vm',O['spp']),sp,8); it.mem.store(Ptr('vm',O['flags']),0,4)          # v1
    rr=[z3.BitVec('readReg%d'%i,32) for i in range(4)]
    for i in range(4): it.mem.store(Ptr('vm',O['rr']+4*i),rr[i],4); fk['pc'].append(z3.Or(rr[i]==2*i,rr[i]==2*i+1))
    em=[z3.BitVec('emask%d'%i,64) for i in range(2)]
    for i in range(2): it.mem.store(Ptr('vm',O['cfg']+8*i),em[i],8)
    mx,ma=z3.BitVecs('mx ma',32); dso=z3.BitVec('datasetOffset',64)
    it.mem.store(Ptr('vm',O['mem']),mx,4); it.mem.store(Ptr('vm',O['mem']+4),ma,4); it.mem.store(Ptr('vm',O['dsoff']),dso,8)
    for i in range(8): it.mem.store(Ptr('vm',O['reg']+192+8*i),z3.BitVec('a%d'%i,64),8)
    ev=[]
    it.hooks['_ZN7randomx15BytecodeMachine14compileProgramERNS_7ProgramEPNS_19InstructionByteCodeERNS_18NativeRegisterFileE13randomx_flags']=lambda s,a: None
    st={}
    def execbc(s,a):      # arbitrary effect of the 384 instructions on r,f,e and the scratchpad
        nr=st['nreg']
        st['r2']=[z3.BitVec('r2_%d'%i,64) for i in range(8)]; st['f2']=[z3.BitVec('f2_%d'%i,64) for i in range(8)]; st['e2']=[z3.BitVec('e2_%d'%i,64) for i in range(8)]
        st['pre']=dict(r=[s.mem.load(Ptr(nr.obj,8*i),8) for i in range(8)], f=[s.mem.load(Ptr(nr.obj,64+8*i),8) for i in range(8)], e=[s.mem.load(Ptr(nr.obj,128+8*i),8) for i in range(8)], sp=s.mem.objs['sp']['arr'])
        for i in range(8): s.mem.store(Ptr(nr.obj,8*i),st['r2'][i],8); s.mem.store(Ptr(nr.obj,64+8*i),st['f2'][i],8); s.mem.store(Ptr(nr.obj,128+8*i),st['e2'][i],8)
        s.mem.objs['sp']['arr']=z3.Array('sp2',z3.BitVecSort(64),z3.BitVecSort(8)); st['sp2']=s.mem.objs['sp']['arr']; ev.append('exec'); return None
    it.hooks['_ZN7randomx15BytecodeMachine15executeBytecodeEPNS_19InstructionByteCodeEPhRNS_20ProgramConfigurationE13randomx_flags']=execbc
    def prefetch(s,a): ev.append(('prefetch',a[1])); return None
    def dsread(s,a):
        ev.append(('read',a[1])); r=a[2]
        for i in range(8): s.mem.store(Ptr(r.obj,r.off+8*i), bv(s.mem.load(Ptr(r.obj,r.off+8*i),8),64)^DS(bv(a[1],64)+8*i),8)
        return None
    it.hooks['STUB_prefetch']=prefetch; it.hooks['STUB_read']=dsread
    sa0,sa1=z3.BitVecs('spAddr0 spAddr1',32)
    R0=[z3.BitVec('r%d'%i,64) for i in range(8)]
    def on_enter(s,env):
        nr=env['%2']; st['nreg']=nr
        for i in range(8): s.mem.store(Ptr(nr.obj,8*i),R0[i],8)
        return {'%53':sa0,'%54':sa1}
    it.cut={'fn':FN,'header':'52','on_enter':on_enter}
    try: it.call(FN,[vm]); kind='exit'; env=None
    except BackEdge as e: kind='backedge'; env=e.env
    if kind!='backedge': return kind,
    # ---------------- spec 4.6.2 (v1), one iteration
    def sel(regs,idx): 
        v=regs[7]
        for k in range(6,-1,-1): v=z3.If(idx==k,regs[k],v)
        return v
    mix=sel(R0,rr[0])^sel(R0,rr[1])
    A0=(sa0^z3.Extract(31,0,mix))&L3M64; A1=(sa1^z3.Extract(63,32,mix))&L3M64
    ld=lambda arr,off: z3.Concat(*[z3.Select(arr,off+k) for k in reversed(range(8))])
    z64=lambda v: z3.ZeroExt(32,v)
    sp0=st['pre']['sp']
    r1=[R0[i]^ld(sp0,z64(A0)+8*i) for i in range(8)]
    cvt=lambda off:[I2D(z3.Extract(31,0,ld(sp0,off))),I2D(z3.Extract(63,32,ld(sp0,off)))]
    f1=sum([cvt(z64(A1)+8*i) for i in range(4)],[])
    MM=(1<<56)-1
    e1=sum([[ (v&MM)|em[j] for j,v in enumerate(cvt(z64(A1)+8*(4+i)))] for i in range(4)],[])
    bad=[]
    for i in range(8): bad+= [bv(st['pre']['r'][i],64)!=r1[i], bv(st['pre']['f'][i],64)!=f1[i], bv(st['pre']['e'][i],64)!=e1[i]]
    r2,f2,e2=st['r2'],st['f2'],st['e2']
    readPtr=dso+z3.ZeroExt(32,ma&DSMASK)
    mxn=mx^z3.Extract(31,0,sel(r2,rr[2])^sel(r2,rr[3]))
    pre_addr=dso+z3.ZeroExt(32,mxn&DSMASK)
    evs=[e for e in ev if e!='exec']
    bad+=[bv(evs[0][1],64)!=pre_addr, bv(evs[1][1],64)!=readPtr] if (len(evs)==2 and evs[0][0]=='prefetch' and evs[1][0]=='read') else [z3.BoolVal(True)]
    r3=[r2[i]^DS(readPtr+8*i) for i in range(8)]
    bad+=[bv(it.mem.load(Ptr('vm',O['mem']),4),32)!=ma, bv(it.mem.load(Ptr('vm',O['mem']+4),4),32)!=mxn]
    # expected scratchpad: sp2 with r3 at A1 and f2^e2 at A0 (in that order)
    exp=st['sp2']
    for i in range(8):
        for k in range(8): exp=z3.Store(exp,z64(A1)+8*i+k,z3.Extract(8*k+7,8*k,r3[i]))
    for i in range(8):
        w=f2[i]^e2[i]
        for k in range(8): exp=z3.Store(exp,z64(A0)+8*i+k,z3.Extract(8*k+7,8*k,w))
    j=z3.BitVec('j',64); bad.append(z3.Select(it.mem.objs['sp']['arr'],j)!=z3.Select(exp,j))
    nr=st['nreg']
    for i in range(8): bad+=[bv(it.mem.load(Ptr(nr.obj,8*i),8),64)!=r3[i], bv(it.mem.load(Ptr(nr.obj,64+8*i),8),64)!=(f2[i]^e2[i])]
    bad+=[bv(env['%53'],32)!=0, bv(env['%54'],32)!=0]
    t=time.time(); rs=[]
    for b in bad:
        sol=z3.Solver(); sol.set('timeout',60000); sol.add(*fk['pc']); sol.add(b); t1=time.time(); rr_=sol.check(); rs.append((str(rr_),round(time.time()-t1,1)))
    from collections import Counter
    r=dict(Counter(x[0] for x in rs)); slow=[(i,x) for i,x in enumerate(rs) if x[1]>2 or x[0]!='unsat']; r=(r,slow[:6])
    ext=[]
    for (_,off,nb,sz,_) in it.mem.checks:
        if _=='sp' or True:
            s2=z3.Solver(); s2.add(*fk['pc']); s2.add(z3.Not(z3.ULE(bv(off,64),sz-nb))); ext.append(s2.check()==z3.unsat)
    return kind,[e if isinstance(e,str) else e[0] for e in ev],str(r),round(time.time()-t,2),all(ext),len(ext),it.steps
t=time.time(); res,q=explore(run)
for taken,pc,r in res: print(len(taken),r)
print('paths',len(res),'wall',round(time.time()-t,1))
