import time, z3, sys
from irsym0 import *
op,dst,src=int(sys.argv[1]),int(sys.argv[2]),int(sys.argv[3])
imm=z3.BitVec('imm',32); modb=z3.BitVec('mod',8)
R=[z3.BitVec('r%d'%i,64) for i in range(8)]
def mkins(it):
    ins=it.mem.alloc(8,'ins')
    it.mem.store(Ptr('ins',0),op,1); it.mem.store(Ptr('ins',1),dst,1); it.mem.store(Ptr('ins',2),src,1); it.mem.store(Ptr('ins',3),modb,1); it.mem.store(Ptr('ins',4),imm,4); return ins
# ---- JIT side
mod=Module('jit.ll'); it=Interp(mod)
J=it.mem.alloc(72,'J'); code=it.mem.alloc(81920,'code'); offs=it.mem.alloc(4*512,'offs')
it.mem.store(Ptr('J',0),Ptr('offs',0),8); it.mem.store(Ptr('J',8),Ptr('offs',0),8); it.mem.store(Ptr('J',16),Ptr('offs',4*512),8)
for k in range(8): it.mem.store(Ptr('J',24+4*k),0xffffffff,4)
it.mem.store(Ptr('J',56),code,8); it.mem.store(Ptr('J',64),100,4); it.mem.store(Ptr('J',68),0,4)
it.call('_ZN7randomx14JitCompilerX8612generateCodeERNS_11InstructionEi',[J,mkins(it),7])
pos=it.mem.load(Ptr('J',64),4); bs=[it.mem.load(Ptr('code',k),1) for k in range(100,pos)]
# ---- mini x86 semantics: only REX.W lea r64,[base+index*scale+disp32] / [base+index*scale]
def bits(b,hi,lo):
    if is_c(b): return (b>>lo)&((1<<(hi-lo+1))-1)
    v=z3.simplify(z3.Extract(hi,lo,b)); return v.as_long() if z3.is_bv_value(v) else v
def x86_exec(bs,regs):
    regs=dict(regs); i=0
    rex=bs[i]; assert is_c(rex) and rex&0xf0==0x40; i+=1; W=(rex>>3)&1; Rb=(rex>>2)&1; Xb=(rex>>1)&1; Bb=rex&1
    opc=bs[i]; i+=1; assert opc==0x8d and W==1,'only lea'
    modrm=bs[i]; i+=1; md=bits(modrm,7,6); reg=bits(modrm,5,3); rm=bits(modrm,2,0); assert is_c(md) and is_c(reg) and is_c(rm)
    assert rm==4,'expect SIB'
    sib=bs[i]; i+=1; sc=bits(sib,7,6); idx=bits(sib,5,3); base=bits(sib,2,0); assert is_c(idx) and is_c(base)
    disp=0
    if md==2:
        d=z3.Concat(*[bv(b,8) for b in reversed(bs[i:i+4])]); i+=4; disp=z3.SignExt(32,d)
    elif md==0: assert base!=5
    else: raise Exception('mod')
    ireg=regs[8*Xb+idx]; breg=regs[8*Bb+base]
    scale=sc if is_c(sc) else z3.ZeroExt(62,sc)
    ea=breg+(ireg<<scale)+disp
    regs[8*Rb+reg]=ea; assert i==len(bs),'trailing bytes'
    return regs
regs={8+k:R[k] for k in range(8)}
after=x86_exec(bs,regs)
# ---- interpreter side
mod2=Module('bm.ll'); it2=Interp(mod2)
nreg=it2.mem.alloc(8*8+16*12,'nreg'); bm=it2.mem.alloc(40,'bm'); ibc=it2.mem.alloc(40,'ibc')
for k in range(8): it2.mem.store(Ptr('nreg',8*k),R[k],8); it2.mem.store(Ptr('bm',4*k),0xffffffff,4)
it2.mem.store(Ptr('bm',32),nreg,8)
it2.call('_ZN7randomx15BytecodeMachine18compileInstructionERNS_11InstructionEiRNS_19InstructionByteCodeE',[bm,mkins(it2),7,ibc])
pc=it2.mem.alloc(4,'pc'); it2.mem.store(pc,7,4); sp=it2.mem.alloc(2097152,'sp'); cfg=it2.mem.alloc(32,'cfg')
it2.call('_ZN7randomx15BytecodeMachine18executeInstructionERNS_19InstructionByteCodeERiPhRNS_20ProgramConfigurationE13randomx_flags',[ibc,pc,sp,cfg,0])
ok=True
for k in range(8):
    a=after[8+k]; b=it2.mem.load(Ptr('nreg',8*k),8)
    g=z3.simplify(bv(a,64)!=bv(b,64))
    if not z3.is_false(g):
        s=z3.Solver(); s.add(g); r=s.check(); print('r%d'%k,'solver',r, s.model() if r==z3.sat else ''); ok=ok and r==z3.unsat
print('bytes',len(bs),'JIT==interp:',ok,'usage jit',[it.mem.load(Ptr('J',24+4*k),4) for k in range(8)]==[it2.mem.load(Ptr('bm',4*k),4) for k in range(8)])
