import z3, time, sys
D=z3.Float64()
rms={'RNE':z3.RNE(),'RTN':z3.RTN(),'RTP':z3.RTP(),'RTZ':z3.RTZ()}
rm=rms[sys.argv[1]]
e=z3.FP('e',D); m=z3.FP('m',D)
posnorm_or_inf=lambda x: z3.And(z3.Not(z3.fpIsNaN(x)), z3.fpIsPositive(x), z3.Or(z3.fpIsNormal(x), z3.fpIsInf(x)))
mb=z3.fpToIEEEBV(m); eb=z3.fpToIEEEBV(e)
inM=z3.And(z3.Extract(63,63,mb)==0, z3.UGE(z3.Extract(62,52,mb),0x300), z3.ULE(z3.Extract(62,52,mb),0x3ff))
r2=z3.fpDiv(rm,e,m); rb=z3.fpToIEEEBV(r2)
s=z3.Solver(); s.set("timeout",400000)
s.add(posnorm_or_inf(e), z3.UGE(z3.Extract(62,52,eb),2), inM)
s.add(z3.Not(z3.And(posnorm_or_inf(r2), z3.UGE(z3.ZeroExt(1,z3.Extract(62,52,rb))+1, z3.ZeroExt(1,z3.Extract(62,52,eb))))))
t=time.time(); r=s.check(); print(sys.argv[1], r, round(time.time()-t,1), flush=True)
