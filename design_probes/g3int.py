import z3, time
# integer-mode statement of index_alpha range facts (lanes=1), products abstracted with monotonicity lemmas
seg,slice_,index,J1,pass_=z3.Ints('seg slice index J1 pass')
x=z3.Int('x'); y=z3.Int('y'); q=z3.Int('q'); r=z3.Int('r')
lane=4*seg
W=z3.If(pass_==0, slice_*seg+index-1, lane-seg+index-1)
pre=[seg>=2, seg<=2**22, slice_>=0, slice_<=3, index>=0, index<seg, pass_>=0, pass_<=2, J1>=0, J1<2**32,
     z3.Not(z3.And(pass_==0, slice_==0, index<2))]
# x = (J1*J1)>>32  : only its range is needed: 0 <= x < 2^32      (from J1 < 2^32)
pre+=[x>=0, x<2**32]
# y = (W*x)>>32 with monotonicity lemma: 0 <= y <= W-1 when W>=1
pre+=[y>=0, z3.Implies(W>=1, y<=W-1)]
zz=W-1-y
start=z3.If(z3.Or(pass_==0, slice_==3), 0, (slice_+1)*seg)
tot=start+zz
pre+=[tot==q*lane+r, r>=0, r<lane]
cur=slice_*seg+index
claims={'W>=1 (reference set non-empty)':W>=1,
        'fits u32: W<2^32':W<2**32,
        'result<lane':r<lane,
        'not current':r!=cur,
        'pass0: already built':z3.Implies(pass_==0, r<cur),
        'pass>0: not in the segment being built beyond index':z3.Implies(pass_>0, z3.Or(r<slice_*seg, r>=(slice_+1)*seg, r<cur))}
for name,c in claims.items():
    s=z3.Solver(); s.set('timeout',60000); s.add(*pre); s.add(z3.Not(c)); t=time.time(); res=s.check()
    print(name, 'PROVED' if res==z3.unsat else (res, s.model() if res==z3.sat else ''), round(time.time()-t,2))
