import time, z3, sys
from irsym0 import *
op,dst,src=int(sys.argv[1]),int(sys.argv[2]),int(sys.argv[3])
exec(open('t_j3.py').read().split("t0=time.time()")[0].split("op,dst,src=")[0])   # imports only
imm=z3.BitVec('imm',32); modb=z3.BitVec('mod',8)
R=[z3.BitVec('r%d'%i,64) for i in range(8)]
SPSIZE=2097152
modJ=Module('jit.ll'); modB=Module('bm.ll')
src_txt=open('t_j3.py').read()
x86src=src_txt[src_txt.index("SP=z3.Array"):src_txt.index("regs={8+k:R[k]")]
exec(x86src)
def mkins(it,opv):
    ins=it.mem.alloc(8,'ins')
    it.mem.store(Ptr('ins',0),opv,1); it.mem.store(Ptr('ins',1),dst,1); it.mem.store(Ptr('ins',2),src,1); it.mem.store(Ptr('ins',3),modb,1); it.mem.store(Ptr('ins',4),imm,4); return ins
def run(fk):
    it=Interp(modJ); it.fork=fk
    J=it.mem.alloc(72,'J'); code=it.mem.alloc(81920,'code'); offs=it.mem.alloc(4*512,'offs')
    it.mem.store(Ptr('J',0),Ptr('offs',0),8); it.mem.store(Ptr('J',8),Ptr('offs',0),8); it.mem.store(Ptr('J',16),Ptr('offs',4*512),8)
    for k in range(8): it.mem.store(Ptr('J',24+4*k),0xffffffff,4)
    it.mem.store(Ptr('J',56),code,8); it.mem.store(Ptr('J',64),100,4); it.mem.store(Ptr('J',68),0,4)
    it.call('_ZN7randomx14JitCompilerX8612generateCodeERNS_11InstructionEi',[J,mkins(it,op),7])
    pos=it.mem.load(Ptr('J',64),4); bs=[it.mem.load(Ptr('code',k),1) for k in range(100,pos)]
    regs={8+k:R[k] for k in range(8)}; regs[0]=z3.BitVec('rax0',64); regs[6]=z3.BitVec('rsi',64)
    after,mem_after,acc=x86_run(bs,regs,SP)
    it2=Interp(modB); it2.fork=fk
    nreg=it2.mem.alloc(8*8+16*12,'nreg'); bm=it2.mem.alloc(40,'bm'); ibc=it2.mem.alloc(40,'ibc')
    for k in range(8): it2.mem.store(Ptr('nreg',8*k),R[k],8); it2.mem.store(Ptr('bm',4*k),0xffffffff,4)
    it2.mem.store(Ptr('bm',32),nreg,8)
    it2.call('_ZN7randomx15BytecodeMachine18compileInstructionERNS_11InstructionEiRNS_19InstructionByteCodeE',[bm,mkins(it2,op),7,ibc])
    pc=it2.mem.alloc(4,'pc'); it2.mem.store(pc,7,4); sp=it2.mem.mkarr('sp',SPSIZE); cfg=it2.mem.alloc(32,'cfg')
    it2.call('_ZN7randomx15BytecodeMachine18executeInstructionERNS_19InstructionByteCodeERiPhRNS_20ProgramConfigurationE13randomx_flags',[ibc,pc,sp,cfg,0])
    s=z3.Solver(); s.add(*fk['pc'])
    diffs=[after[8+k]!=bv(it2.mem.load(Ptr('nreg',8*k),8),64) for k in range(8)]
    j=z3.BitVec('j',64); diffs.append(z3.Select(mem_after,j)!=z3.Select(it2.mem.objs['sp']['arr'],j))
    s.add(z3.Or(diffs)); eq=s.check()
    b=[]
    for off,n,sz in [(o,n,sz) for (_,o,n,sz,_) in it2.mem.checks]+[(o,8,SPSIZE) for o in acc]:
        s2=z3.Solver(); s2.add(*fk['pc']); s2.add(z3.Not(z3.ULE(off,sz-n))); b.append(s2.check()==z3.unsat)
    return (len(bs),str(eq),all(b))
t=time.time(); res,q=explore(run)
for taken,pc,r in res: print(' path',taken,'bytes',r[0],'JIT!=interp:',r[1],'(unsat=proved) bounds ok:',r[2])
print('paths',len(res),'feasibility queries',q,'wall',round(time.time()-t,2),'s')
