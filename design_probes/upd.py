import z3, time
BV=z3.BitVecSort
H=z3.BitVecSort(512); BLK=z3.BitVecSort(1024); W=16
F=z3.Function('F',H,BLK,BV(64),BV(64),H)
IN=z3.Array('IN',BV(W),BV(8))
def v(x): return z3.BitVecVal(x,W)
def blk_from(arr,off):   # 128 bytes arr[off..off+128)
    return z3.Concat(*[z3.Select(arr,off+v(127-i)) for i in range(128)])
def blk_from_buf(buf): return z3.Concat(*[buf[127-i] for i in range(128)])
def inc(t0,t1,c):
    n0=t0+z3.ZeroExt(64-W,c); return n0, t1+z3.If(z3.ULT(n0,z3.ZeroExt(64-W,c)),z3.BitVecVal(1,64),z3.BitVecVal(0,64))
def update(st, base, n, maxloops):
    """symbolic-merge model of blake2b_update: st=(h,t0,t1,buf[128 list],L); reads IN[base..base+n)"""
    h,t0,t1,buf,L=st
    big=z3.And(n!=0, z3.UGT(L+n,v(128)))
    fill=v(128)-L
    buf1=[z3.If(z3.And(z3.ULE(L,v(i))), z3.Select(IN,base+v(i)-L), buf[i]) for i in range(128)]
    a0,a1=inc(t0,t1,v(128)); h1=F(h,blk_from_buf(buf1),a0,a1)
    rem=n-fill; pin=base+fill
    hs,ts0,ts1,rems,pins=h1,a0,a1,rem,pin
    for j in range(maxloops):
        c=z3.UGT(rems,v(128)); b0,b1=inc(ts0,ts1,v(128))
        hn=F(hs,blk_from(IN,pins),b0,b1)
        hs=z3.If(c,hn,hs); ts0=z3.If(c,b0,ts0); ts1=z3.If(c,b1,ts1); pins=z3.If(c,pins+v(128),pins); rems=z3.If(c,rems-v(128),rems)
    # unwinding assertion: rems<=128
    unw=z3.ULE(rems,v(128))
    # after big: buflen=0, copy rems bytes from pins
    L2=z3.If(big,v(0),L); src=z3.If(big,pins,base); cnt=z3.If(big,rems,n)
    bufb=buf1 if True else buf
    bufx=[z3.If(big,buf1[i],buf[i]) for i in range(128)]
    buf2=[z3.If(z3.And(z3.ULE(L2,v(i)), z3.ULT(v(i),L2+cnt)), z3.Select(IN,src+v(i)-L2), bufx[i]) for i in range(128)]
    return (z3.If(big,hs,h), z3.If(big,ts0,t0), z3.If(big,ts1,t1), buf2, L2+cnt), z3.Or(z3.Not(big),unw)
h=z3.BitVec('h',512); t0,t1=z3.BitVecs('t0 t1',64); L,n,k=z3.BitVecs('L n k',W)
buf=[z3.BitVec('b%d'%i,8) for i in range(128)]
MAXN=384
st=(h,t0,t1,buf,L)
A,ua=update(st,v(0),n,3)
B1,ub1=update(st,v(0),k,3); B,ub2=update(B1,k,n-k,3)
s=z3.Solver(); s.set('timeout',300000)
s.add(z3.ULE(L,v(128)), z3.ULE(n,v(MAXN)), z3.ULE(k,n))
diff=[A[0]!=B[0],A[1]!=B[1],A[2]!=B[2],A[4]!=B[4]]+[z3.And(z3.ULT(v(i),A[4]),A[3][i]!=B[3][i]) for i in range(128)]+[z3.Not(ua),z3.Not(ub1),z3.Not(ub2)]
s.add(z3.Or(diff))
t=time.time(); print(s.check(), round(time.time()-t,1))
