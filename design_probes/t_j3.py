import time, z3, sys
from irsym0 import *
op,dst,src=int(sys.argv[1]),int(sys.argv[2]),int(sys.argv[3])
imm=z3.BitVec('imm',32); modb=z3.BitVec('mod',8)
R=[z3.BitVec('r%d'%i,64) for i in range(8)]
def mkins(it):
    ins=it.mem.alloc(8,'ins')
    it.mem.store(Ptr('ins',0),op,1); it.mem.store(Ptr('ins',1),dst,1); it.mem.store(Ptr('ins',2),src,1); it.mem.store(Ptr('ins',3),modb,1); it.mem.store(Ptr('ins',4),imm,4); return ins
SPSIZE=2097152
t0=time.time()
mod=Module('jit.ll'); it=Interp(mod)
J=it.mem.alloc(72,'J'); code=it.mem.alloc(81920,'code'); offs=it.mem.alloc(4*512,'offs')
it.mem.store(Ptr('J',0),Ptr('offs',0),8); it.mem.store(Ptr('J',8),Ptr('offs',0),8); it.mem.store(Ptr('J',16),Ptr('offs',4*512),8)
for k in range(8): it.mem.store(Ptr('J',24+4*k),0xffffffff,4)
it.mem.store(Ptr('J',56),code,8); it.mem.store(Ptr('J',64),100,4); it.mem.store(Ptr('J',68),0,4)
# symbolic branch on mod (getModMem()?L1:L2) appears as select in IR -> fine
it.call('_ZN7randomx14JitCompilerX8612generateCodeERNS_11InstructionEi',[J,mkins(it),7])
pos=it.mem.load(Ptr('J',64),4); bs=[it.mem.load(Ptr('code',k),1) for k in range(100,pos)]
print('bytes:',' '.join('%02x'%b if is_c(b) else '??' for b in bs))
# ---- mini x86 semantics for the 3 forms used by IADD_M / ISTORE
SP=z3.Array('sp_mem',z3.BitVecSort(64),z3.BitVecSort(8))
class X: pass
def le(bs): return z3.Concat(*[bv(b,8) for b in reversed(bs)])
def x86_run(bs,regs,mem):
    regs=dict(regs); i=0; acc=[]
    while i<len(bs):
        b=bs[i]; assert is_c(b),('symbolic opcode byte',i)
        rex=0
        if b&0xf0==0x40: rex=b; i+=1; b=bs[i]
        W=(rex>>3)&1; Rb=(rex>>2)&1; Xb=(rex>>1)&1; Bb=rex&1
        if b==0x8d and not W:            # lea r32,[r/m + disp32]
            m=bs[i+1]; md=m>>6; reg=(m>>3)&7; rm=m&7; i+=2; assert md==2
            if rm==4: sib=bs[i]; i+=1; assert sib==0x24; base=4
            else: base=rm
            disp=z3.SignExt(32,le(bs[i:i+4])); i+=4
            ea=regs[8*Bb+base]+disp; regs[8*Rb+reg]=z3.ZeroExt(32,z3.Extract(31,0,ea))
        elif b==0x25:                    # and eax, imm32
            v=le(bs[i+1:i+5]); i+=5; regs[0]=z3.ZeroExt(32,z3.Extract(31,0,regs[0])&v)
        elif b in (0x03,0x89) and W:     # add r64,[base+index] / mov [base+index],r64
            m=bs[i+1]; md=m>>6; reg=(m>>3)&7; rm=m&7
            if md==0 and rm==4:
                sib=bs[i+2]; i+=3; sc=sib>>6; idx=(sib>>3)&7; base=sib&7; assert sc==0
                ea=regs[8*Bb+base]+regs[8*Xb+idx]
            elif md==2 and rm!=4:
                ea=regs[8*Bb+rm]+z3.SignExt(32,le(bs[i+2:i+6])); i+=6
            else: raise Exception('modrm')
            off=ea-regs[6]   # rsi = scratchpad base
            acc.append(off)
            if b==0x03:
                v=z3.Concat(*[z3.Select(mem,off+k) for k in reversed(range(8))]); regs[8*Rb+reg]=regs[8*Rb+reg]+v
            else:
                v=regs[8*Rb+reg]
                for k in range(8): mem=z3.Store(mem,off+k,z3.Extract(8*k+7,8*k,v))
        else: raise Exception('x86 form %02x'%b)
    return regs,mem,acc
regs={8+k:R[k] for k in range(8)}; regs[0]=z3.BitVec('rax0',64); regs[6]=z3.BitVec('rsi',64)
after,mem_after,acc=x86_run(bs,regs,SP)
# ---- interpreter side
mod2=Module('bm.ll'); it2=Interp(mod2)
nreg=it2.mem.alloc(8*8+16*12,'nreg'); bm=it2.mem.alloc(40,'bm'); ibc=it2.mem.alloc(40,'ibc')
for k in range(8): it2.mem.store(Ptr('nreg',8*k),R[k],8); it2.mem.store(Ptr('bm',4*k),0xffffffff,4)
it2.mem.store(Ptr('bm',32),nreg,8)
it2.call('_ZN7randomx15BytecodeMachine18compileInstructionERNS_11InstructionEiRNS_19InstructionByteCodeE',[bm,mkins(it2),7,ibc])
pc=it2.mem.alloc(4,'pc'); it2.mem.store(pc,7,4); sp=it2.mem.mkarr('sp',SPSIZE); cfg=it2.mem.alloc(32,'cfg')
it2.call('_ZN7randomx15BytecodeMachine18executeInstructionERNS_19InstructionByteCodeERiPhRNS_20ProgramConfigurationE13randomx_flags',[ibc,pc,sp,cfg,0])
print('interp+jit exec',round(time.time()-t0,2),'s')
s=z3.Solver(); s.set('timeout',60000)
diffs=[after[8+k]!=bv(it2.mem.load(Ptr('nreg',8*k),8),64) for k in range(8)]
j=z3.BitVec('j',64); diffs.append(z3.Select(mem_after,j)!=z3.Select(it2.mem.objs['sp']['arr'],j))
s.add(z3.Or(diffs)); t=time.time(); print('JIT==interp (regs+memory):', 'PROVED' if s.check()==z3.unsat else s.model(), round(time.time()-t,2),'s')
# C06: every access in bounds, both engines
for name,lst in (('interp',[(o,n,sz) for (_,o,n,sz,_) in it2.mem.checks]),('jit',[(o,8,SPSIZE) for o in acc])):
    for off,n,sz in lst:
        s=z3.Solver(); s.add(z3.Not(z3.And(z3.ULE(off,sz-n)))); print(' bounds',name,'PROVED' if s.check()==z3.unsat else ('CEX',s.model()))
