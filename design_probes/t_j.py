import time, z3, sys
from irsym0 import *
mod=Module('jit.ll'); it=Interp(mod)
# JitCompilerX86 object: { vector{begin,end,cap} (24), [8 x i32] regUsage (32), i8* code (8), i32 codePos, i32 flags }
J=it.mem.alloc(72,'J'); code=it.mem.alloc(81920,'code'); offs=it.mem.alloc(4*512,'offs')
it.mem.store(Ptr('J',0),Ptr('offs',0),8); it.mem.store(Ptr('J',8),Ptr('offs',0),8); it.mem.store(Ptr('J',16),Ptr('offs',4*512),8)
for k in range(8): it.mem.store(Ptr('J',24+4*k),0xffffffff,4)
it.mem.store(Ptr('J',56),code,8); it.mem.store(Ptr('J',64),100,4); it.mem.store(Ptr('J',68),int(sys.argv[4]),4)
ins=it.mem.alloc(8,'ins')
op,dst,src=int(sys.argv[1]),int(sys.argv[2]),int(sys.argv[3])
imm=z3.BitVec('imm',32); modb=z3.BitVec('mod',8)
it.mem.store(Ptr('ins',0),op,1); it.mem.store(Ptr('ins',1),dst,1); it.mem.store(Ptr('ins',2),src,1); it.mem.store(Ptr('ins',3),modb,1); it.mem.store(Ptr('ins',4),imm,4)
t=time.time()
it.call('_ZN7randomx14JitCompilerX8612generateCodeERNS_11InstructionEi',[J,ins,7])
pos=it.mem.load(Ptr('J',64),4)
print('steps',it.steps,'time',round(time.time()-t,3),'codePos',pos)
out=[]
for k in range(100,pos):
    b=it.mem.load(Ptr('code',k),1); out.append('%02x'%b if is_c(b) else '<'+str(z3.simplify(b))+'>')
print(' '.join(out))
print('regUsage',[it.mem.load(Ptr('J',24+4*k),4) for k in range(8)])
