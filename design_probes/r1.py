import z3, time
M=(1<<64)-1
sigma=[[0,1,2,3,4,5,6,7,8,9,10,11,12,13,14,15],[14,10,4,8,9,15,13,6,1,12,0,2,11,7,5,3],[11,8,12,0,5,2,15,13,10,14,3,6,7,1,9,4],[7,9,3,1,13,12,11,14,2,6,5,10,4,0,15,8],[9,0,5,7,2,4,10,15,14,1,11,12,6,8,3,13],[2,12,6,10,0,11,8,3,4,13,7,5,15,14,1,9],[12,5,1,15,14,13,4,10,0,7,6,3,9,2,8,11],[13,11,7,14,12,1,3,9,5,0,15,4,8,6,2,10],[6,15,14,9,11,3,0,8,12,2,13,7,1,4,10,5],[10,2,8,4,7,6,1,5,15,11,9,14,3,12,13,0],[0,1,2,3,4,5,6,7,8,9,10,11,12,13,14,15],[14,10,4,8,9,15,13,6,1,12,0,2,11,7,5,3]]
def run(rot, add3, R):
    v=[z3.BitVec('v%d'%i,64) for i in range(16)]
    m=[z3.BitVec('m%d'%i,64) for i in range(16)]
    def G(a,b,c,d,x,y):
        v[a]=add3(v[a],v[b],x); v[d]=rot(v[d]^v[a],32); v[c]=v[c]+v[d]; v[b]=rot(v[b]^v[c],24)
        v[a]=add3(v[a],v[b],y); v[d]=rot(v[d]^v[a],16); v[c]=v[c]+v[d]; v[b]=rot(v[b]^v[c],63)
    for r in range(R):
        s=sigma[r]
        G(0,4,8,12,m[s[0]],m[s[1]]);G(1,5,9,13,m[s[2]],m[s[3]]);G(2,6,10,14,m[s[4]],m[s[5]]);G(3,7,11,15,m[s[6]],m[s[7]])
        G(0,5,10,15,m[s[8]],m[s[9]]);G(1,6,11,12,m[s[10]],m[s[11]]);G(2,7,8,13,m[s[12]],m[s[13]]);G(3,4,9,14,m[s[14]],m[s[15]])
    return v
rot_or=lambda x,c: z3.LShR(x,c)|(x<<(64-c))
rot_xor=lambda x,c: z3.LShR(x,c)^(x<<(64-c))
rot_z=lambda x,c: z3.RotateRight(x,c)
rot_l=lambda x,c: z3.RotateLeft(x,64-c)
a1=lambda a,b,c:(a+b)+c
a2=lambda a,b,c:a+(b+c)
for name,(r1,ad1),(r2,ad2) in [("or-vs-xor",(rot_or,a1),(rot_xor,a1)),("or-vs-rotr",(rot_or,a1),(rot_z,a1)),("rotl-vs-rotr+assoc",(rot_l,a1),(rot_z,a2)),("or-vs-or+assoc",(rot_or,a1),(rot_or,a2))]:
  for R in (1,12):
    A=run(r1,ad1,R);B=run(r2,ad2,R)
    t=time.time()
    goal=z3.Or([a!=b for a,b in zip(A,B)])
    s=z3.simplify(goal)
    t1=time.time()-t
    if z3.is_false(s): print(name,R,"simplify->false",round(t1,2)); continue
    sol=z3.SolverFor("QF_BV"); sol.set("timeout",60000); sol.add(goal)
    r=sol.check(); print(name,R,"solver",r,round(time.time()-t,2))
