import time, z3, sys
sys.argv=['x',sys.argv[1] if len(sys.argv)>1 else '1']
exec(open('t_a2.py').read().split("for name,x,y in")[0])
from slicenf0 import NF
nf=NF(); t=time.time()
na=[nf.term(v) for v in a]; nb=[nf.term(v) for v in b]; nc=[nf.term(v) for v in c]
print('NF pass',round(time.time()-t,1),'memo',len(nf.memo),flush=True)
import cec0
print('nodes after NF ref+ssse3:',len(cec0.topo(na+nb)),flush=True)
for name,x,y in (('ref-ssse3',na,nb),('ref-avx2',na,nc)):
    t=time.time(); g=z3.simplify(z3.Or([p!=q for p,q in zip(x,y)]))
    print(name,'simplify ->', g if z3.is_false(g) else 'residual', round(time.time()-t,2), flush=True)
    if not z3.is_false(g):
        nd=[i for i,(p,q) in enumerate(zip(x,y)) if not p.eq(q)]
        print(' raw-unequal words:',len(nd))
from collections import Counter
print(Counter(str(n.decl()) for n in cec0.topo(na)).most_common(8))
print(Counter(str(n.decl()) for n in cec0.topo(nb)).most_common(8))
def diff(p,q,d=0):
    if p.eq(q): return False
    if p.decl().eq(q.decl()) and p.num_args()==q.num_args() and p.num_args()>0:
        for u,v in zip(p.children(),q.children()):
            if diff(u,v,d+1): return True
    print('DIFF depth',d); print(' A:',p.decl(), p.num_args(), str(p)[:700]); print(' B:',q.decl(), q.num_args(), str(q)[:700]); return True
diff(z3.simplify(na[0]),z3.simplify(nb[0]))
