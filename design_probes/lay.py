from irsym0 import *
mod=Module('vmi_ni.ll')
def show(name,base=0,depth=0,maxd=3):
    t=resolve(NamedT(name,mod)); offs,size=t.layout()
    for i,(o,e) in enumerate(zip(offs,t.els)):
        er=e
        nm=e.name if isinstance(e,NamedT) else type(resolve(e)).__name__
        print('  '*depth+'[%d] off %d size %d %s'%(i,base+o,resolve(e).size(),nm))
        if isinstance(e,NamedT) and depth<maxd and isinstance(resolve(e),StructT) and not nm.startswith('class.std') and not nm.startswith('struct.std'): show(e.name,base+o,depth+1,maxd)
    print('  '*depth+'size',size)
show('class.randomx::InterpretedVm.8')
