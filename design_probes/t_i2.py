import time, z3, sys
from irsym0 import *
modB=Module('bm.ll')
opc=z3.BitVec('opc',8); dstb=z3.BitVec('dst',8); srcb=z3.BitVec('src',8); modb=z3.BitVec('mod',8); imm=z3.BitVec('imm',32)
R=[z3.BitVec('r%d'%i,64) for i in range(8)]
def run(fk):
    it2=Interp(modB); it2.fork=fk; it2.hooks['randomx_reciprocal']=lambda s,a: z3.Function('rcp',z3.BitVecSort(32),z3.BitVecSort(64))(bv(a[0],32))
    nreg=it2.mem.alloc(8*8+16*12,'nreg'); bm=it2.mem.alloc(40,'bm'); ibc=it2.mem.alloc(40,'ibc')
    for k in range(8): it2.mem.store(Ptr('nreg',8*k),R[k],8); it2.mem.store(Ptr('bm',4*k),z3.BitVec('ru%d'%k,32),4)
    it2.mem.store(Ptr('bm',32),nreg,8)
    ins=it2.mem.alloc(8,'ins')
    it2.mem.store(Ptr('ins',0),opc,1); it2.mem.store(Ptr('ins',1),dstb,1); it2.mem.store(Ptr('ins',2),srcb,1); it2.mem.store(Ptr('ins',3),modb,1); it2.mem.store(Ptr('ins',4),imm,4)
    it2.call('_ZN7randomx15BytecodeMachine18compileInstructionERNS_11InstructionEiRNS_19InstructionByteCodeE',[bm,ins,7,ibc])
    ty=it2.mem.load(Ptr('ibc',24),2)
    # opcode range of this path
    s=z3.Optimize(); s.add(*fk['pc']); lo=s.minimize(z3.ZeroExt(8,opc)); s.check(); lo=s.lower(lo)
    s=z3.Optimize(); s.add(*fk['pc']); hi=s.maximize(z3.ZeroExt(8,opc)); s.check(); hi=s.upper(hi)
    return (ty if is_c(ty) else str(z3.simplify(ty)), int(str(lo)), int(str(hi)), it2.steps)
t=time.time(); res,q=explore(run)
print('paths',len(res),'feasibility queries',q,'wall',round(time.time()-t,1),'s')
from collections import defaultdict
by=defaultdict(list)
for taken,pc,r in res: by[r[0]].append((r[1],r[2]))
for ty in sorted(by, key=lambda tt: min(x[0] for x in by[tt])): print(' type',ty,'opcodes',min(x[0] for x in by[ty]),'..',max(x[1] for x in by[ty]),'paths',len(by[ty]))
