import time, z3, sys
from irsym0 import *
mod=Module('rx_ni.ll')
def run(fk):
    it=Interp(mod); it.fork=fk
    trace=[]
    # hooks
    def memcmp(s,a):
        p,q,n=a; assert is_c(n)
        if n==0: return 0
        x=s.mem.load(p,n); y=s.mem.load(q,n)
        return z3.If(bv(x,8*n)==bv(y,8*n),z3.BitVecVal(0,32),z3.BitVecVal(1,32))
    it.hooks['memcmp']=memcmp; it.hooks['bcmp']=memcmp
    def assign(s,a):
        dstS,srcS=a; n=s.mem.load(Ptr(srcS.obj,srcS.off+8),8); assert is_c(n) and n<16
        s.mem.store(Ptr(dstS.obj,dstS.off+8),n,8)
        sp=s.mem.load(Ptr(srcS.obj,srcS.off),8); dp=s.mem.load(Ptr(dstS.obj,dstS.off),8)
        if n: s.mem.store(dp,s.mem.load(sp,n),n)
        return dstS
    it.hooks['_ZNSt7__cxx1112basic_stringIcSt11char_traitsIcESaIcEEaSERKS4_']=assign
    it.hooks['_ZNKSt7__cxx1112basic_stringIcSt11char_traitsIcESaIcEE4sizeEv']=lambda s,a: s.mem.load(Ptr(a[0].obj,a[0].off+8),8)
    it.hooks['_ZNKSt7__cxx1112basic_stringIcSt11char_traitsIcESaIcEE4dataEv']=lambda s,a: s.mem.load(Ptr(a[0].obj,a[0].off),8)
    def setCache(s,a):
        vm,c=a; trace.append('setCache'); s.mem.store(Ptr(vm.obj,VM_CACHEPTR),c,8); s.mem.store(Ptr(vm.obj,VM_MEM),s.mem.load(Ptr(c.obj,0),8),8); return None
    it.hooks['STUB_setCache']=setCache
    def fail(s,a): raise Exception('assert_fail')
    it.hooks['__assert_fail']=fail
    # layouts from the IR types
    tvm=resolve(NamedT('class.randomx_vm',mod)); tc=resolve(NamedT('struct.randomx_cache',mod))
    ovm=tvm.layout()[0]; oc=tc.layout()[0]
    global VM_CACHEPTR,VM_MEM
    VM_KEY=ovm[10]; VM_CACHEPTR=ovm[7]; VM_MEMREGS=ovm[5]; VM_MEM=VM_MEMREGS+8
    C_KEY=oc[7]; C_PROGS=oc[5]
    vm=it.mem.alloc(tvm.size(),'vm'); c2=it.mem.alloc(tc.size(),'c2'); c1=it.mem.alloc(tc.size(),'c1_dead')
    M=it.mem.alloc(64,'M'); M2=it.mem.alloc(64,'M_other')
    vt=it.mem.alloc(8*16,'vtable'); it.mem.store(Ptr('vtable',48),Ptr('@fn:STUB_setCache',0),8); it.mem.store(Ptr('vm',0),vt,8)
    def mkstr(obj,off,name,n=4):
        it.mem.store(Ptr(obj,off),Ptr(obj,off+16),8); it.mem.store(Ptr(obj,off+8),n,8); it.mem.store(Ptr(obj,off+16),z3.BitVec(name,8*n),n)
    mkstr('vm',VM_KEY,'vmkey'); mkstr('c2',C_KEY,'c2key')
    it.mem.store(Ptr('c2',0),M,8)                        # cache->memory
    it.mem.store(Ptr('c2',C_PROGS+512*8),1,4)              # programs[0].size != 0  (initialised)
    # arbitrary prior binding of the VM (allocator may have reused addresses): harness-level nondeterminism
    same_obj=it.decide(z3.BitVec('same_obj',1)); same_mem=it.decide(z3.BitVec('same_mem',1))
    it.mem.store(Ptr('vm',VM_CACHEPTR), c2 if same_obj else c1, 8)
    it.mem.store(Ptr('vm',VM_MEM), M if same_mem else M2, 8)
    it.call('randomx_vm_set_cache',[vm,c2])
    # post-condition = binding invariant
    cp=it.mem.load(Ptr('vm',VM_CACHEPTR),8); mp=it.mem.load(Ptr('vm',VM_MEM),8)
    keyeq = bv(it.mem.load(Ptr('vm',VM_KEY+16),4),32)==bv(it.mem.load(Ptr('c2',C_KEY+16),4),32)
    ok_ptr = cp.obj=='c2' and mp.obj=='M'
    s=z3.Solver(); s.add(*fk['pc']); s.add(z3.Not(keyeq)); key_ok=(s.check()==z3.unsat)
    return dict(same_obj=same_obj,same_mem=same_mem,called=trace,cachePtr=cp.obj,mem=mp.obj,post_ok=ok_ptr and key_ok)
t=time.time(); res,q=explore(run)
for taken,pc,r in res: print(r, '' if r['post_ok'] else '   <-- INVARIANT VIOLATED; model: '+str([str(p) for p in pc]))
print('paths',len(res),'wall',round(time.time()-t,2))
