#include <assert.h>
#include <string.h>
#include "../../../repo/src/blake2/blake2b.c"
#include "rfc.c"
void harness(void) {
  blake2b_state S; rfc_ctx c; uint8_t blk[128];
  // arbitrary state
  for (int i=0;i<8;i++) c.h[i]=S.h[i];
  c.t[0]=S.t[0]; c.t[1]=S.t[1];
  int last; 
  __CPROVER_assume(S.f[1]==0);
  __CPROVER_assume(S.f[0]==0 || S.f[0]==(uint64_t)-1);
  last = S.f[0]!=0;
  for (int i=0;i<128;i++) c.b[i]=blk[i];
  blake2b_compress(&S, blk);
  rfc_compress(&c, last);
  for (int i=0;i<8;i++) assert(c.h[i]==S.h[i]);
#ifdef WITNESS
  assert(0);
#endif
}
