#include <stdint.h>
#include <string.h>
#include "blake2/blake2.h"
/* compress as 8 uninterpreted functions of (h[8], block as 16 words, t0,t1,f0,f1) */
#define ARGS uint64_t,uint64_t,uint64_t,uint64_t,uint64_t,uint64_t,uint64_t,uint64_t, uint64_t,uint64_t,uint64_t,uint64_t,uint64_t,uint64_t,uint64_t,uint64_t,uint64_t,uint64_t,uint64_t,uint64_t,uint64_t,uint64_t,uint64_t,uint64_t, uint64_t,uint64_t,uint64_t,uint64_t
uint64_t __CPROVER_uninterpreted_F0(ARGS); uint64_t __CPROVER_uninterpreted_F1(ARGS); uint64_t __CPROVER_uninterpreted_F2(ARGS); uint64_t __CPROVER_uninterpreted_F3(ARGS);
uint64_t __CPROVER_uninterpreted_F4(ARGS); uint64_t __CPROVER_uninterpreted_F5(ARGS); uint64_t __CPROVER_uninterpreted_F6(ARGS); uint64_t __CPROVER_uninterpreted_F7(ARGS);
void uf_compress(blake2b_state *S, const uint8_t *block) {
  uint64_t m[16]; for (int i=0;i<16;i++){ uint64_t w=0; for(int k=0;k<8;k++) w|=(uint64_t)block[8*i+k]<<(8*k); m[i]=w; }
  uint64_t *h=S->h; uint64_t n[8];
#define CALL(F) F(h[0],h[1],h[2],h[3],h[4],h[5],h[6],h[7],m[0],m[1],m[2],m[3],m[4],m[5],m[6],m[7],m[8],m[9],m[10],m[11],m[12],m[13],m[14],m[15],S->t[0],S->t[1],S->f[0],S->f[1])
  n[0]=CALL(__CPROVER_uninterpreted_F0); n[1]=CALL(__CPROVER_uninterpreted_F1); n[2]=CALL(__CPROVER_uninterpreted_F2); n[3]=CALL(__CPROVER_uninterpreted_F3);
  n[4]=CALL(__CPROVER_uninterpreted_F4); n[5]=CALL(__CPROVER_uninterpreted_F5); n[6]=CALL(__CPROVER_uninterpreted_F6); n[7]=CALL(__CPROVER_uninterpreted_F7);
  for (int i=0;i<8;i++) h[i]=n[i];
}
