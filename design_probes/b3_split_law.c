#include <assert.h>
#include <string.h>
#include "blake2/blake2.h"
size_t nondet_size_t(void);
void harness(void){
  blake2b_state A; uint8_t in[MAXN];
  __CPROVER_assume(A.buflen<=128 && A.f[0]==0 && A.f[1]==0);
  blake2b_state B=A;
  size_t n=nondet_size_t(), k=nondet_size_t(); __CPROVER_assume(n<=MAXN && k<=n);
  int r1=blake2b_update(&A,in,n);
  blake2b_update(&B,in,k); blake2b_update(&B,in+k,n-k);
  assert(A.buflen==B.buflen);
  assert(A.t[0]==B.t[0] && A.t[1]==B.t[1]);
  for (int i=0;i<8;i++){ assert(A.h[i]==B.h[i]); }
}
