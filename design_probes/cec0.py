# throw-away prototype: cut-point equivalence of two z3 bit-vector term DAGs
import z3, random, time

def topo(roots):
    order=[]; seen=set(); stack=[(r,False) for r in roots]
    while stack:
        n,done=stack.pop()
        i=n.get_id()
        if done: order.append(n); continue
        if i in seen: continue
        seen.add(i); stack.append((n,True))
        for c in n.children():
            if c.get_id() not in seen: stack.append((c,False))
    return order

K=z3
def evaluate(order, assign):
    """concrete evaluation of every node; returns dict id->int"""
    val={}
    for n in order:
        k=n.decl().kind(); ch=[val[c.get_id()] for c in n.children()]
        if z3.is_bv_value(n): v=n.as_long()
        elif k==z3.Z3_OP_UNINTERPRETED and n.num_args()==0: v=assign[n.get_id()]
        else:
            w=n.size() if z3.is_bv(n) else 1; m=(1<<w)-1
            if k==z3.Z3_OP_BADD: v=sum(ch)&m
            elif k==z3.Z3_OP_BMUL:
                v=1
                for c in ch: v=(v*c)&m
            elif k==z3.Z3_OP_BSUB: v=(ch[0]-ch[1])&m
            elif k==z3.Z3_OP_BXOR:
                v=0
                for c in ch: v^=c
            elif k==z3.Z3_OP_BOR:
                v=0
                for c in ch: v|=c
            elif k==z3.Z3_OP_BAND:
                v=m
                for c in ch: v&=c
            elif k==z3.Z3_OP_BNOT: v=(~ch[0])&m
            elif k==z3.Z3_OP_CONCAT:
                v=0
                for c,cn in zip(ch,n.children()): v=(v<<cn.size())|c
            elif k==z3.Z3_OP_EXTRACT:
                hi,lo=n.params(); v=(ch[0]>>lo)&((1<<(hi-lo+1))-1)
            elif k==z3.Z3_OP_ZERO_EXT: v=ch[0]
            elif k==z3.Z3_OP_BSHL: v=(ch[0]<<ch[1])&m if ch[1]<w else 0
            elif k==z3.Z3_OP_BLSHR: v=(ch[0]>>ch[1]) if ch[1]<w else 0
            elif k in (z3.Z3_OP_ROTATE_LEFT,z3.Z3_OP_ROTATE_RIGHT):
                r=n.params()[0]%w
                if k==z3.Z3_OP_ROTATE_RIGHT: r=(w-r)%w
                v=((ch[0]<<r)|(ch[0]>>(w-r)))&m if r else ch[0]
            else: raise Exception('eval kind %s %s'%(k,n.decl()))
        val[n.get_id()]=v
    return val

def cec(A,B,nsig=4,seed=1,per_query_ms=20000,depth=3,log=None):
    """prove A[i]==B[i] for all i. returns (ok, stats)"""
    rnd=random.Random(seed)
    order=topo(list(A)+list(B))
    leaves=[n for n in order if n.decl().kind()==z3.Z3_OP_UNINTERPRETED and n.num_args()==0]
    sigs=[]
    for _ in range(nsig):
        asg={l.get_id():rnd.getrandbits(l.size()) for l in leaves}
        sigs.append(evaluate(order,asg))
    sig=lambda n: (n.size(),)+tuple(s[n.get_id()] for s in sigs)
    canon={}      # node id -> canonical term
    rep={}        # signature -> canonical representative term
    fresh={}      # canonical term id -> fresh var (for abstraction)
    stats={'nodes':len(order),'free_merges':0,'solver_merges':0,'queries':0,'unknown':0,'solver_s':0.0}
    keep=[]
    def abstract(t,d,cache):
        i=t.get_id()
        if i in cache: return cache[i]
        if t.num_args()==0: r=t
        elif d==0:
            if i not in fresh: fresh[i]=z3.BitVec('cut%d'%i,t.size()); keep.append(t)
            r=fresh[i]
        else:
            r=t.decl()(*[abstract(c,d-1,cache) for c in t.children()])
        cache[i]=r; return r
    for n in order:
        if not z3.is_bv(n): raise Exception('non-bv node')
        if n.num_args()==0: c=n
        else:
            ch=[canon[x.get_id()] for x in n.children()]
            c=n.decl()(*ch) if any(not a.eq(b) for a,b in zip(ch,n.children())) else n
        if z3.is_bv_value(c): canon[n.get_id()]=c; continue
        s=sig(n); r=rep.get(s)
        if r is None: rep[s]=c; canon[n.get_id()]=c; keep.append(c); continue
        if r.eq(c): canon[n.get_id()]=r; stats['free_merges']+=1; continue
        # candidate: prove c == r with cut abstraction, increasing depth
        proved=False
        for d in (depth,depth+3,None):
            if d is None: f=(c!=r)
            else:
                cache={}; f=(abstract(c,d,cache)!=abstract(r,d,cache))
            sol=z3.SolverFor('QF_BV'); sol.set('timeout',per_query_ms); sol.add(f)
            t=time.time(); res=sol.check(); stats['solver_s']+=time.time()-t; stats['queries']+=1
            if res==z3.unsat: proved=True; break
            if res==z3.unknown: stats['unknown']+=1
            if d is None: break
        if proved: canon[n.get_id()]=r; stats['solver_merges']+=1
        else: canon[n.get_id()]=c; keep.append(c)   # not merged (different function or unknown)
    ok=all(canon[a.get_id()].eq(canon[b.get_id()]) for a,b in zip(A,B))
    return ok,stats
