import time, z3, sys
from irsym0 import *
mod=Module('ss_ni.ll'); it=Interp(mod)
# hooks: generator and allocator
cnt=[0]
def getu32(s,args): cnt[0]+=1; return z3.BitVec('g32_%d'%cnt[0],32)
def getbyte(s,args): cnt[0]+=1; return z3.BitVec('g8_%d'%cnt[0],8)
def znwm(s,args): assert is_c(args[0]); return s.mem.alloc(args[0])
def zdl(s,args): return None
it.hooks['_ZN7randomx15Blake2Generator9getUInt32Ev']=getu32
it.hooks['_ZN7randomx15Blake2Generator7getByteEv']=getbyte
it.hooks['_Znwm']=znwm; it.hooks['_ZdlPv']=zdl
# SuperscalarInstructionInfo object for IADD_RS-like: { name*, type i32, vector ops(24), latency, resultOp, dstOp, srcOp }  (type IADD_RS = 2)
TYPE=int(sys.argv[1])
info=it.mem.alloc(56,'info'); it.mem.store(Ptr('info',8),TYPE,4)
# SuperscalarInstruction: { info*, src_, dst_, mod_, imm32_, opGroup_, opGroupPar_, canReuse_, groupParIsSource_ }
si=it.mem.alloc(40,'si'); it.mem.store(Ptr('si',0),info,8)
SRC=int(sys.argv[2])
it.mem.store(Ptr('si',8),SRC,4); it.mem.store(Ptr('si',12),0xffffffff,4); it.mem.store(Ptr('si',16),0,4); it.mem.store(Ptr('si',20),0,4)
it.mem.store(Ptr('si',24),TYPE,4); it.mem.store(Ptr('si',28),SRC,4); it.mem.store(Ptr('si',32),0,1); it.mem.store(Ptr('si',33),1,1)
# registers[8]: {latency, lastOpGroup, lastOpPar, value}; concrete readiness pattern from argv (bitmask), group info symbolic-free here
regs=it.mem.alloc(128,'regs'); ready=int(sys.argv[3],2)
for i in range(8):
    it.mem.store(Ptr('regs',16*i),0 if (ready>>i)&1 else 100,4); it.mem.store(Ptr('regs',16*i+4),15,4); it.mem.store(Ptr('regs',16*i+8),0xffffffff,4); it.mem.store(Ptr('regs',16*i+12),0,4)
gen=it.mem.alloc(80,'gen')
t=time.time()
r=it.call('_ZN7randomx22SuperscalarInstruction17selectDestinationEibRA8_NS_12RegisterInfoERNS_15Blake2GeneratorE',[si,5,0,regs,gen])
dst=it.mem.load(Ptr('si',12),4)
print('ret',r,'steps',it.steps,'time',round(time.time()-t,2)); print('dst =',z3.simplify(dst) if not is_c(dst) else dst)
if not is_c(dst):
    s=z3.Solver(); s.add(z3.Or(dst==SRC, dst==5 if TYPE==2 else False, z3.UGT(dst,7)))
    print('rule (dst!=src, dst!=5 for IADD_RS, dst<8):','PROVED' if s.check()==z3.unsat else ('CEX',s.model()))
