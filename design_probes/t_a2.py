import time, z3, sys
from irsym0 import *
def run(ll, vec):
    mod=Module(ll); it=Interp(mod)
    prev=it.mem.alloc(1024,'prev'); ref=it.mem.alloc(1024,'ref'); nxt=it.mem.alloc(1024,'nxt')
    P=[z3.BitVec('p%d'%i,64) for i in range(128)]; R=[z3.BitVec('r%d'%i,64) for i in range(128)]; N=[z3.BitVec('n%d'%i,64) for i in range(128)]
    for i in range(128):
        it.mem.store(Ptr('prev',8*i),P[i],8); it.mem.store(Ptr('ref',8*i),R[i],8); it.mem.store(Ptr('nxt',8*i),N[i],8)
    t=time.time()
    it.call('fill_block',[prev,ref,nxt,WITH_XOR])
    out=[it.mem.load(Ptr('nxt',8*i),8) for i in range(128)]
    print(ll,'interp',round(time.time()-t,2),'steps',it.steps, flush=True)
    return out
WITH_XOR=int(sys.argv[1])
a=run('argon2_ref.ll',False)
b=run('argon2_ssse3.ll',True)
c=run('argon2_avx2.ll',True)
for name,x,y in (('ref-ssse3',a,b),('ref-avx2',a,c)):
    t=time.time()
    g=z3.simplify(z3.Or([p!=q for p,q in zip(x,y)]))
    print(name,'simplify ->', g if z3.is_false(g) else 'residual', round(time.time()-t,2), flush=True)
    if not z3.is_false(g):
        # how many words differ syntactically
        nd=sum(1 for p,q in zip(x,y) if not z3.is_false(z3.simplify(p!=q)))
        print(' words not syntactically equal:',nd)
        s=z3.SolverFor('QF_BV'); s.set('timeout',120000); s.add(x[0]!=y[0]); tt=time.time(); print(' solver word0:',s.check(),round(time.time()-tt,1))
import random
random.seed(1)
sub=[(z3.BitVec('%s%d'%(n,i),64), z3.BitVecVal(random.getrandbits(64),64)) for n in 'prn' for i in range(128)]
for nm,v in (('ref',a),('ssse3',b),('avx2',c)):
    print(nm,[hex(z3.simplify(z3.substitute(v[i],*sub)).as_long()) for i in (0,1,127)])
