namespace randomx { class JitCompilerA64; }
