/* concrete IEEE double operations under a given MXCSR (host hardware), for the concrete mode of x86sem/irsym used in model validation */
#include <stdint.h>
#include <string.h>
#include <xmmintrin.h>
#include <emmintrin.h>
uint64_t fp_op(int op, uint32_t mxcsr, uint64_t a, uint64_t b) {
  unsigned old = _mm_getcsr(); __m128d x, y, r; double da, db; memcpy(&da, &a, 8); memcpy(&db, &b, 8);
  x = _mm_set_sd(da); y = _mm_set_sd(db); _mm_setcsr(mxcsr & ~0x3fu);
  switch (op) { case 0: r = _mm_add_sd(x, y); break; case 1: r = _mm_sub_sd(x, y); break; case 2: r = _mm_mul_sd(x, y); break; case 3: r = _mm_div_sd(x, y); break; default: r = _mm_sqrt_sd(x, x); }
  _mm_setcsr(old); double d = _mm_cvtsd_f64(r); uint64_t out; memcpy(&out, &d, 8); return out;
}
