# AArch64 (A64) subset semantics over the same value domain as irsym / x86sem: ints, z3 bit-vector terms, Ptr(obj, off).
# Only the instruction forms the RandomX ARM64 back-end emits or contains in jit_compiler_a64_static.S are modelled; anything else raises
# Undecodable (an engine limitation -> INCONCLUSIVE, never a violation).  Semantics transcribed from the Arm ARM (DDI 0487) pseudocode.
# The decoder (field extraction, aliases) is cross-checked against llvm-objdump by lemma N0; the semantics cannot be validated on this host.
import z3
from engine.irsym import Ptr, is_c, bv, fpop, i2d
from engine.x86sem import Undecodable, Fault, mk, simp, zx, sx, trunc, arith, b1

M64 = (1 << 64) - 1

def ror(v, n, w):
    n %= w
    if is_c(v): return ((v >> n) | (v << (w - n))) & ((1 << w) - 1) if n else v
    return z3.RotateRight(v, n)

def decode_bit_masks(N, imms, immr, w, immediate=True):
    """DecodeBitMasks of the Arm ARM: returns (wmask, tmask)"""
    x = (N << 6) | ((~imms) & 0x3f); ln = x.bit_length() - 1
    if ln < 1: raise Undecodable('reserved bitmask immediate')
    esize = 1 << ln; levels = esize - 1
    if esize > w: raise Undecodable('bitmask element larger than the register')
    S = imms & levels; R = immr & levels
    if immediate and S == levels: raise Undecodable('reserved bitmask immediate (all ones)')
    d = (S - R) & levels
    welem = (1 << (S + 1)) - 1; telem = (1 << (d + 1)) - 1
    welem = ((welem >> R) | (welem << (esize - R))) & ((1 << esize) - 1) if R else welem
    wm = tm = 0
    for k in range(w // esize): wm |= welem << (k * esize); tm |= telem << (k * esize)
    return wm & ((1 << w) - 1), tm & ((1 << w) - 1)

class Machine:
    """x[0..30], sp, v[0..31] as [lo64, hi64], NZCV, FPCR, pc = byte offset into the code object"""
    def __init__(s, mem, code_obj, it=None):
        s.mem = mem; s.code = code_obj; s.it = it
        s.x = [None] * 31; s.sp = None; s.v = [[None, None] for _ in range(32)]
        s.fl = dict(N=None, Z=None, C=None, V=None); s.fpcr = None; s.pc = 0
        s.accesses = []; s.written_x = set(); s.written_v = set(); s.obligations = []; s.trace = []; s.disasm = []; s.decode_only = False; s._n = 0
    # ---- code words
    def word(s, off):
        return s.mem.load(Ptr(s.code, off), 4)
    def field(s, w, hi, lo, what='field', concrete=True):
        if is_c(w): return (w >> lo) & ((1 << (hi - lo + 1)) - 1)
        t = z3.simplify(z3.Extract(hi, lo, w))
        if z3.is_bv_value(t): return t.as_long()
        if not concrete: return t
        return s.concretize(t, what)
    def concretize(s, t, what):
        if s.it is None: raise Undecodable('symbolic %s' % what)
        for _ in range(70):
            from engine.irsym import min_feasible
            val = min_feasible(s.it.fork['pc'], t)
            if val is None: raise Fault('infeasible path while concretising %s' % what)
            if s.it.decide(z3.If(t == val, z3.BitVecVal(1, 1), z3.BitVecVal(0, 1))): return val
        raise Undecodable('too many values for %s' % what)
    def matches(s, w, mask, value):
        if is_c(w): return (w & mask) == value
        t = z3.simplify(w & mask)
        if z3.is_bv_value(t): return t.as_long() == value
        # structural bits depend on symbols: decide by forking on the masked value
        return s.concretize(w & mask, 'opcode bits') == value
    # ---- registers
    def rx(s, r, w=64, spreg=False):
        if r == 31:
            if spreg:
                if s.sp is None: raise Fault('read of uninitialised sp')
                return s.sp
            return 0
        v = s.x[r]
        if v is None and s.decode_only: s._n += 1; v = z3.BitVec('dc%d' % s._n, 64)
        if v is None: raise Fault('read of uninitialised register x%d' % r)
        if w == 64: return v
        if isinstance(v, Ptr): raise Fault('32-bit read of a pointer in x%d' % r)
        return trunc(v, 32)
    def wx(s, r, v, w=64, spreg=False):
        if w == 32 and not isinstance(v, Ptr): v = zx(trunc(v, 32), 32, 64)
        if r == 31:
            if spreg:
                s.sp = v
                if isinstance(v, Ptr) and is_c(v.off): s.min_sp = v.off if getattr(s, 'min_sp', None) is None else min(s.min_sp, v.off)
            return
        s.written_x.add(r); s.x[r] = v if isinstance(v, Ptr) else mk(v, 64)
    def padd(s, a, b):
        if isinstance(a, Ptr) and isinstance(b, Ptr): raise Fault('pointer + pointer')
        if isinstance(b, Ptr): a, b = b, a
        if isinstance(a, Ptr):
            if is_c(a.off) and is_c(b):
                b = b - (1 << 64) if b >> 63 else b
                return Ptr(a.obj, a.off + b)
            return Ptr(a.obj, simp(bv(a.off, 64) + bv(b, 64)))
        return arith('add', a, b, 64)
    # ---- memory
    def load(s, ea, n):
        if s.decode_only: s._n += 1; return z3.BitVec('dc%d' % s._n, 8 * n)
        if not isinstance(ea, Ptr): raise Fault('load through non-pointer address %s' % str(ea)[:80])
        s.accesses.append(('load', ea.obj, ea.off, n)); return s.mem.load(ea, n)
    def store(s, ea, v, n):
        if s.decode_only: return
        if not isinstance(ea, Ptr): raise Fault('store through non-pointer address %s' % str(ea)[:80])
        s.accesses.append(('store', ea.obj, ea.off, n)); s.mem.store(ea, v, n)
    def rm(s):
        """RandomX rounding-mode number of the current FPCR.RMode (Arm: 00 RN, 01 RP, 10 RM, 11 RZ; RandomX: 0 nearest, 1 down, 2 up, 3 zero)"""
        f = s.fpcr
        if f is None: raise Fault('FP operation with unknown FPCR')
        if is_c(f): return (((f >> 22) & 1) << 1) | ((f >> 23) & 1)
        return z3.Concat(z3.Extract(22, 22, f), z3.Extract(23, 23, f))
    def cond(s, c):
        base = c >> 1
        def need(*ks):
            vs = [s.fl[k] for k in ks]
            if any(v is None for v in vs): raise Fault('conditional on undefined flag')
            return vs
        if base == 0: (z,) = need('Z'); r = z
        elif base == 1: (cf,) = need('C'); r = cf
        elif base == 2: (n,) = need('N'); r = n
        elif base == 3: (v,) = need('V'); r = v
        else: raise Undecodable('condition %d' % c)
        if c & 1: r = (r ^ 1) if is_c(r) else (r ^ 1)
        return r
    def decide(s, c):
        if is_c(c): return c
        if s.it is None: raise Fault('symbolic branch without a forking context')
        return s.it.decide(c)
    def set_nz(s, res, w):
        if is_c(res): s.fl['Z'] = int(res == 0); s.fl['N'] = (res >> (w - 1)) & 1
        else: s.fl['Z'] = b1(res == 0); s.fl['N'] = z3.Extract(w - 1, w - 1, res)
    # ---- one instruction
    def step(s):
        w = s.word(s.pc); pc0 = s.pc; s.pc += 4; F = lambda hi, lo, what='register/structural field': s.field(w, hi, lo, what)
        def dis(txt): s.disasm.append((pc0, txt))
        m = lambda mask, val: s.matches(w, mask, val)
        # ---------------- data processing: add/sub shifted register
        if m(0x1F200000, 0x0B000000):
            sf = F(31, 31); op = F(30, 30); S = F(29, 29); sh = F(23, 22); rm_ = F(20, 16); imm6 = F(15, 10); rn = F(9, 5); rd = F(4, 0); W = 64 if sf else 32
            if sh == 3: raise Undecodable('add/sub shift type 3')
            b = s.shifted(s.rx(rm_, W), sh, imm6, W); a = s.rx(rn, W)
            res = s.addsub(a, b, op, S, W); s.wx(rd, res, W) if not (S and rd == 31) else None
            if not S or rd != 31: pass
            if S and rd == 31: dis('%s %s, %s%s' % ('cmp' if op else 'cmn', s.rn_(rn, W), s.rn_(rm_, W), s.shs(sh, imm6)))
            elif op and rn == 31: dis('neg%s %s, %s%s' % ('s' if S else '', s.rn_(rd, W), s.rn_(rm_, W), s.shs(sh, imm6)))
            else: dis('%s%s %s, %s, %s%s' % ('sub' if op else 'add', 's' if S else '', s.rn_(rd, W), s.rn_(rn, W), s.rn_(rm_, W), s.shs(sh, imm6)))
            return None
        # add/sub immediate
        if m(0x1F800000, 0x11000000):
            sf = F(31, 31); op = F(30, 30); S = F(29, 29); sh = F(22, 22); imm12 = s.field(w, 21, 10, 'imm12', concrete=False); rn = F(9, 5); rd = F(4, 0); W = 64 if sf else 32
            imm = (imm12 << 12 if is_c(imm12) else z3.ZeroExt(W - 12, imm12) << 12) if sh else (imm12 if is_c(imm12) else z3.ZeroExt(W - 12, imm12))
            a = s.rx(rn, W, spreg=True)
            res = s.addsub(a, imm, op, S, W)
            if S: s.wx(rd, res, W)
            else: s.wx(rd, res, W, spreg=True)
            if not op and not S and not sh and is_c(imm12) and imm12 == 0 and (rd == 31 or rn == 31): dis('mov %s, %s' % (s.rn_(rd, W, True), s.rn_(rn, W, True)))
            elif S and rd == 31: dis('%s %s, #%s%s' % ('cmp' if op else 'cmn', s.rn_(rn, W, True), imm12 if is_c(imm12) else '?', ', lsl #12' if sh else ''))
            else: dis('%s%s %s, %s, #%s%s' % ('sub' if op else 'add', 's' if S else '', s.rn_(rd, W, not S), s.rn_(rn, W, True), imm12 if is_c(imm12) else '?', ', lsl #12' if sh else ''))
            return None
        # logical shifted register
        if m(0x1F000000, 0x0A000000):
            sf = F(31, 31); opc = F(30, 29); sh = F(23, 22); N = F(21, 21); rm_ = F(20, 16); imm6 = F(15, 10); rn = F(9, 5); rd = F(4, 0); W = 64 if sf else 32
            b = s.shifted(s.rx(rm_, W), sh, imm6, W, rotate_ok=True); a = s.rx(rn, W)
            if isinstance(a, Ptr) or isinstance(b, Ptr):
                if opc == 1 and rn == 31 and imm6 == 0 and not N: s.wx(rd, b, W); dis('mov %s, %s' % (s.rn_(rd, W), s.rn_(rm_, W))); return None
                raise Fault('logical operation on a pointer')
            if N: b = (~b) & ((1 << W) - 1) if is_c(b) else ~b
            res = arith({0: 'and', 1: 'or', 2: 'xor', 3: 'and'}[opc], a, b, W)
            if opc == 3: s.set_nz(res, W); s.fl['C'] = 0; s.fl['V'] = 0
            s.wx(rd, res, W)
            if opc == 1 and rn == 31 and not N and imm6 == 0: dis('mov %s, %s' % (s.rn_(rd, W), s.rn_(rm_, W)))
            elif opc == 3 and rd == 31 and not N: dis('tst %s, %s%s' % (s.rn_(rn, W), s.rn_(rm_, W), s.shs(sh, imm6)))
            else: dis('%s %s, %s, %s%s' % ({0: 'and', 1: 'orr', 2: 'eor', 3: 'ands'}[opc] if not N else {0: 'bic', 1: 'orn', 2: 'eon', 3: 'bics'}[opc], s.rn_(rd, W), s.rn_(rn, W), s.rn_(rm_, W), s.shs(sh, imm6)))
            return None
        # logical immediate
        if m(0x1F800000, 0x12000000):
            sf = F(31, 31); opc = F(30, 29); N = F(22, 22); immr = F(21, 16); imms = F(15, 10); rn = F(9, 5); rd = F(4, 0); W = 64 if sf else 32
            if not sf and N: raise Undecodable('32-bit logical immediate with N=1')
            imm = decode_bit_masks(N, imms, immr, W)[0]; a = s.rx(rn, W)
            if isinstance(a, Ptr): raise Fault('logical immediate on a pointer')
            res = arith({0: 'and', 1: 'or', 2: 'xor', 3: 'and'}[opc], a, imm, W)
            if opc == 3: s.set_nz(res, W); s.fl['C'] = 0; s.fl['V'] = 0; s.wx(rd, res, W)
            else: s.wx(rd, res, W, spreg=True)
            if opc == 1 and rn == 31: dis('mov %s, #%#x' % (s.rn_(rd, W, True), imm))
            elif opc == 3 and rd == 31: dis('tst %s, #%#x' % (s.rn_(rn, W), imm))
            else: dis('%s %s, %s, #%#x' % ({0: 'and', 1: 'orr', 2: 'eor', 3: 'ands'}[opc], s.rn_(rd, W, opc != 3), s.rn_(rn, W), imm))
            return None
        # move wide
        if m(0x1F800000, 0x12800000):
            sf = F(31, 31); opc = F(30, 29); hw = F(22, 21); imm16 = s.field(w, 20, 5, 'imm16', concrete=False); rd = F(4, 0); W = 64 if sf else 32
            if opc == 1 or (not sf and hw > 1): raise Undecodable('move wide opc/hw')
            sh = 16 * hw; iv = (imm16 << sh) if is_c(imm16) else (z3.ZeroExt(W - 16, imm16) << sh)
            if opc == 2: res = iv
            elif opc == 0: res = (~iv) & ((1 << W) - 1) if is_c(iv) else ~iv
            else:
                old = s.rx(rd, W)
                if isinstance(old, Ptr): raise Fault('movk on a pointer')
                keep = ((1 << W) - 1) ^ (0xffff << sh)
                res = ((old & keep) | iv) if is_c(old) and is_c(iv) else ((bv(old, W) & keep) | bv(iv, W))
            s.wx(rd, res, W)
            if opc in (0, 2) and is_c(res) and (is_c(imm16) and (imm16 != 0 or hw == 0)): dis('mov %s, #%#x' % (s.rn_(rd, W), res))
            else: dis('%s %s, #%s%s' % ({0: 'movn', 2: 'movz', 3: 'movk'}[opc], s.rn_(rd, W), imm16 if is_c(imm16) else '?', (', lsl #%d' % sh) if sh else ''))
            return None
        # bitfield
        if m(0x1F800000, 0x13000000):
            sf = F(31, 31); opc = F(30, 29); N = F(22, 22); immr = F(21, 16); imms = F(15, 10); rn = F(9, 5); rd = F(4, 0); W = 64 if sf else 32
            if N != sf or opc == 3: raise Undecodable('bitfield N/opc')
            src = s.rx(rn, W); dst = s.rx(rd, W) if opc == 1 else 0
            if isinstance(src, Ptr) or isinstance(dst, Ptr): raise Fault('bitfield on a pointer')
            wmask, tmask = decode_bit_masks(N, imms, immr, W, immediate=False)
            S_ = bv(src, W); D_ = bv(dst, W)
            bot = (D_ & ~z3.BitVecVal(wmask, W)) | (z3.RotateRight(S_, immr) & wmask)
            if opc == 0: top = z3.If(z3.Extract(imms, imms, S_) == 1, z3.BitVecVal((1 << W) - 1, W), z3.BitVecVal(0, W))
            elif opc == 1: top = D_
            else: top = z3.BitVecVal(0, W)
            res = simp((top & ~z3.BitVecVal(tmask, W)) | (bot & tmask))
            s.wx(rd, res, W)
            if opc == 2 and imms == W - 1: dis('lsr %s, %s, #%d' % (s.rn_(rd, W), s.rn_(rn, W), immr))
            elif opc == 2 and imms + 1 == immr: dis('lsl %s, %s, #%d' % (s.rn_(rd, W), s.rn_(rn, W), W - 1 - imms))
            elif opc == 0 and imms == W - 1: dis('asr %s, %s, #%d' % (s.rn_(rd, W), s.rn_(rn, W), immr))
            elif opc == 1 and imms < immr: dis('bfi %s, %s, #%d, #%d' % (s.rn_(rd, W), s.rn_(rn, W), W - immr, imms + 1))
            elif opc == 2 and imms >= immr: dis('ubfx %s, %s, #%d, #%d' % (s.rn_(rd, W), s.rn_(rn, W), immr, imms - immr + 1))
            else: dis('%s %s, %s, #%d, #%d' % ({0: 'sbfm', 1: 'bfm', 2: 'ubfm'}[opc], s.rn_(rd, W), s.rn_(rn, W), immr, imms))
            return None
        # extract
        if m(0x7FA00000, 0x13800000):
            sf = F(31, 31); N = F(22, 22); rm_ = F(20, 16); imms = s.field(w, 15, 10, 'extr lsb', concrete=False); rn = F(9, 5); rd = F(4, 0); W = 64 if sf else 32
            if N != sf: raise Undecodable('extr N')
            hi = s.rx(rn, W); lo = s.rx(rm_, W)
            if isinstance(hi, Ptr) or isinstance(lo, Ptr): raise Fault('extr on a pointer')
            cat = z3.Concat(bv(hi, W), bv(lo, W)); sh = imms if is_c(imms) else z3.ZeroExt(2 * W - 6, imms)
            res = simp(z3.Extract(W - 1, 0, z3.LShR(cat, bv(sh, 2 * W))))
            s.wx(rd, res, W)
            if rn == rm_: dis('ror %s, %s, #%s' % (s.rn_(rd, W), s.rn_(rn, W), imms if is_c(imms) else '?'))
            else: dis('extr %s, %s, %s, #%s' % (s.rn_(rd, W), s.rn_(rn, W), s.rn_(rm_, W), imms if is_c(imms) else '?'))
            return None
        # data processing 3 source (madd/msub/umulh/smulh)
        if m(0x7F000000, 0x1B000000):
            sf = F(31, 31); op31 = F(23, 21); rm_ = F(20, 16); o0 = F(15, 15); ra = F(14, 10); rn = F(9, 5); rd = F(4, 0)
            if not sf: raise Undecodable('32-bit multiply')
            a = s.rx(rn); b = s.rx(rm_)
            if isinstance(a, Ptr) or isinstance(b, Ptr): raise Fault('multiply of a pointer')
            A = bv(a, 64); B = bv(b, 64)
            if op31 == 0:
                c = s.rx(ra)
                if isinstance(c, Ptr): raise Fault('madd with pointer addend')
                res = simp(bv(c, 64) - A * B if o0 else bv(c, 64) + A * B); name = ('msub' if o0 else 'madd')
                txt = ('%s %s, %s, %s' % ('mneg' if o0 else 'mul', s.rn_(rd), s.rn_(rn), s.rn_(rm_))) if ra == 31 else '%s %s, %s, %s, %s' % (name, s.rn_(rd), s.rn_(rn), s.rn_(rm_), s.rn_(ra))
            elif op31 == 6 and o0 == 0: res = simp(z3.Extract(127, 64, z3.ZeroExt(64, A) * z3.ZeroExt(64, B))); txt = 'umulh %s, %s, %s' % (s.rn_(rd), s.rn_(rn), s.rn_(rm_))
            elif op31 == 2 and o0 == 0: res = simp(z3.Extract(127, 64, z3.SignExt(64, A) * z3.SignExt(64, B))); txt = 'smulh %s, %s, %s' % (s.rn_(rd), s.rn_(rn), s.rn_(rm_))
            else: raise Undecodable('data-processing (3 source) op31=%d' % op31)
            s.wx(rd, res); dis(txt); return None
        # data processing 2 source: variable shifts
        if m(0x7FE0F000, 0x1AC02000):
            sf = F(31, 31); rm_ = F(20, 16); op2 = F(11, 10); rn = F(9, 5); rd = F(4, 0); W = 64 if sf else 32
            a = s.rx(rn, W); b = s.rx(rm_, W)
            if isinstance(a, Ptr) or isinstance(b, Ptr): raise Fault('variable shift of a pointer')
            A = bv(a, W); C = bv(b, W) & (W - 1)
            res = simp({0: A << C, 1: z3.LShR(A, C), 2: A >> C, 3: z3.RotateRight(A, C)}[op2])
            s.wx(rd, res, W); dis('%s %s, %s, %s' % ({0: 'lsl', 1: 'lsr', 2: 'asr', 3: 'ror'}[op2], s.rn_(rd, W), s.rn_(rn, W), s.rn_(rm_, W))); return None
        # data processing 1 source: rbit
        if m(0x7FFFFC00, 0x5AC00000):
            sf = F(31, 31); rn = F(9, 5); rd = F(4, 0); W = 64 if sf else 32; a = s.rx(rn, W)
            if isinstance(a, Ptr): raise Fault('rbit of a pointer')
            A = bv(a, W); res = simp(z3.Concat(*[z3.Extract(k, k, A) for k in range(W)]))
            s.wx(rd, res, W); dis('rbit %s, %s' % (s.rn_(rd, W), s.rn_(rn, W))); return None
        # ---------------- loads / stores
        # register offset, 64-bit (ldr/str x)
        if m(0xFFA00C00, 0xF8200800):
            L = F(22, 22); rm_ = F(20, 16); opt = F(15, 13); S = F(12, 12); rn = F(9, 5); rt = F(4, 0)
            if opt not in (3, 2, 6, 7): raise Undecodable('register-offset option %d' % opt)
            off = s.rx(rm_, 64 if opt & 1 else 32)
            if isinstance(off, Ptr): raise Fault('pointer used as index')
            if opt == 2: off = zx(off, 32, 64)
            elif opt == 6: off = sx(off, 32, 64)
            if S: off = arith('shl', off, 3, 64) if False else (((off << 3) & M64) if is_c(off) else (bv(off, 64) << 3))
            ea = s.padd(s.rx(rn, spreg=True), off)
            if L: s.wx(rt, s.load(ea, 8))
            else:
                v = s.rx(rt); s.store(ea, v, 8)
            dis('%s x%d, [%s, %s%s]' % ('ldr' if L else 'str', rt, s.rn_(rn, 64, True), s.rn_(rm_, 64 if opt & 1 else 32), {3: ', lsl #3' if S else '', 2: ', uxtw' + (' #3' if S else ''), 6: ', sxtw' + (' #3' if S else ''), 7: ', sxtx' + (' #3' if S else '')}[opt])); return None
        # unsigned offset ldr/str x
        if m(0xFF800000, 0xF9000000):
            L = F(22, 22); imm12 = F(21, 10); rn = F(9, 5); rt = F(4, 0); ea = s.padd(s.rx(rn, spreg=True), imm12 * 8)
            if L: s.wx(rt, s.load(ea, 8))
            else: s.store(ea, s.rx(rt), 8)
            dis('%s x%d, [%s%s]' % ('ldr' if L else 'str', rt, s.rn_(rn, 64, True), (', #%d' % (imm12 * 8)) if imm12 else '')); return None
        # pre/post-index str/ldr x (imm9)
        if m(0xFFA00400, 0xF8000400):
            L = F(22, 22); imm9 = F(20, 12); pre = F(11, 11); rn = F(9, 5); rt = F(4, 0); d = imm9 - 512 if imm9 >> 8 else imm9
            base = s.rx(rn, spreg=True); ea = s.padd(base, d & M64) if pre else base
            if L: s.wx(rt, s.load(ea, 8))
            else: s.store(ea, s.rx(rt), 8)
            s.wx(rn, s.padd(base, d & M64), spreg=True)
            dis(('%s x%d, [%s, #%d]!' if pre else '%s x%d, [%s], #%d') % ('ldr' if L else 'str', rt, s.rn_(rn, 64, True), d)); return None
        # ldr literal (x)
        if m(0xFF000000, 0x58000000):
            imm19 = s.field(w, 23, 5, 'literal offset', concrete=True); rt = F(4, 0); d = imm19 - (1 << 19) if imm19 >> 18 else imm19
            s.wx(rt, s.load(Ptr(s.code, pc0 + 4 * d), 8)); dis('ldr x%d, %#x' % (rt, pc0 + 4 * d)); return None
        # ldr literal (q)
        if m(0xFF000000, 0x9C000000):
            imm19 = F(23, 5); rt = F(4, 0); d = imm19 - (1 << 19) if imm19 >> 18 else imm19
            s.v[rt] = [s.load(Ptr(s.code, pc0 + 4 * d), 8), s.load(Ptr(s.code, pc0 + 4 * d + 8), 8)]; s.written_v.add(rt); dis('ldr q%d, %#x' % (rt, pc0 + 4 * d)); return None
        # load/store pair (x, signed offset / pre / post), ldpsw
        if m(0x3A000000, 0x28000000) and F(26, 26) == 0:
            opc = F(31, 30); mode = F(24, 23); L = F(22, 22); imm7 = F(21, 15); rt2 = F(14, 10); rn = F(9, 5); rt = F(4, 0)
            if opc == 2: sz = 8; sw = False
            elif opc == 1 and L: sz = 4; sw = True
            elif opc == 0: sz = 4; sw = False
            else: raise Undecodable('load/store pair opc')
            d = (imm7 - 128 if imm7 >> 6 else imm7) * sz
            base = s.rx(rn, spreg=True)
            if mode == 2: ea = s.padd(base, d & M64); wb = None
            elif mode == 3: ea = s.padd(base, d & M64); wb = ea
            elif mode == 1: ea = base; wb = s.padd(base, d & M64)
            else: raise Undecodable('load/store pair no-allocate')
            ea2 = s.padd(ea, sz)
            if L:
                a = s.load(ea, sz); b = s.load(ea2, sz)
                if sw: a = sx(a, 32, 64); b = sx(b, 32, 64)
                s.wx(rt, a, 64 if sz == 8 or sw else 32); s.wx(rt2, b, 64 if sz == 8 or sw else 32)
            else:
                s.store(ea, s.rx(rt, 8 * sz), sz); s.store(ea2, s.rx(rt2, 8 * sz), sz)
            if wb is not None: s.wx(rn, wb, spreg=True)
            nm = 'ldpsw' if sw else ('ldp' if L else 'stp'); rw = 64 if sz == 8 or sw else 32
            fmt = {2: '%s %s, %s, [%s%s]', 3: '%s %s, %s, [%s%s]!', 1: '%s %s, %s, [%s]%s'}[mode]
            dis(fmt % (nm, s.rn_(rt, rw), s.rn_(rt2, rw), s.rn_(rn, 64, True), (', #%d' % d) if (d or mode != 2) else '')); return None
        # ---------------- SIMD / FP
        if m(0xFFE0FC00, 0x4E001C00):      # ins Vd.D[i], Xn
            imm5 = F(20, 16); rn = F(9, 5); rd = F(4, 0)
            if imm5 & 15 != 8: raise Undecodable('ins (general) element size')
            i = imm5 >> 4; v = s.rx(rn)
            if isinstance(v, Ptr): raise Fault('pointer moved into a vector register')
            s.v[rd][i] = v; s.written_v.add(rd); dis('mov v%d.d[%d], x%d' % (rd, i, rn)); return None
        if m(0xFFE0FC00, 0x4E002C00) or m(0xFFE0FC00, 0x0E003C00):      # smov Xd, Vn.S[i] / umov Wd, Vn.S[i]
            signed = F(30, 30) == 1 and F(13, 10) == 0xB; imm5 = F(20, 16); rn = F(9, 5); rd = F(4, 0)
            if imm5 & 7 != 4: raise Undecodable('smov/umov element size')
            i = imm5 >> 3; lane = s.v[rn][i >> 1]
            if lane is None: raise Fault('read of uninitialised vector register v%d' % rn)
            if is_c(lane): e = (lane >> (32 * (i & 1))) & 0xffffffff
            else: e = simp(z3.Extract(32 * (i & 1) + 31, 32 * (i & 1), lane))
            s.wx(rd, sx(e, 32, 64) if signed else zx(e, 32, 64)); dis('%s %s%d, v%d.s[%d]' % ('smov' if signed else 'mov', 'x' if signed else 'w', rd, rn, i)); return None
        if m(0xFFE08400, 0x6E000400):      # ins Vd.D[i], Vn.D[j]
            imm5 = F(20, 16); imm4 = F(14, 11); rn = F(9, 5); rd = F(4, 0)
            if imm5 & 15 != 8: raise Undecodable('ins (element) size')
            i = imm5 >> 4; j = imm4 >> 3; val = s.v[rn][j]
            if val is None: raise Fault('read of uninitialised vector register v%d' % rn)
            s.v[rd][i] = val; s.written_v.add(rd); dis('mov v%d.d[%d], v%d.d[%d]' % (rd, i, rn, j)); return None
        if m(0xFFFFFC00, 0x4E61D800):      # scvtf Vd.2D, Vn.2D
            rn = F(9, 5); rd = F(4, 0); out = []
            for l in range(2):
                x = s.v[rn][l]
                if x is None: raise Fault('read of uninitialised vector register v%d' % rn)
                X = bv(x, 64); s.obligations.append(('scvtf operand lane %d of v%d is a sign-extended 32-bit integer (exact conversion)' % (l, rn), X == z3.SignExt(32, z3.Extract(31, 0, X))))
                out.append(i2d(x & 0xffffffff if is_c(x) else simp(z3.Extract(31, 0, X))))
            s.v[rd] = out; s.written_v.add(rd); dis('scvtf v%d.2d, v%d.2d' % (rd, rn)); return None
        for mask, val, nm, nops in ((0xFFE0FC00, 0x4E60D400, 'fadd', 2), (0xFFE0FC00, 0x4EE0D400, 'fsub', 2), (0xFFE0FC00, 0x6E60DC00, 'fmul', 2), (0xFFE0FC00, 0x6E60FC00, 'fdiv', 2), (0xFFFFFC00, 0x6EE1F800, 'fsqrt', 1)):
            if m(mask, val):
                rm_ = F(20, 16) if nops == 2 else None; rn = F(9, 5); rd = F(4, 0); r = s.rm(); out = []
                for l in range(2):
                    a = s.v[rn][l]; b = s.v[rm_][l] if nops == 2 else None
                    if a is None or (nops == 2 and b is None): raise Fault('read of uninitialised vector register')
                    out.append(fpop(nm, r, a, b) if nops == 2 else fpop(nm, r, a))
                s.v[rd] = out; s.written_v.add(rd)
                dis('%s v%d.2d, v%d.2d%s' % (nm, rd, rn, (', v%d.2d' % rm_) if nops == 2 else '')); return None
        for val, nm in ((0x6E201C00, 'eor'), (0x6EE01C00, 'bif'), (0x6EA01C00, 'bit'), (0x6E601C00, 'bsl'), (0x4E201C00, 'and'), (0x4EA01C00, 'orr')):
            if m(0xFFE0FC00, val):
                rm_ = F(20, 16); rn = F(9, 5); rd = F(4, 0); out = []
                for l in range(2):
                    d = s.v[rd][l]; n = s.v[rn][l]; mm = s.v[rm_][l]
                    if n is None or mm is None or (nm in ('bif', 'bit', 'bsl') and d is None): raise Fault('read of uninitialised vector register')
                    N_, M_ = bv(n, 64), bv(mm, 64)
                    if nm == 'eor': r_ = N_ ^ M_
                    elif nm == 'and': r_ = N_ & M_
                    elif nm == 'orr': r_ = N_ | M_
                    elif nm == 'bif': D_ = bv(d, 64); r_ = D_ ^ ((D_ ^ N_) & ~M_)
                    elif nm == 'bit': D_ = bv(d, 64); r_ = D_ ^ ((D_ ^ N_) & M_)
                    else: D_ = bv(d, 64); r_ = M_ ^ ((M_ ^ N_) & D_)
                    out.append(simp(r_))
                s.v[rd] = out; s.written_v.add(rd)
                dis(('mov v%d.16b, v%d.16b' % (rd, rn)) if nm == 'orr' and rn == rm_ else '%s v%d.16b, v%d.16b, v%d.16b' % (nm, rd, rn, rm_)); return None
        # ---------------- branches / system
        if m(0xFC000000, 0x14000000):
            imm26 = s.field(w, 25, 0, 'branch offset'); d = imm26 - (1 << 26) if imm26 >> 25 else imm26
            dis('b %#x' % (pc0 + 4 * d)); return ('jmp', pc0 + 4 * d)
        if m(0xFF000010, 0x54000000):
            imm19 = s.field(w, 23, 5, 'branch offset', concrete=False); c = F(3, 0)
            cnd = s.cond(c)
            if is_c(imm19): d = imm19 - (1 << 19) if imm19 >> 18 else imm19; tgt = pc0 + 4 * d
            else: tgt = ('sym', pc0, imm19)
            dis('b.%s %s' % (['eq', 'ne', 'hs', 'lo', 'mi', 'pl', 'vs', 'vc'][c] if c < 8 else '?', ('%#x' % tgt) if is_c(imm19) else '?')); return ('jcc', cnd, tgt)
        if m(0xFFFFFC1F, 0xD65F0000):
            rn = F(9, 5); dis('ret' if rn == 30 else 'ret x%d' % rn); return ('ret', s.rx(rn))
        if m(0xFFFFFFE0, 0xD51B4400):
            rt = F(4, 0); v = s.rx(rt)
            if isinstance(v, Ptr): raise Fault('pointer written to FPCR')
            s.fpcr = v; dis('msr FPCR, x%d' % rt); return None
        if m(0xFFFFFFE0, 0xD53B4400):
            rt = F(4, 0)
            if s.fpcr is None: raise Fault('read of unknown FPCR')
            s.wx(rt, s.fpcr); dis('mrs x%d, FPCR' % rt); return None
        if m(0xFFFFFFFF, 0xD503201F): dis('nop'); return None
        if m(0xFFC00000, 0xF9800000) or m(0xFFE00C00, 0xF8A00800): dis('prfm'); return None
        raise Undecodable('A64 word %s at %#x' % (hex(w) if is_c(w) else str(z3.simplify(w))[:60], pc0))
    # ---- helpers
    def shifted(s, v, sh, amt, W, rotate_ok=False):
        if amt == 0: return v
        if isinstance(v, Ptr): raise Fault('shift of a pointer')
        V = bv(v, W)
        if sh == 0: return simp(V << amt)
        if sh == 1: return simp(z3.LShR(V, amt))
        if sh == 2: return simp(V >> amt)
        if not rotate_ok: raise Undecodable('ror shift in add/sub')
        return simp(z3.RotateRight(V, amt))
    def shs(s, sh, amt): return (', %s #%d' % (['lsl', 'lsr', 'asr', 'ror'][sh], amt)) if amt else ''
    def rn_(s, r, W=64, spreg=False):
        if r == 31: return ('sp' if W == 64 else 'wsp') if spreg else ('xzr' if W == 64 else 'wzr')
        return '%s%d' % ('x' if W == 64 else 'w', r)
    def addsub(s, a, b, sub, setflags, W):
        if isinstance(a, Ptr) or isinstance(b, Ptr):
            if setflags: raise Fault('flag-setting arithmetic on a pointer')
            if sub:
                if isinstance(b, Ptr): raise Fault('subtraction of a pointer')
                nb = ((-b) & M64) if is_c(b) else -bv(b, 64)
                return s.padd(a, nb)
            return s.padd(a, b)
        if is_c(a) and is_c(b): res = (a - b if sub else a + b) & ((1 << W) - 1)
        else: res = simp(bv(a, W) - bv(b, W) if sub else bv(a, W) + bv(b, W))
        if setflags:
            A, B = bv(a, W), bv(b, W); s.set_nz(res, W)
            if sub: s.fl['C'] = b1(z3.UGE(A, B)); s.fl['V'] = b1(z3.And(z3.Extract(W - 1, W - 1, A) != z3.Extract(W - 1, W - 1, B), z3.Extract(W - 1, W - 1, bv(res, W)) != z3.Extract(W - 1, W - 1, A)))
            else: s.fl['C'] = b1(z3.ULT(bv(res, W), A)); s.fl['V'] = b1(z3.And(z3.Extract(W - 1, W - 1, A) == z3.Extract(W - 1, W - 1, B), z3.Extract(W - 1, W - 1, bv(res, W)) != z3.Extract(W - 1, W - 1, A)))
        return res
    def run(s, start, stop=None, max_steps=2000):
        """executes from byte offset `start` until pc is in `stop` or a ret / a branch leaving with a symbolic target.
        returns ('stop', off) | ('ret', target) | ('leave', target-descriptor)"""
        s.pc = start; stop = stop or set()
        for _ in range(max_steps):
            if s.pc in stop: return ('stop', s.pc)
            r = s.step()
            if r is None: continue
            if r[0] == 'ret': return r
            if r[0] == 'jmp': s.pc = r[1]; continue
            if r[0] == 'jcc':
                if s.decide(r[1]):
                    if isinstance(r[2], tuple): return ('leave', r[2])
                    s.pc = r[2]
                continue
        raise Fault('step bound exceeded (unwinding assertion)')
