# integer mode: translate a z3 bit-vector term DAG (as produced by irsym / x86sem) into mathematical-integer
# arithmetic, with a solver-checked no-wrap side condition for every add/mul/shl (otherwise the op keeps its mod 2^w),
# and udiv/urem introduced by their Euclidean definition.  Needed where bit-blasting division is hopeless (DESIGN 2).
import z3

class IntMode:
    def __init__(s, pre, timeout_s=30):
        """pre: list of integer-level assumptions (z3 Bool over Int vars)"""
        s.pre = list(pre); s.memo = {}; s.vars = {}; s.defs = []; s.n = 0; s.unsat = 0; s.solver_s = 0.0; s.timeout = timeout_s; s.log = []; s.k = 0
    def var(s, bvconst):
        nm = bvconst.decl().name()
        if nm not in s.vars:
            v = z3.Int(nm + '_int'); s.vars[nm] = v; s.defs += [v >= 0, v < 2 ** bvconst.size()]
        return s.vars[nm]
    def valid(s, claim):
        import time
        sol = z3.Solver(); sol.set('timeout', s.timeout * 1000); sol.add(*s.pre); sol.add(*s.defs); sol.add(z3.Not(claim))
        t = time.time(); r = sol.check(); s.solver_s += time.time() - t; s.n += 1
        if r == z3.unsat: s.unsat += 1
        return r == z3.unsat
    def nowrap(s, e, w, what):
        if s.valid(e < 2 ** w): s.log.append('no wrap: ' + what); return e
        s.log.append('kept mod 2^%d: %s' % (w, what)); return e % (2 ** w)
    def tr(s, t):
        i = t.get_id()
        if i in s.memo: return s.memo[i]
        r = s._tr(t); s.memo[i] = r; return r
    def _tr(s, t):
        k = t.decl().kind(); w = t.size()
        if z3.is_bv_value(t): return z3.IntVal(t.as_long())
        if t.num_args() == 0: return s.var(t)
        ch = t.children()
        if k == z3.Z3_OP_ZERO_EXT: return s.tr(ch[0])
        if k == z3.Z3_OP_CONCAT and z3.is_bv_value(ch[0]) and ch[0].as_long() == 0:
            r = s.tr(ch[-1]); sh = ch[-1].size()
            for c in reversed(ch[1:-1]): r = r + s.tr(c) * (2 ** sh); sh += c.size()
            return r
        if k == z3.Z3_OP_CONCAT and len(ch) == 2 and z3.is_bv_value(ch[1]) and ch[1].as_long() == 0:       # x << const written as concat(extract(x), 0)
            lo = ch[1].size(); a = ch[0]
            if a.decl().kind() == z3.Z3_OP_EXTRACT and a.params()[1] == 0:
                x = s.tr(a.arg(0)); hi = a.params()[0]
                if s.valid(x < 2 ** (hi + 1)): return x * (2 ** lo)
                return (x % (2 ** (hi + 1))) * (2 ** lo)
            return s.tr(a) * (2 ** lo)
        if k == z3.Z3_OP_CONCAT:
            r = None; sh = 0
            for c in reversed(ch):
                e = s.tr(c) * (2 ** sh) if sh else s.tr(c); r = e if r is None else r + e; sh += c.size()
            return r
        if k == z3.Z3_OP_EXTRACT:
            hi, lo = t.params(); x = s.tr(ch[0])
            if lo == 0:
                if s.valid(x < 2 ** (hi + 1)): return x
                return x % (2 ** (hi + 1))
            return (x / (2 ** lo)) % (2 ** (hi - lo + 1))
        if k == z3.Z3_OP_BADD:
            e = s.tr(ch[0])
            for c in ch[1:]: e = e + s.tr(c)
            return s.nowrap(e, w, 'add')
        if k == z3.Z3_OP_BMUL:
            e = s.tr(ch[0])
            for c in ch[1:]: e = e * s.tr(c)
            return s.nowrap(e, w, 'mul')
        if k == z3.Z3_OP_BSHL and z3.is_bv_value(ch[1]):
            return s.nowrap(s.tr(ch[0]) * (2 ** ch[1].as_long()), w, 'shl %d' % ch[1].as_long())
        if k in (z3.Z3_OP_BUDIV, z3.Z3_OP_BUDIV_I, z3.Z3_OP_BUREM, z3.Z3_OP_BUREM_I):
            n = s.tr(ch[0]); d = s.tr(ch[1]); key = ('div', ch[0].get_id(), ch[1].get_id())
            if key not in s.memo:
                s.k += 1; q = z3.Int('q%d' % s.k); r = z3.Int('r%d' % s.k)
                s.defs += [n == q * d + r, r >= 0, r < d, q >= 0]; s.memo[key] = (q, r)
                if not s.valid(d > 0): raise Exception('division by a possibly zero value')
            q, r = s.memo[key]
            return q if k in (z3.Z3_OP_BUDIV, z3.Z3_OP_BUDIV_I) else r
        if k == z3.Z3_OP_BLSHR and z3.is_bv_value(ch[1]): return s.tr(ch[0]) / (2 ** ch[1].as_long())
        if k == z3.Z3_OP_ITE: return z3.If(s.trb(ch[0]), s.tr(ch[1]), s.tr(ch[2]))
        if k == z3.Z3_OP_BSUB:
            a, b = s.tr(ch[0]), s.tr(ch[1])
            if s.valid(a >= b): return a - b
            return (a - b) % (2 ** w)
        if k in (z3.Z3_OP_BSHL, z3.Z3_OP_BLSHR):
            # symbolic shift amount: case split over its feasible values (solver-enumerated on the integer side)
            x = s.tr(ch[0]); amt = s.tr(ch[1]); vals = []
            sol = z3.Solver(); sol.set('timeout', s.timeout * 1000); sol.add(*s.pre); sol.add(*s.defs); v = z3.Int('shamt%d' % len(s.memo)); sol.add(v == amt)
            while len(vals) <= 70 and sol.check() == z3.sat:
                c = sol.model().eval(v, model_completion=True).as_long(); vals.append(c); sol.add(v != c)
            if not vals or len(vals) > 70: raise Exception('intmode: shift amount not enumerable')
            r = None
            for c in vals:
                e = s.nowrap(x * (2 ** c), w, 'shl %d' % c) if k == z3.Z3_OP_BSHL else x / (2 ** c)
                r = e if r is None else z3.If(amt == c, e, r)
            return r
        if k == z3.Z3_OP_BAND and len(ch) == 2 and z3.is_bv_value(ch[1]) and (ch[1].as_long() & (ch[1].as_long() + 1)) == 0:
            return s.tr(ch[0]) % (ch[1].as_long() + 1)
        raise Exception('intmode: unsupported term kind %s: %s' % (t.decl().name(), str(t)[:80]))
    def trb(s, c):
        k = c.decl().kind(); ch = c.children()
        if z3.is_true(c) or z3.is_false(c): return c
        if k == z3.Z3_OP_NOT: return z3.Not(s.trb(ch[0]))
        if k == z3.Z3_OP_AND: return z3.And([s.trb(x) for x in ch])
        if k == z3.Z3_OP_OR: return z3.Or([s.trb(x) for x in ch])
        if k == z3.Z3_OP_EQ and z3.is_bv(ch[0]): return s.tr(ch[0]) == s.tr(ch[1])
        if k == z3.Z3_OP_ULT: return s.tr(ch[0]) < s.tr(ch[1])
        if k == z3.Z3_OP_ULEQ: return s.tr(ch[0]) <= s.tr(ch[1])
        if k == z3.Z3_OP_UGT: return s.tr(ch[0]) > s.tr(ch[1])
        if k == z3.Z3_OP_UGEQ: return s.tr(ch[0]) >= s.tr(ch[1])
        if k == z3.Z3_OP_ITE: return z3.If(s.trb(ch[0]), s.trb(ch[1]), s.trb(ch[2]))
        raise Exception('intmode: unsupported condition %s' % str(c)[:80])
