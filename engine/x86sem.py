# x86sem: decoder + executor for the x86-64 instruction forms RandomX's JIT emits or contains in
# jit_compiler_x86_static.S, over values that are python ints, z3 bit-vectors or irsym pointers (object, offset).
# An undecodable byte sequence raises Undecodable (a check fails; nothing is skipped).
import z3
from engine.irsym import Ptr, is_c, bv, Mem, fpop, i2d, OOB

M64 = (1 << 64) - 1
class Undecodable(Exception): pass
class Fault(Exception): pass          # architectural fault that is certain on this path (e.g. access through a non-pointer)

AESENC = z3.Function('aesenc', z3.BitVecSort(128), z3.BitVecSort(128), z3.BitVecSort(128))
AESDEC = z3.Function('aesdec', z3.BitVecSort(128), z3.BitVecSort(128), z3.BitVecSort(128))

def mk(v, w): return v & ((1 << w) - 1) if is_c(v) else v
def simp(v):
    if is_c(v): return v
    s = z3.simplify(v)
    return s.as_long() if z3.is_bv_value(s) else v
def bits(b, hi, lo):
    if is_c(b): return (b >> lo) & ((1 << (hi - lo + 1)) - 1)
    v = z3.simplify(z3.Extract(hi, lo, b))
    return v.as_long() if z3.is_bv_value(v) else v
def zx(v, frm, to):
    if is_c(v): return v & ((1 << frm) - 1)
    if v.size() > frm: v = z3.Extract(frm - 1, 0, v)
    return z3.ZeroExt(to - frm, v) if to > frm else v
def sx(v, frm, to):
    if is_c(v):
        v &= (1 << frm) - 1
        return (v - (1 << frm)) & ((1 << to) - 1) if v >> (frm - 1) else v
    if v.size() > frm: v = z3.Extract(frm - 1, 0, v)
    return z3.SignExt(to - frm, v) if to > frm else v
def trunc(v, w):
    if is_c(v): return v & ((1 << w) - 1)
    return v if v.size() == w else z3.Extract(w - 1, 0, v)
def cat_le(bs):
    """little-endian concatenation of byte values"""
    if all(is_c(b) for b in bs): return sum(b << (8 * k) for k, b in enumerate(bs))
    return z3.Concat(*[bv(b, 8) for b in reversed(bs)])
def b1(c):
    """z3 Bool / python bool -> int or 1-bit term"""
    if isinstance(c, bool): return int(c)
    c = z3.simplify(c)
    if z3.is_true(c): return 1
    if z3.is_false(c): return 0
    return z3.If(c, z3.BitVecVal(1, 1), z3.BitVecVal(0, 1))

def arith(op, a, b, w):
    if is_c(a) and is_c(b):
        m = (1 << w) - 1
        return {'add': (a + b) & m, 'sub': (a - b) & m, 'and': a & b, 'or': a | b, 'xor': a ^ b, 'mul': (a * b) & m}[op]
    a = bv(a, w); b = bv(b, w)
    return {'add': lambda: a + b, 'sub': lambda: a - b, 'and': lambda: a & b, 'or': lambda: a | b, 'xor': lambda: a ^ b, 'mul': lambda: a * b}[op]()

class Machine:
    def __init__(s, mem, code_obj, it=None):
        s.mem = mem; s.code = code_obj; s.it = it
        s.gpr = [None] * 16; s.xmm = [[None, None] for _ in range(16)]
        s.fl = dict(ZF=None, CF=None, SF=None, OF=None)
        s.mxcsr = None; s.rip = 0; s.steps = 0
        s.align_checks = []; s.div_checks = []; s.trace = []; s.written_gpr = set(); s.written_xmm = set()
        s.accesses = []        # (kind, obj, off, nbytes)
        s.call_hooks = {}      # absolute target offset -> python callable(machine)
    # ---------- code bytes
    def byte(s, off):
        return s.mem.load(Ptr(s.code, off), 1)
    def imm(s, off, n):
        return cat_le([s.byte(off + k) for k in range(n)])
    # ---------- registers
    def rd(s, r, w=64):
        v = s.gpr[r]
        if v is None: raise Fault('read of uninitialised register %d' % r)
        if w == 64: return v
        if isinstance(v, Ptr): raise Fault('sub-register read of a pointer in r%d' % r)
        return trunc(v, w)
    def wr(s, r, v, w=64):
        s.written_gpr.add(r)
        if r == 4 and w == 64 and isinstance(v, Ptr) and is_c(v.off): s.min_sp = v.off if getattr(s, 'min_sp', None) is None else min(s.min_sp, v.off)
        if w == 64: s.gpr[r] = v if isinstance(v, Ptr) else mk(v, 64)
        elif w == 32: s.gpr[r] = zx(v, 32, 64)
        else:
            old = s.gpr[r]
            if isinstance(old, Ptr) or isinstance(v, Ptr): raise Fault('partial write involving pointer')
            if is_c(old) and is_c(v): s.gpr[r] = (old & ~((1 << w) - 1)) | (v & ((1 << w) - 1))
            else: s.gpr[r] = z3.Concat(z3.Extract(63, w, bv(old, 64)), bv(trunc(v, w), w))
    def rm_mode(s):
        m = s.mxcsr
        return (m >> 13) & 3 if is_c(m) else z3.Extract(14, 13, m)
    # ---------- pointer-aware add
    def padd(s, a, b):
        if isinstance(a, Ptr) and isinstance(b, Ptr): raise Fault('pointer + pointer')
        if isinstance(b, Ptr): a, b = b, a
        if isinstance(a, Ptr):
            if is_c(a.off) and is_c(b):
                b = b - (1 << 64) if b >> 63 else b
                return Ptr(a.obj, a.off + b)
            return Ptr(a.obj, simp(bv(a.off, 64) + bv(b, 64)))
        return arith('add', a, b, 64)
    # ---------- memory
    def load(s, ea, n):
        if not isinstance(ea, Ptr): raise Fault('load through non-pointer address %s' % str(ea)[:80])
        s.accesses.append(('load', ea.obj, ea.off, n))
        if n <= 8: return s.mem.load(ea, n)
        return [s.mem.load(Ptr(ea.obj, s._o(ea.off, 8 * k)), 8) for k in range(n // 8)]
    def store(s, ea, v, n):
        if not isinstance(ea, Ptr): raise Fault('store through non-pointer address %s' % str(ea)[:80])
        s.accesses.append(('store', ea.obj, ea.off, n))
        if n <= 8: s.mem.store(ea, v, n); return
        for k in range(n // 8): s.mem.store(Ptr(ea.obj, s._o(ea.off, 8 * k)), v[k], 8)
    def _o(s, off, d):
        return off + d if is_c(off) else off + d
    # ---------- flags
    def set_zf_sf(s, res, w):
        if is_c(res): s.fl['ZF'] = int(res == 0); s.fl['SF'] = (res >> (w - 1)) & 1
        else: s.fl['ZF'] = b1(res == 0); s.fl['SF'] = z3.Extract(w - 1, w - 1, res)
    def flags_logic(s, res, w): s.set_zf_sf(res, w); s.fl['CF'] = 0; s.fl['OF'] = 0
    def flags_add(s, a, b, res, w):
        s.set_zf_sf(res, w); s.fl['OF'] = None
        s.fl['CF'] = int(res < a) if is_c(a) and is_c(b) else b1(z3.ULT(bv(res, w), bv(a, w)))
    def flags_sub(s, a, b, res, w):
        s.set_zf_sf(res, w); s.fl['OF'] = None
        s.fl['CF'] = int(a < b) if is_c(a) and is_c(b) else b1(z3.ULT(bv(a, w), bv(b, w)))
    def undef_flags(s): s.fl = dict(ZF=None, CF=None, SF=None, OF=None)
    def cond(s, cc):
        base = cc & 14; neg = cc & 1
        if base in (6,):      # BE / A : CF | ZF
            c, z = s.fl['CF'], s.fl['ZF']
            if c is None or z is None: raise Fault('conditional on undefined flags CF/ZF')
            f = (c | z) if is_c(c) and is_c(z) else (bv(c, 1) | bv(z, 1))
        else:
            need = {4: 'ZF', 2: 'CF', 8: 'SF', 0: 'OF'}.get(base)
            if need is None: raise Undecodable('condition code %d' % cc)
            f = s.fl[need]
            if f is None: raise Fault('conditional on undefined flag %s' % need)
        if is_c(f): return f ^ neg
        return f ^ 1 if neg else f     # 1-bit term
    def decide(s, c):
        if is_c(c): return c
        if s.it is None: raise Fault('symbolic branch without a forking context')
        return s.it.decide(c)

    def concrete(s, t, what):
        """a byte that decides the *shape* of an instruction must be concrete: enumerate its feasible values by forking (solver-driven)"""
        if is_c(t): return t
        v = simp(t)
        if is_c(v): return v
        if s.it is None: raise Undecodable('symbolic %s' % what)
        for _ in range(300):
            from engine.irsym import min_feasible
            val = min_feasible(s.it.fork['pc'], t)
            if val is None: raise Fault('infeasible path while concretising %s' % what)
            if s.it.decide(z3.If(t == val, z3.BitVecVal(1, 1), z3.BitVecVal(0, 1))): return val
        raise Undecodable('too many values for %s' % what)
    # ---------- decoding
    def step(s):
        """decode and execute one instruction at s.rip. returns None, or ('ret',), ('jmp', target)"""
        p = s.rip; start = p; s.steps += 1
        pre66 = preF3 = preF2 = False; rex = 0
        while True:
            b = s.concrete(s.byte(p), 'opcode/prefix byte at %d' % p)
            if b == 0x66: pre66 = True; p += 1
            elif b == 0xF3: preF3 = True; p += 1
            elif b == 0xF2: preF2 = True; p += 1
            elif b & 0xF0 == 0x40: rex = b; p += 1; b = s.concrete(s.byte(p), 'opcode byte at %d' % p); break
            else: break
        if not is_c(b): raise Undecodable('symbolic opcode byte at %d' % p)
        W = (rex >> 3) & 1; R = (rex >> 2) & 1; X = (rex >> 1) & 1; Bx = rex & 1
        opw = 64 if W else 32
        op = b; p += 1
        def modrm():
            nonlocal p
            m = s.byte(p); p += 1
            if not is_c(m):
                md, reg, rm = bits(m, 7, 6), bits(m, 5, 3), bits(m, 2, 0)
                if not (is_c(md) and is_c(reg) and is_c(rm)):
                    m = s.concrete(m, 'ModRM at %d' % (p - 1)); md, reg, rm = m >> 6, (m >> 3) & 7, m & 7
            else: md, reg, rm = m >> 6, (m >> 3) & 7, m & 7
            reg |= R << 3
            if md == 3: return reg, ('reg', rm | (Bx << 3))
            base = None; idx = None; scale = 0; disp = 0
            if rm == 4:
                sib = s.byte(p); p += 1
                sc, ix, bs = bits(sib, 7, 6), bits(sib, 5, 3), bits(sib, 2, 0)
                if not (is_c(ix) and is_c(bs)):
                    sib = s.concrete(sib, 'SIB at %d' % (p - 1)); sc, ix, bs = sib >> 6, (sib >> 3) & 7, sib & 7
                ix |= X << 3; scale = sc
                if ix != 4: idx = ix
                if bs == 5 and md == 0: disp = sx(s.imm(p, 4), 32, 64); p += 4
                else: base = bs | (Bx << 3)
            elif rm == 5 and md == 0:
                d = sx(s.imm(p, 4), 32, 64); p += 4
                return reg, ('rip', d)
            else: base = rm | (Bx << 3)
            if md == 1: disp = sx(s.byte(p), 8, 64); p += 1
            elif md == 2: disp = sx(s.imm(p, 4), 32, 64); p += 4
            return reg, ('mem', base, idx, scale, disp)
        def ea(m):
            if m[0] == 'rip': return s.padd(Ptr(s.code, p), m[1])     # p = address of the next instruction once all bytes are consumed
            _, base, idx, scale, disp = m
            a = disp
            if idx is not None:
                iv = s.rd(idx)
                if isinstance(iv, Ptr):
                    if not (is_c(scale) and scale == 0): raise Fault('scaled pointer')
                    a = s.padd(iv, a)
                else:
                    sh = (iv << scale) & M64 if is_c(iv) and is_c(scale) else (bv(iv, 64) << zx(bv(scale, 2), 2, 64) if not is_c(scale) else (bv(iv, 64) << scale if scale else iv))
                    a = s.padd(a, sh) if not isinstance(a, Ptr) else s.padd(a, sh)
            if base is not None: a = s.padd(s.rd(base), a) if not isinstance(a, Ptr) else s.padd(a, s.rd(base))
            return a
        def rm_read(m, w):
            if m[0] == 'reg': return s.rd(m[1], w)
            return s.load(ea(m), w // 8)
        def rm_write(m, v, w):
            if m[0] == 'reg': s.wr(m[1], v, w)
            else: s.store(ea(m), v, w // 8)
        def done(): s.rip = p; return None
        # ---- one-byte opcodes
        ALU = {0x00: 'add', 0x08: 'or', 0x20: 'and', 0x28: 'sub', 0x30: 'xor', 0x38: 'cmp'}
        if op & 0xC7 in (0x01, 0x03) and (op & 0x38) in ALU and not pre66:
            kind = ALU[op & 0x38]; reg, m = modrm()
            if op & 2: d_is_reg = True; a = s.rd(reg, opw) if not (kind in ('add', 'sub') and opw == 64) else s.rd(reg); b_ = rm_read(m, opw)
            else: d_is_reg = False; a = rm_read(m, opw); b_ = s.rd(reg, opw)
            res = s.alu(kind, a, b_, opw)
            if kind != 'cmp':
                if d_is_reg: s.wr(reg, res, opw)
                else: rm_write(m, res, opw)
            return done()
        if op in (0x25, 0x0D, 0xA9, 0x05, 0x2D, 0x35):      # and/or/test/add/sub/xor eAX, imm32
            kind = {0x25: 'and', 0x0D: 'or', 0xA9: 'test', 0x05: 'add', 0x2D: 'sub', 0x35: 'xor'}[op]
            i = s.imm(p, 4); p += 4; i = sx(i, 32, 64) if W else i
            res = s.alu(kind, s.rd(0, opw), i, opw)
            if kind != 'test': s.wr(0, res, opw)
            return done()
        if op in (0x81, 0x83):
            reg, m = modrm(); k = reg & 7
            if op == 0x81: i = s.imm(p, 4); p += 4; i = sx(i, 32, opw)
            else: i = sx(s.byte(p), 8, opw); p += 1
            kind = {0: 'add', 1: 'or', 4: 'and', 5: 'sub', 6: 'xor', 7: 'cmp'}.get(k)
            if kind is None: raise Undecodable('81/83 /%d' % k)
            a = rm_read(m, opw) if not (kind in ('add', 'sub') and opw == 64 and m[0] == 'reg') else s.rd(m[1])
            res = s.alu(kind, a, i, opw)
            if kind != 'cmp': rm_write(m, res, opw)
            return done()
        if op == 0x85:
            reg, m = modrm(); s.alu('test', rm_read(m, opw), s.rd(reg, opw), opw); return done()
        if op == 0x87:
            reg, m = modrm(); a = s.rd(reg, opw); b_ = rm_read(m, opw); s.wr(reg, b_, opw); rm_write(m, a, opw); return done()
        if op == 0x89:
            reg, m = modrm(); rm_write(m, s.rd(reg, opw), opw); return done()
        if op == 0x8B:
            reg, m = modrm(); s.wr(reg, rm_read(m, opw), opw); return done()
        if op == 0x8D:
            reg, m = modrm()
            if m[0] == 'reg': raise Undecodable('lea reg')
            a = ea(m)
            if opw == 32:
                if isinstance(a, Ptr): raise Fault('lea r32 of a pointer')
                s.wr(reg, trunc(a, 32), 32)
            else: s.wr(reg, a, 64)
            return done()
        if 0xB8 <= op <= 0xBF:
            r = (op & 7) | (Bx << 3)
            if W: s.wr(r, s.imm(p, 8), 64); p += 8
            else: s.wr(r, s.imm(p, 4), 32); p += 4
            return done()
        if op == 0x69:
            reg, m = modrm(); i = sx(s.imm(p, 4), 32, opw); p += 4
            s.wr(reg, arith('mul', rm_read(m, opw), i, opw), opw); s.undef_flags(); return done()
        if op == 0xF7:
            reg, m = modrm(); k = reg & 7
            if k == 0: i = sx(s.imm(p, 4), 32, opw); p += 4; s.alu('test', rm_read(m, opw), i, opw); return done()
            if k == 3:
                a = rm_read(m, opw); res = arith('sub', 0, a, opw); s.flags_sub(0, a, res, opw); rm_write(m, res, opw); return done()
            if k in (4, 5):
                if opw != 64: raise Undecodable('32-bit mul')
                a = s.rd(0); b_ = rm_read(m, 64)
                if is_c(a) and is_c(b_):
                    if k == 5:
                        a = a - (1 << 64) if a >> 63 else a; b_ = b_ - (1 << 64) if b_ >> 63 else b_
                    pr = (a * b_) & ((1 << 128) - 1); s.wr(0, pr & M64); s.wr(2, pr >> 64)
                else:
                    ext = z3.SignExt if k == 5 else z3.ZeroExt
                    pr = ext(64, bv(a, 64)) * ext(64, bv(b_, 64)); s.wr(0, z3.Extract(63, 0, pr)); s.wr(2, z3.Extract(127, 64, pr))
                s.undef_flags(); return done()
            if k == 6:
                if opw != 64: raise Undecodable('32-bit div')
                d = rm_read(m, 64); hi = s.rd(2); lo = s.rd(0)
                n = z3.Concat(bv(hi, 64), bv(lo, 64)); dd = z3.ZeroExt(64, bv(d, 64))
                s.div_checks.append((s.rip, z3.And(bv(d, 64) != 0, z3.ULT(bv(hi, 64), bv(d, 64)))))     # no #DE: divisor != 0 and quotient fits
                s.wr(0, z3.Extract(63, 0, z3.UDiv(n, dd))); s.wr(2, z3.Extract(63, 0, z3.URem(n, dd))); s.undef_flags(); return done()
            raise Undecodable('F7 /%d' % k)
        if op in (0xC1, 0xD3, 0xD1):
            reg, m = modrm(); k = reg & 7
            if op == 0xC1: cnt = s.byte(p); p += 1
            elif op == 0xD1: cnt = 1
            else: cnt = s.rd(1, 8)
            a = rm_read(m, opw); cnt = arith('and', cnt, 63 if opw == 64 else 31, 8)
            cw = zx(bv(cnt, 8), 8, opw) if not is_c(cnt) else cnt
            if k in (0, 1):
                if is_c(a) and is_c(cw):
                    c = cw % opw; res = ((a << c) | (a >> (opw - c))) & ((1 << opw) - 1) if k == 0 else ((a >> c) | (a << (opw - c))) & ((1 << opw) - 1)
                else: res = (z3.RotateLeft if k == 0 else z3.RotateRight)(bv(a, opw), bv(cw, opw))
                s.undef_flags()
            elif k in (4, 5, 7):
                if is_c(a) and is_c(cw):
                    if k == 4: res = (a << cw) & ((1 << opw) - 1)
                    elif k == 5: res = a >> cw
                    else:
                        sa = a - (1 << opw) if a >> (opw - 1) else a; res = (sa >> cw) & ((1 << opw) - 1)
                else:
                    A = bv(a, opw); C = bv(cw, opw); res = A << C if k == 4 else (z3.LShR(A, C) if k == 5 else A >> C)
                s.set_zf_sf(res, opw); s.fl['CF'] = None; s.fl['OF'] = None
                if not (is_c(cw) and cw != 0): s.fl['ZF'] = None if not is_c(cw) else s.fl['ZF']     # count 0 leaves flags unchanged: treat as undefined when the count is symbolic
            else: raise Undecodable('shift /%d' % k)
            rm_write(m, res, opw); return done()
        if 0x50 <= op <= 0x57:
            r = (op & 7) | (Bx << 3); sp = s.padd(s.rd(4), -8 & M64); s.store(sp, s.rd(r), 8); s.wr(4, sp); return done()
        if 0x58 <= op <= 0x5F:
            r = (op & 7) | (Bx << 3); sp = s.rd(4); v = s.load(sp, 8); s.wr(4, s.padd(sp, 8)); s.wr(r, v); return done()
        if op == 0x90 and not preF3: return done()
        if op == 0xC3:
            sp = s.rd(4); ra = s.load(sp, 8); s.wr(4, s.padd(sp, 8)); s.rip = p; return ('ret', ra)
        if op == 0xE8:
            d = sx(s.imm(p, 4), 32, 64); p += 4
            if not is_c(d): raise Undecodable('symbolic call displacement')
            d = d - (1 << 64) if d >> 63 else d; tgt = p + d
            sp = s.padd(s.rd(4), -8 & M64); s.store(sp, Ptr(s.code, p), 8); s.wr(4, sp); s.rip = p
            return ('call', tgt)
        if op == 0xE9:
            d = sx(s.imm(p, 4), 32, 64); p += 4
            if not is_c(d): raise Undecodable('symbolic jmp displacement')
            d = d - (1 << 64) if d >> 63 else d; s.rip = p; return ('jmp', p + d)
        if op == 0xEB:
            d = sx(s.byte(p), 8, 64); p += 1; d = d - (1 << 64) if d >> 63 else d; s.rip = p; return ('jmp', p + d)
        if 0x70 <= op <= 0x7F:
            d = s.byte(p); p += 1
            if not is_c(d): raise Undecodable('symbolic jcc displacement')
            d = d - 256 if d >> 7 else d; s.rip = p
            return ('jcc', s.cond(op & 15), p + d)
        if op == 0x0F:
            op2 = s.concrete(s.byte(p), '0F opcode at %d' % p); p += 1
            if 0x80 <= op2 <= 0x8F:
                d = sx(s.imm(p, 4), 32, 64); p += 4; s.rip = p
                if is_c(d): d = d - (1 << 64) if d >> 63 else d; return ('jcc', s.cond(op2 & 15), p + d)
                return ('jcc', s.cond(op2 & 15), ('sym', p, d))
            if op2 == 0xAF:
                reg, m = modrm(); s.wr(reg, arith('mul', s.rd(reg, opw), rm_read(m, opw), opw), opw); s.undef_flags(); return done()
            if op2 == 0xB6:
                reg, m = modrm()
                v = s.rd(m[1], 8) if m[0] == 'reg' else s.load(ea(m), 1)
                s.wr(reg, zx(v, 8, 64) if not is_c(v) else v, opw); return done()
            if op2 == 0xBD:
                reg, m = modrm(); v = rm_read(m, opw)
                if is_c(v): r_ = v.bit_length() - 1
                else:
                    r_ = z3.BitVecVal(0, opw)
                    for i in range(opw): r_ = z3.If(z3.Extract(i, i, v) == 1, z3.BitVecVal(i, opw), r_)
                    s.div_checks.append((s.rip, bv(v, opw) != 0))     # bsr of zero leaves the destination undefined
                    if getattr(s, 'bsr_hook', None): r_ = s.bsr_hook(r_)
                s.wr(reg, r_, opw); s.undef_flags(); return done()
            if op2 in (0x18, 0x0D, 0x1F):
                reg, m = modrm()
                if m[0] != 'reg' and op2 != 0x1F:
                    a = ea(m); s.trace.append(('prefetch', a))
                return done()
            if op2 == 0xAE:
                reg, m = modrm(); k = reg & 7
                if k == 2: s.mxcsr = s.load(ea(m), 4); s.trace.append(('ldmxcsr', s.mxcsr)); return done()
                if k == 3: s.store(ea(m), s.mxcsr, 4); return done()
                raise Undecodable('0F AE /%d' % k)
            if op2 == 0xC3 and not pre66:
                reg, m = modrm(); s.store(ea(m), s.rd(reg, opw), opw // 8); return done()       # movnti
            # ---- SSE
            if op2 in (0x28, 0x29, 0x6F, 0x7F, 0x10, 0x11):
                if op2 in (0x6F, 0x7F) and not (pre66 or preF3): raise Undecodable('mmx mov')
                reg, m = modrm(); aligned = not (op2 in (0x10, 0x11) or (op2 in (0x6F, 0x7F) and preF3))
                if op2 in (0x28, 0x6F, 0x10):
                    if m[0] == 'reg': v = list(s.xmm[m[1]])
                    else:
                        a = ea(m)
                        if aligned: s.align_checks.append((s.rip, a, 16))
                        v = s.load(a, 16)
                    s.xmm[reg] = v; s.written_xmm.add(reg)
                else:
                    if m[0] == 'reg': s.xmm[m[1]] = list(s.xmm[reg]); s.written_xmm.add(m[1])
                    else:
                        a = ea(m)
                        if aligned: s.align_checks.append((s.rip, a, 16))
                        s.store(a, list(s.xmm[reg]), 16)
                return done()
            if op2 in (0x58, 0x5C, 0x59, 0x5E, 0x51, 0x5F) and pre66:
                reg, m = modrm(); src = list(s.xmm[m[1]]) if m[0] == 'reg' else s.load(ea(m), 16); dst = s.xmm[reg]; rmode = s.rm_mode()
                if m[0] != 'reg': s.align_checks.append((s.rip, ea(m), 16))
                if op2 == 0x51: s.xmm[reg] = [fpop('fsqrt', rmode, x) for x in src]
                else:
                    nm = {0x58: 'fadd', 0x5C: 'fsub', 0x59: 'fmul', 0x5E: 'fdiv', 0x5F: 'fmax'}[op2]
                    s.xmm[reg] = [fpop(nm, rmode, a, b_) for a, b_ in zip(dst, src)]
                s.written_xmm.add(reg); return done()
            if op2 in (0x54, 0x56, 0x57):
                reg, m = modrm(); src = list(s.xmm[m[1]]) if m[0] == 'reg' else s.load(ea(m), 16); dst = s.xmm[reg]
                nm = {0x54: 'and', 0x56: 'or', 0x57: 'xor'}[op2]
                s.xmm[reg] = [arith(nm, a, b_, 64) for a, b_ in zip(dst, src)]; s.written_xmm.add(reg); return done()
            if op2 == 0xC6 and pre66:
                reg, m = modrm(); i = s.byte(p); p += 1
                if not is_c(i): raise Undecodable('symbolic shufpd immediate')
                src = list(s.xmm[m[1]]) if m[0] == 'reg' else s.load(ea(m), 16); dst = list(s.xmm[reg])
                s.xmm[reg] = [dst[i & 1], src[(i >> 1) & 1]]; s.written_xmm.add(reg); return done()
            if op2 == 0xE6 and preF3:
                reg, m = modrm(); v = s.xmm[m[1]][0] if m[0] == 'reg' else s.load(ea(m), 8)
                s.xmm[reg] = [i2d(trunc(v, 32)), i2d(trunc(v >> 32 if is_c(v) else z3.LShR(v, 32), 32))]; s.written_xmm.add(reg); return done()
            if op2 == 0x38 and pre66:
                op3 = s.byte(p); p += 1
                if op3 in (0xDC, 0xDE):
                    reg, m = modrm(); src = list(s.xmm[m[1]]) if m[0] == 'reg' else s.load(ea(m), 16); dst = s.xmm[reg]
                    if all(is_c(x) for x in list(dst) + list(src)):      # concrete mode (model validation): FIPS-197 round from spec/aes_ref
                        from spec import aes_ref
                        tb = lambda v: list((v[0] | (v[1] << 64)).to_bytes(16, 'little'))
                        o = int.from_bytes(bytes((aes_ref.aesenc if op3 == 0xDC else aes_ref.aesdec)(tb(dst), tb(src))), 'little')
                        s.xmm[reg] = [o & ((1 << 64) - 1), o >> 64]; s.written_xmm.add(reg); return done()
                    f = AESENC if op3 == 0xDC else AESDEC
                    r_ = f(z3.Concat(bv(dst[1], 64), bv(dst[0], 64)), z3.Concat(bv(src[1], 64), bv(src[0], 64)))
                    s.xmm[reg] = [z3.Extract(63, 0, r_), z3.Extract(127, 64, r_)]; s.written_xmm.add(reg); return done()
                raise Undecodable('0F 38 %02x' % op3)
            if 0x90 <= op2 <= 0x9F:
                reg, m = modrm(); c = s.cond(op2 & 15)
                if m[0] != 'reg': raise Undecodable('setcc mem')
                s.wr(m[1], zx(bv(c, 1), 1, 8) if not is_c(c) else c, 8); return done()
            raise Undecodable('0F %02x at %d' % (op2, start))
        raise Undecodable('opcode %02x at %d' % (op, start))

    def alu(s, kind, a, b, w):
        if kind in ('add', 'sub') and (isinstance(a, Ptr) or isinstance(b, Ptr)):
            if w != 64: raise Fault('32-bit arithmetic on a pointer')
            if kind == 'sub':
                if isinstance(b, Ptr): raise Fault('sub of pointer')
                b = arith('sub', 0, b, 64)
            s.undef_flags(); return s.padd(a, b)
        if isinstance(a, Ptr) or isinstance(b, Ptr):
            if kind == 'xor' and isinstance(a, Ptr) and isinstance(b, Ptr) and a.obj == b.obj and is_c(a.off) and a.off == b.off:
                s.flags_logic(0, w); return 0
            raise Fault('%s on a pointer' % kind)
        if kind in ('cmp', 'sub'):
            res = arith('sub', a, b, w); s.flags_sub(a, b, res, w); return res
        if kind == 'add':
            res = arith('add', a, b, w); s.flags_add(a, b, res, w); return res
        if kind == 'test':
            res = arith('and', a, b, w); s.flags_logic(res, w); return res
        if kind == 'xor' and not is_c(a) and not is_c(b) and a.eq(b): s.flags_logic(0, w); return 0
        res = arith(kind, a, b, w); s.flags_logic(res, w); return res

    # ---------- running
    def run(s, start, stop=None, max_steps=5000):
        """executes from offset `start` until rip is in `stop` (set of offsets) or a ret from the outermost frame.
        returns ('stop', offset) | ('ret', return-address) | ('leave', target)"""
        s.rip = start; stop = stop or set(); depth = 0
        for _ in range(max_steps):
            if s.rip in stop: return ('stop', s.rip)
            if s.rip in s.call_hooks:
                s.call_hooks[s.rip](s); continue
            r = s.step()
            if r is None: continue
            if r[0] == 'ret':
                ra = r[1]
                if depth == 0: return ('ret', ra)
                depth -= 1
                if not (isinstance(ra, Ptr) and ra.obj == s.code and is_c(ra.off)): raise Fault('return to a non-code address %s' % str(ra)[:60])
                s.rip = ra.off; continue
            if r[0] == 'call': depth += 1; s.rip = r[1]; continue
            if r[0] == 'jmp': s.rip = r[1]; continue
            if r[0] == 'jcc':
                c, tgt = r[1], r[2]
                if s.decide(c):
                    if isinstance(tgt, tuple): return ('leave', tgt)
                    s.rip = tgt
                continue
        raise Fault('step bound exceeded (unwinding assertion)')

def disasm_lengths(code_bytes, start, end):
    """instruction boundaries according to this decoder (for validation against objdump)"""
    mem = Mem(); mem.alloc(len(code_bytes), 'code')
    for i, b in enumerate(code_bytes): mem.objs['code']['bytes'][i] = b
    out = []; p = start
    while p < end:
        m = Machine(mem, 'code'); m.rip = p
        for r in range(16): m.gpr[r] = Ptr('dummy%d' % r, 0)
        L = decode_length(m, p); out.append((p, L)); p += L
    return out
