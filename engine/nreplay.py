# native replay of solver counterexamples against the REAL code: the library and a thin shim are built from the current tree, the solver's
# assignment becomes the concrete machine state, the real functions run on the host CPU, and the outcome is compared with the
# specification model evaluated on the same values.  "reproduced" = the real code deviates from the specification on that input.
import os, ctypes, struct, subprocess, random, z3
from engine import build, irsym
from engine.ceval import ceval, ArrVal
from spec import params as P, vm_ref as V

def build_shim_so(tag):
    lib = build.native_lib(tag); d = build.workdir(tag); so = os.path.join(d, 'libshim.so')
    build.run(['g++', '-std=gnu++11', '-O1', '-maes', '-fPIC', '-shared', '-w', '-D' + build.GUARD, '-I', os.path.join(build.REPO, 'src'),
               os.path.join(build.VERIF, 'replay', 'shim.cpp'), lib, '-o', so, '-Wl,-rpath,' + d])
    return so
def load_shim(so):
    L = ctypes.CDLL(so)
    L.verif_interp_step.restype = ctypes.c_int; L.verif_jit_emit.restype = ctypes.c_int
    return L
def build_shim(tag): return load_shim(build_shim_so(tag))

class Env:
    """the solver's assignment (model completion: anything the model leaves open is 0)"""
    def __init__(s, md): s.md = md or {}
    def __call__(s, name, default=0):
        v = s.md.get(name, default); return v if isinstance(v, int) else default
    def array(s, name):
        v = s.md.get(name)
        if isinstance(v, dict) and 'array_default' in v:
            d0 = v['array_default']; st = {int(k): b for k, b in v['stores'].items()}
            return ArrVal(lambda i, d0=d0: d0, st)
        return ArrVal(lambda i: 0)

def _fp(L):
    from engine import x86native
    nl = x86native.lib(); OPS = {'fadd': 0, 'fsub': 1, 'fmul': 2, 'fdiv': 3, 'fsqrt': 4}
    return lambda name, rm, args: nl.fp_op(OPS[name], 0x9FC0 | (rm << 13), args[0], args[1] if len(args) > 1 else 0)

def _rcp(d):
    d &= 0xffffffff
    if d == 0 or d & (d - 1) == 0: return 0
    return (1 << (63 + d.bit_length())) // d & ((1 << 64) - 1)

def spec_step_concrete(kind, word, state, i, v2, fp):
    """spec/vm_ref.step on concrete values.  word: dict of ints; state: r[8], f/e/a [4][2], sp ArrVal, fprc, q[2], usage[8]"""
    W = dict(opcode=z3.BitVecVal(word['opcode'], 8), dst=z3.BitVecVal(word['dst'], 8), src=z3.BitVecVal(word['src'], 8), mod=z3.BitVecVal(word['mod'], 8), imm32=z3.BitVecVal(word['imm32'], 32))
    A = z3.Array('sp_mem', z3.BitVecSort(64), z3.BitVecSort(8))
    bvv = lambda v, w=64: z3.BitVecVal(v, w)
    st = dict(r=[bvv(x) for x in state['r']], f=[[bvv(x) for x in p] for p in state['f']], e=[[bvv(x) for x in p] for p in state['e']], a=[[bvv(x) for x in p] for p in state['a']],
              sp=A, fprc=bvv(state['fprc'], 2), q=[bvv(x) for x in state['q']], usage=[bvv(x & 0xffffffff, 32) for x in state['usage']])
    out = V.step(kind, W, st, z3.BitVecVal(i, 32), z3.BoolVal(bool(v2)))
    env = {'sp_mem': state['sp']}; memo = {}
    def ev(t):
        if isinstance(t, int): return t
        return ceval(t, env, fp, memo, ufs={'rcp': _rcp})
    # the reciprocal is an uninterpreted function in the model: evaluate it with the specification formula
    res = dict(r=[ev(x) for x in out['r']], f=[[ev(x) for x in p] for p in out['f']], e=[[ev(x) for x in p] for p in out['e']], usage=[ev(x) for x in out['usage']],
               fprc=ev(out['fprc']), next=ev(out['next']), sp=ev(out['sp']))
    return res

SPSIZE = P.L3
def _state_from(env, L3=SPSIZE):
    r = [env('r%d' % k) for k in range(8)]
    g = lambda n: [[env('%s%d_%d' % (n, k, l)) for l in range(2)] for k in range(4)]
    return dict(r=r, f=g('f'), e=g('e'), a=g('a'), q=[env('q14'), env('q15')], usage=[env('usage%d' % k, 0xffffffff) for k in range(8)], fprc=(env('mxcsr') >> 13) & 3, sp=env.array('sp_mem'))

def _emask(q):
    t = V.emask_of(z3.BitVecVal(q, 64)); return z3.simplify(t).as_long()

def _kind(opcode): return [k for k in P.ORDER if P.RANGE[k][0] <= opcode < P.RANGE[k][1]][0]

def _sp_buffer(arr):
    d = arr.default(0); buf = ctypes.create_string_buffer(bytes([d]) * SPSIZE, SPSIZE)
    for i, b in arr.upd.items():
        if 0 <= i < SPSIZE: buf[i] = bytes([b])
    return buf

def _cmp_state(native, spec, diffs, groups=('r', 'f', 'e', 'usage', 'fprc', 'next')):
    for g in groups:
        a, b = native.get(g), spec.get(g)
        if a is None: continue
        if a != b: diffs.append('%s: real code %s, specification %s' % (g, _h(a), _h(b)))
def _h(x):
    if isinstance(x, list): return '[' + ', '.join(_h(y) for y in x) + ']'
    return hex(x)

def replay_I1(L, case, md, name=''):
    """one instruction word through the real BytecodeMachine::compileInstruction + executeInstruction"""
    env = Env(md); fp = _fp(L)
    word = dict(opcode=env('opcode'), dst=(env('dst_hi') << 3) | case['dst'], src=(env('src_hi') << 3) | case['src'], mod=env('mod'), imm32=env('imm32'))
    i = env('i'); flags = env('flags'); st = _state_from(env); kind = _kind(word['opcode'])
    from lemmas.isa import flag_v2
    v2 = bool(flags & flag_v2())
    spec = spec_step_concrete(kind, word, st, i, v2, fp)
    # native
    nreg = (ctypes.c_uint64 * 32)()
    for k in range(8): nreg[k] = st['r'][k]
    for gi, g in enumerate(('f', 'e', 'a')):
        for k in range(4):
            for l in range(2): nreg[8 + 8 * gi + 2 * k + l] = st[g][k][l]
    cfg = (ctypes.c_uint64 * 4)(); cfg[0] = _emask(st['q'][0]); cfg[1] = _emask(st['q'][1])
    cfg[2] = env('readReg0') | (env('readReg1') << 32); cfg[3] = env('readReg2') | (env('readReg3') << 32)
    usage = (ctypes.c_int32 * 8)(*[u - (1 << 32) if u >> 31 else u for u in st['usage']])
    sp = _sp_buffer(st['sp']); sp0 = bytes(sp.raw)
    mx = ctypes.c_uint32(0x9FC0 | (st['fprc'] << 13))
    ins = (ctypes.c_uint8 * 8)(word['opcode'], word['dst'], word['src'], word['mod'], *list(struct.pack('<I', word['imm32'])))
    nxt = L.verif_interp_step(ins, i, flags, usage, nreg, sp, cfg, ctypes.byref(mx))
    nat = dict(r=[nreg[k] for k in range(8)], f=[[nreg[8 + 2 * k + l] for l in range(2)] for k in range(4)], e=[[nreg[16 + 2 * k + l] for l in range(2)] for k in range(4)],
               usage=[u & 0xffffffff for u in usage], fprc=(mx.value >> 13) & 3, next=nxt & 0xffffffff)
    diffs = []; _cmp_state(nat, spec, diffs)
    exp = bytearray(sp0)
    for a, b in spec['sp'].upd.items():
        if 0 <= a < SPSIZE: exp[a] = b
    if bytes(exp) != bytes(sp.raw):
        k = next(j for j in range(SPSIZE) if exp[j] != sp.raw[j]); diffs.append('scratchpad[%d]: real code %#x, specification %#x' % (k, sp.raw[k], exp[k]))
    desc = '%s word=%s i=%d v2=%d' % (kind, word, i, v2)
    return bool(diffs), desc, diffs

def replay_J1(L, case, md, name=''):
    """the real emitter (JitCompilerX86::generateCode, native) produces the fragment for the solver's instruction word; the fragment runs on the
    host CPU from the solver's machine state; the outcome is compared with the specification step"""
    import re
    from engine import x86native
    from lemmas.isa import flag_v2
    env = Env(md); fp = _fp(L); m = re.search(r'\(op (\d+)\) d(\d) s(\d)', name)
    if not m: return False, 'cannot identify the case from %r' % name, []
    opcode, dst, src = int(m.group(1)), int(m.group(2)), int(m.group(3)); kind = _kind(opcode)
    word = dict(opcode=opcode, dst=dst, src=src, mod=env('mod'), imm32=env('imm32'))
    v2 = bool(env('v2')); flags = (env('flag_other') & ~flag_v2()) | (flag_v2() if v2 else 0)
    NOFF = 6; BASE = 4096; branch = kind == 'CBRANCH'; i = NOFF if branch else env('i')
    st = _state_from(env)
    offs = (ctypes.c_int32 * 8)(*[64 * k for k in range(8)])
    usage = (ctypes.c_int32 * 8)(*[u - (1 << 32) if u >> 31 else u for u in st['usage']])
    ins = (ctypes.c_uint8 * 8)(opcode, dst, src, word['mod'], *list(struct.pack('<I', word['imm32'])))
    out = (ctypes.c_uint8 * 64)()
    n = L.verif_jit_emit(ins, i, flags, usage, offs, NOFF if branch else 0, BASE, out, 64)
    code = bytes(out[:n])
    # specification: one step; a branch taken onto its own start re-executes the instruction
    cur = dict(st); spec = None; steps = 0
    while True:
        spec = spec_step_concrete(kind, word, cur, i, v2, fp); steps += 1
        if not (branch and spec['next'] == i and steps < 4): break
        cur = dict(cur); cur['r'] = spec['r']; cur['usage'] = spec['usage']
    # native run
    ar = x86native.Arena(0); arr = st['sp']; d0 = arr.default(0); b = bytearray(bytes([d0]) * x86native.SPSIZE)
    for a_, v_ in arr.upd.items():
        if 0 <= a_ < x86native.SPSIZE: b[a_] = v_
    ar.sp0 = bytes(b)
    stub = ar.L.get_ret_stub(); tail = b'\xff\x25\x00\x00\x00\x00' + int(stub).to_bytes(8, 'little')
    ar.code.seek(0); ar.code.write(b'\xcc' * 8192)
    if branch:
        for k in range(NOFF): ar.code.seek(64 * k); ar.code.write(b'\xb8' + struct.pack('<I', 0xA0 + k) + tail)
    ar.code.seek(BASE); ar.code.write(code + (b'\xb8' + struct.pack('<I', 0xFF) if branch else b'') + tail)
    S0 = x86native.St()
    for k in range(8): S0.gpr[8 + k] = st['r'][k]
    S0.gpr[0] = env('rax0'); S0.gpr[1] = env('rcx0'); S0.gpr[2] = env('rdx0'); S0.gpr[3] = env('rbx0'); S0.gpr[5] = env('rbp0'); S0.gpr[6] = ar.sp_addr; S0.gpr[7] = 0
    for gi, g in enumerate(('f', 'e', 'a')):
        for k in range(4):
            for l in range(2): S0.xmm[4 * gi + k][l] = st[g][k][l]
    for l in range(2): S0.xmm[12][l] = env('xmm12_%d' % l); S0.xmm[13][l] = (1 << 56) - 1; S0.xmm[14][l] = _emask(st['q'][l]); S0.xmm[15][l] = 0x80F0000000000000
    S0.mxcsr = 0x9FC0 | (st['fprc'] << 13)
    ctypes.memmove(ar.sp, ar.sp0, x86native.SPSIZE)
    ar.L.run_snippet(ar.code_addr + BASE, ctypes.byref(S0))
    nat = dict(r=[S0.gpr[8 + k] for k in range(8)], f=[[S0.xmm[k][l] for l in range(2)] for k in range(4)], e=[[S0.xmm[4 + k][l] for l in range(2)] for k in range(4)],
               usage=[u & 0xffffffff for u in usage], fprc=(S0.mxcsr >> 13) & 3)
    if branch:
        land = S0.gpr[0] & 0xffffffff; nat['next'] = (land - 0xA0) if 0xA0 <= land < 0xA0 + NOFF else (i + 1 if land == 0xFF else 0xdead)
    diffs = []; _cmp_state(nat, spec, diffs)
    for k in range(4):
        for l in range(2):
            if S0.xmm[8 + k][l] != st['a'][k][l]: diffs.append('a%d[%d] changed' % (k, l))
    for rr, nm in ((3, 'rbx'), (5, 'rbp'), (7, 'rdi')):
        if S0.gpr[rr] != (env(nm + '0') if rr != 7 else 0): diffs.append('%s not preserved' % nm)
    if n > 32: diffs.append('emitted %d bytes > 32' % n)
    exp = bytearray(ar.sp0)
    for a_, v_ in spec['sp'].upd.items():
        if 0 <= a_ < x86native.SPSIZE: exp[a_] = v_
    got = bytes(ar.sp.raw)
    if bytes(exp) != got:
        k = next(j for j in range(x86native.SPSIZE) if exp[j] != got[j]); diffs.append('scratchpad[%d]: real code %#x, specification %#x' % (k, got[k], exp[k]))
    return bool(diffs), '%s word=%s i=%d v2=%d emitted=[%s]' % (kind, word, i, v2, ' '.join('%02x' % x for x in code)), diffs

def _blake_state(L, env, buflen, f0=0):
    o = (ctypes.c_int * 8)(); L.verif_blake_layout(o); lay = dict(h=o[0], t=o[1], f=o[2], buf=o[3], buflen=o[4], outlen=o[5], last=o[6], size=o[7])
    st = dict(h=[env('h%d' % i) for i in range(8)], t=[env('t0'), env('t1')], f=[f0, env('f1')], buf=[env('b%d' % i) for i in range(128)], buflen=buflen,
              outlen=env('S_outlen') & 0xffffffff, last=env('last_node') & 0xff)
    S = ctypes.create_string_buffer(lay['size'])
    for i in range(8): struct.pack_into('<Q', S, lay['h'] + 8 * i, st['h'][i])
    for i in range(2): struct.pack_into('<Q', S, lay['t'] + 8 * i, st['t'][i]); struct.pack_into('<Q', S, lay['f'] + 8 * i, st['f'][i])
    for i in range(128): S[lay['buf'] + i] = bytes([st['buf'][i]])
    struct.pack_into('<I', S, lay['buflen'], buflen); struct.pack_into('<I', S, lay['outlen'], st['outlen']); S[lay['last']] = bytes([st['last']])
    return S, st, lay

def replay_B2(L, case, md, name=''):
    """real blake2b_update (with the real compression function) from the solver's state vs RFC 7693 byte-wise streaming"""
    import re
    from spec import blake2b_ref as ref
    m = re.search(r'update\(buflen=(\d+),n=(\d+)\)', name)
    if not m: return False, 'cannot identify the case from %r' % name, []
    buflen, n = int(m.group(1)), int(m.group(2)); env = Env(md)
    S, st, lay = _blake_state(L, env, buflen)
    data = bytes(env('in%d' % i) & 0xff for i in range(n))
    r = L.verif_blake_update(S, data, ctypes.c_size_t(n))
    h = list(st['h']); t0, t1 = st['t']; buf = list(st['buf']); bl = buflen
    for byte in data:
        if bl == 128:
            t0 = (t0 + 128) & ref.M64; t1 = (t1 + (1 if t0 < 128 else 0)) & ref.M64
            h = ref.F(h, [int.from_bytes(bytes(buf[8 * i:8 * i + 8]), 'little') for i in range(16)], [t0, t1], st['f']); bl = 0
        buf[bl] = byte; bl += 1
    diffs = []
    if r != 0: diffs.append('returned %d on a valid state' % r)
    got = dict(h=[struct.unpack_from('<Q', S, lay['h'] + 8 * i)[0] for i in range(8)], t=[struct.unpack_from('<Q', S, lay['t'] + 8 * i)[0] for i in range(2)],
               buflen=struct.unpack_from('<I', S, lay['buflen'])[0])
    if got['buflen'] != bl: diffs.append('buflen: real code %d, RFC %d' % (got['buflen'], bl))
    if got['h'] != h: diffs.append('h: real code %s, RFC %s' % (_h(got['h'][:2]), _h(h[:2])))
    if got['t'] != [t0, t1]: diffs.append('t: real code %s, RFC %s' % (_h(got['t']), _h([t0, t1])))
    gb = S.raw[lay['buf']:lay['buf'] + min(bl, got['buflen'])]
    if gb != bytes(buf[:len(gb)]): diffs.append('buffer prefix differs')
    return bool(diffs), 'blake2b_update(buflen=%d, %d input bytes)' % (buflen, n), diffs

def replay_B3(L, case, md, name=''):
    import re
    from spec import blake2b_ref as ref
    m = re.search(r'final\(buflen=(\d+),S.outlen=(\d+),outlen=(\d+)\)', name)
    if not m: return False, 'cannot identify the case from %r' % name, []
    buflen, so, outlen = int(m.group(1)), int(m.group(2)), int(m.group(3)); env = Env(dict(md, S_outlen=so, last_node=0))
    S, st, lay = _blake_state(L, env, buflen)
    out0 = bytes(env('out%d' % i) & 0xff for i in range(80)); out = ctypes.create_string_buffer(out0, 80)
    r = L.verif_blake_final(S, out, ctypes.c_size_t(outlen)); diffs = []
    if outlen < so:
        if r == 0: diffs.append('accepted an output buffer shorter than the digest')
        if out.raw != out0: diffs.append('output written although the call must be rejected')
    else:
        t0 = (st['t'][0] + buflen) & ref.M64; t1 = (st['t'][1] + (1 if t0 < buflen else 0)) & ref.M64
        bufp = st['buf'][:buflen] + [0] * (128 - buflen)
        hh = ref.F(st['h'], [int.from_bytes(bytes(bufp[8 * i:8 * i + 8]), 'little') for i in range(16)], [t0, t1], [ref.M64, st['f'][1]])
        exp = b''.join(x.to_bytes(8, 'little') for x in hh)[:so]
        if r != 0: diffs.append('returned %d' % r)
        if out.raw[:so] != exp: diffs.append('digest: real code %s.., RFC %s..' % (out.raw[:8].hex(), exp[:8].hex()))
        if out.raw[so:] != out0[so:]: diffs.append('bytes beyond the digest length were written')
    return bool(diffs), 'blake2b_final(buflen=%d, S.outlen=%d, outlen=%d)' % (buflen, so, outlen), diffs

def replay_R1(L, case, md, name='', fn='randomx_reciprocal'):
    """real randomx_reciprocal / randomx_reciprocal_fast on the solver's divisor (then on other divisors of the same bit length) vs floor(2^(63+bitlen)/d)"""
    import re
    lib = ctypes.CDLL(os.path.join(os.path.dirname(L._name), [f for f in os.listdir(os.path.dirname(L._name)) if f.startswith('librandomx')][0]))
    f = getattr(lib, fn); f.restype = ctypes.c_uint64; f.argtypes = [ctypes.c_uint32 if fn == 'randomx_reciprocal' else ctypes.c_uint64]
    env = Env(md); cands = []
    for k in ('d_int', 'd'):
        if isinstance(md.get(k), int): cands.append(md[k] & 0xffffffff)
    m = re.search(r'(\d+)-bit', name) or re.search(r'bit length (\d+)', name); rnd = random.Random(7)
    if m:
        b = int(m.group(1)); lo, hi = (1 << (b - 1)) + 1, (1 << b) - 1
        if lo <= hi: cands += [lo, hi] + [rnd.randint(lo, hi) for _ in range(4000)]
    for d in cands:
        if d == 0 or d & (d - 1) == 0: continue
        got = f(d); exp = _rcp(d)
        if got != exp: return True, '%s(%d)' % (fn, d), ['real code %#x, floor(2^(63+bitlen)/d) = %#x' % (got, exp)]
    return False, '%s on %d divisors (solver value first)' % (fn, len(cands)), []
def replay_R2(L, case, md, name=''): return replay_R1(L, case, md, name, 'randomx_reciprocal_fast')

def replay_S4(L, case, md, name=''):
    """one SuperscalarHash instruction through the real interpreter (executeSuperscalar) and through the bytes the real JIT emits for it (host CPU)"""
    import re
    from engine import x86native
    from lemmas.sshash import kind_numbers, spec_ss
    m = re.match(r'(\w+) r(\d), r(\d)', name)
    if not m: return False, 'cannot identify the case from %r' % name, []
    kind, d, s_ = m.group(1), int(m.group(2)), int(m.group(3)); env = Env(md); KN = kind_numbers(); rnd = random.Random(3)
    R = [md.get('r%d' % k) if isinstance(md.get('r%d' % k), int) else rnd.getrandbits(64) for k in range(8)]
    imm32 = env('imm32'); mod = env('mod'); rcp = env('rcp_value', 0x9e3779b97f4a7c15); isr = kind == 'IMUL_RCP'
    ins = (ctypes.c_uint8 * 8)(KN[kind], d, s_, mod, *list(struct.pack('<I', 0 if isr else imm32)))
    bvs = [z3.BitVecVal(x, 64) for x in R]
    exp = list(R); exp[d] = z3.simplify(spec_ss(kind, bvs, d, s_, z3.BitVecVal(imm32, 32), z3.BitVecVal(mod, 8), z3.BitVecVal(rcp, 64))).as_long()
    diffs = []
    ri = (ctypes.c_uint64 * 8)(*R); L.verif_ss_exec(ins, ctypes.c_uint64(rcp), ri)
    if list(ri) != exp: diffs.append('interpreter: r%d = %#x, specification %#x' % (d, ri[d], exp[d]))
    out = (ctypes.c_uint8 * 32)(); n = L.verif_ss_emit(ins, ctypes.c_uint64(rcp), out, 32); code = bytes(out[:n])
    ar = x86native.Arena(0); S0 = x86native.St()
    for k in range(16): S0.gpr[k] = rnd.getrandbits(64)
    for k in range(8): S0.gpr[8 + k] = R[k]
    S0.gpr[6] = ar.sp_addr; S0.mxcsr = 0x1F80
    ar.run_native(code, S0); rn = [S0.gpr[8 + k] for k in range(8)]
    if rn != exp: diffs.append('native code [%s]: r%d = %#x, specification %#x' % (' '.join('%02x' % b for b in code), d, rn[d], exp[d]) if rn[d] != exp[d] else 'native code changes another register')
    return bool(diffs), '%s r%d, r%d imm32=%#x mod=%#x r=%s' % (kind, d, s_, imm32, mod, _h(R)), diffs

NAME_ONLY = ('B2', 'B3', 'R1', 'R2')      # drivers that can run from the case name alone (model may be empty: syntactic mismatch)

def replay_R3(L, case, md, name=''):
    return replay_J1(L, case, md, name) if '(op ' in name else replay_I1(L, case, md, name)

DRIVERS = {'I1': replay_I1, 'J1': replay_J1, 'R3': replay_R3, 'B2': replay_B2, 'B3': replay_B3, 'R1': replay_R1, 'R2': replay_R2, 'S4': replay_S4}

def replay_many(recs, tag='replay-native', timeout=600):
    """replays each record in a child process (the real code may crash on the solver's input -- which is itself a reproduction).
    returns a list of (status, text), status in 'reproduced' | 'not-reproduced' | 'no-driver' | 'error'"""
    import multiprocessing as mp, time
    out = [None] * len(recs); todo = [k for k, r in enumerate(recs) if r.get('lemma') in DRIVERS]
    for k in range(len(recs)):
        if k not in todo: out[k] = ('no-driver', '')
    t_end = time.time() + timeout
    while todo:
        pc, cc = mp.Pipe(False); p = mp.Process(target=_replay_child, args=(cc, [recs[k] for k in todo], tag)); p.start(); cc.close(); done = 0
        while done < len(todo):
            if pc.poll(max(1, t_end - time.time())):
                try: out[todo[done]] = pc.recv(); done += 1
                except EOFError: break
            else: break
        p.join(5)
        if done == len(todo): break
        if p.is_alive():
            p.terminate(); p.join()
            for k in todo[done:]: out[k] = ('error', 'native replay did not finish within %d s' % timeout)
            break
        if p.exitcode is not None and p.exitcode < 0:
            out[todo[done]] = ('reproduced', 'the real code crashed on the solver\'s input (signal %d)' % -p.exitcode); todo = todo[done + 1:]
        else:
            for k in todo[done:]: out[k] = ('error', 'native replay child exited with %s' % p.exitcode)
            break
    return out

def replay_record(rec, tag='replay-native', timeout=300):
    return replay_many([rec], tag, timeout)[0]

def _replay_child(conn, recs, tag):
    try: L = build_shim(tag); err = None
    except Exception as e:
        import traceback
        L = None; err = traceback.format_exc()[-1500:]
    for rec in recs: conn.send(('error', err) if L is None else _replay_record(L, rec))
    conn.close()

FPSYM = __import__('re').compile(r'^[fea]\d_\d$')
def variants(md, n=12):
    """the solver's assignment, then variations of the FP register bit patterns only (the FP operations are uninterpreted in the model, so the
    solver's choice of operands need not separate two real IEEE operations; FP values never influence control flow)"""
    yield md
    rnd = random.Random(1)
    for _ in range(n):
        m2 = dict(md)
        for g in 'fea':
            for k in range(4):
                for l in range(2):
                    v = rnd.choice([1.0, -1.0]) * rnd.uniform(1.0, 2.0) * 2.0 ** rnd.randint(-30, 30)
                    m2['%s%d_%d' % (g, k, l)] = struct.unpack('<Q', struct.pack('<d', abs(v) if g != 'f' else v))[0]
        yield m2

def _replay_record(L, rec):
    lem = rec.get('lemma')
    try:
        out = []
        for name, md in rec.get('failed', [])[:3]:
            if not isinstance(md, dict) or (not md and lem not in NAME_ONLY): continue
            for vi, mdv in enumerate(variants(md) if lem not in NAME_ONLY else [md]):
                rep, desc, diffs = DRIVERS[lem](L, rec.get('case_dict') or {}, mdv, name)
                if vi == 0 or rep: out.append('%s\n   input%s: %s\n   %s' % (name, ' (FP registers varied)' if vi else '', desc, '; '.join(diffs[:4]) if rep else 'real code agrees with the specification on this input'))
                if rep: return 'reproduced', '\n'.join(out)
        return ('not-reproduced' if out else 'no-driver'), '\n'.join(out)
    except Exception as e:
        import traceback
        return 'error', traceback.format_exc()[-1500:]
