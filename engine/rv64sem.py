# RISC-V RV64GC subset semantics (scalar integer, M, D, C, Zicsr frm) over the value domain of irsym / x86sem: ints, z3 terms, Ptr(obj, off).
# Only the instruction forms the RandomX RISC-V back-end emits (jit_compiler_rv64.cpp, scalar path) are modelled; anything else raises
# Undecodable (engine limitation -> INCONCLUSIVE).  Semantics transcribed from the RISC-V unprivileged ISA manual.
# The decoder (lengths, fields, compressed expansions) is cross-checked against llvm-objdump by lemma V0; semantics cannot be validated here.
import z3
from engine.irsym import Ptr, is_c, bv, fpop, i2d
from engine.x86sem import Undecodable, Fault, mk, simp, zx, sx, trunc, arith, b1

M64 = (1 << 64) - 1
XN = ['zero', 'ra', 'sp', 'gp', 'tp', 't0', 't1', 't2', 's0', 's1', 'a0', 'a1', 'a2', 'a3', 'a4', 'a5', 'a6', 'a7', 's2', 's3', 's4', 's5', 's6', 's7', 's8', 's9', 's10', 's11', 't3', 't4', 't5', 't6']
FN = ['ft0', 'ft1', 'ft2', 'ft3', 'ft4', 'ft5', 'ft6', 'ft7', 'fs0', 'fs1', 'fa0', 'fa1', 'fa2', 'fa3', 'fa4', 'fa5', 'fa6', 'fa7', 'fs2', 'fs3', 'fs4', 'fs5', 'fs6', 'fs7', 'fs8', 'fs9', 'fs10', 'fs11', 'ft8', 'ft9', 'ft10', 'ft11']

def sext(v, bits):
    return v - (1 << bits) if v >> (bits - 1) else v

class Machine:
    def __init__(s, mem, code_obj, it=None):
        s.mem = mem; s.code = code_obj; s.it = it
        s.x = [None] * 32; s.x[0] = 0; s.f = [None] * 32; s.frm = None; s.pc = 0
        s.accesses = []; s.written_x = set(); s.written_f = set(); s.disasm = []; s.decode_only = False; s._n = 0; s.lens = []
    # ---- code
    def half(s, off): return s.mem.load(Ptr(s.code, off), 2)
    def field(s, w, hi, lo, what='field', concrete=True, width=32):
        if is_c(w): return (w >> lo) & ((1 << (hi - lo + 1)) - 1)
        t = z3.simplify(z3.Extract(hi, lo, w))
        if z3.is_bv_value(t): return t.as_long()
        if not concrete: return t
        return s.concretize(t, what)
    def concretize(s, t, what):
        if s.it is None: raise Undecodable('symbolic %s' % what)
        for _ in range(70):
            from engine.irsym import min_feasible
            val = min_feasible(s.it.fork['pc'], t)
            if val is None: raise Fault('infeasible path while concretising %s' % what)
            if s.it.decide(z3.If(t == val, z3.BitVecVal(1, 1), z3.BitVecVal(0, 1))): return val
        raise Undecodable('too many values for %s' % what)
    # ---- registers
    def rx(s, r):
        if r == 0: return 0
        v = s.x[r]
        if v is None and s.decode_only: s._n += 1; v = z3.BitVec('dc%d' % s._n, 64)
        if v is None: raise Fault('read of uninitialised register x%d' % r)
        return v
    def wx(s, r, v):
        if r == 0: return
        if r == 2 and isinstance(v, Ptr) and is_c(v.off): s.min_sp = v.off if getattr(s, 'min_sp', None) is None else min(s.min_sp, v.off)
        s.written_x.add(r); s.x[r] = v if isinstance(v, Ptr) else mk(v, 64)
    def rf(s, r):
        v = s.f[r]
        if v is None and s.decode_only: s._n += 1; v = z3.BitVec('dc%d' % s._n, 64)
        if v is None: raise Fault('read of uninitialised register f%d' % r)
        return v
    def wf(s, r, v): s.written_f.add(r); s.f[r] = v
    def padd(s, a, b):
        if isinstance(a, Ptr) and isinstance(b, Ptr): raise Fault('pointer + pointer')
        if isinstance(b, Ptr): a, b = b, a
        if isinstance(a, Ptr):
            if is_c(a.off) and is_c(b):
                b = b - (1 << 64) if b >> 63 else b
                return Ptr(a.obj, a.off + b)
            return Ptr(a.obj, simp(bv(a.off, 64) + bv(b, 64)))
        return arith('add', a, b, 64)
    def load(s, ea, n):
        if s.decode_only: s._n += 1; return z3.BitVec('dc%d' % s._n, 8 * n)
        if not isinstance(ea, Ptr): raise Fault('load through non-pointer address %s' % str(ea)[:80])
        if ea.obj == s.code and not is_c(ea.off): ea = Ptr(ea.obj, s.concretize(bv(ea.off, 64), 'offset of a load from the code/literal object'))
        s.accesses.append(('load', ea.obj, ea.off, n)); return s.mem.load(ea, n)
    def store(s, ea, v, n):
        if s.decode_only: return
        if not isinstance(ea, Ptr): raise Fault('store through non-pointer address %s' % str(ea)[:80])
        s.accesses.append(('store', ea.obj, ea.off, n)); s.mem.store(ea, v, n)
    def rm_rx(s, rmfield):
        """RandomX rounding-mode number for an FP instruction (RISC-V: 0 RNE, 1 RTZ, 2 RDN, 3 RUP; RandomX: 0 nearest, 1 down, 2 up, 3 zero)"""
        if rmfield != 7:
            return {0: 0, 1: 3, 2: 1, 3: 2}[rmfield] if rmfield < 4 else (_ for _ in ()).throw(Undecodable('static rounding mode %d' % rmfield))
        f = s.frm
        if f is None: raise Fault('FP operation with unknown frm')
        if is_c(f):
            if f > 3: raise Fault('reserved dynamic rounding mode %d' % f)
            return {0: 0, 1: 3, 2: 1, 3: 2}[f]
        F = bv(f, 3)
        return z3.If(F == 0, z3.BitVecVal(0, 2), z3.If(F == 2, z3.BitVecVal(1, 2), z3.If(F == 3, z3.BitVecVal(2, 2), z3.BitVecVal(3, 2))))
    def decide(s, c):
        if is_c(c): return c
        if s.it is None: raise Fault('symbolic branch without a forking context')
        return s.it.decide(c)
    # ---- ALU helpers
    def alu(s, op, a, b):
        if op == 'add': return s.padd(a, b)
        if op == 'sub':
            if isinstance(b, Ptr): raise Fault('subtraction of a pointer')
            if isinstance(a, Ptr): return s.padd(a, ((-b) & M64) if is_c(b) else -bv(b, 64))
        if isinstance(a, Ptr) or isinstance(b, Ptr): raise Fault('%s on a pointer' % op)
        A, B = bv(a, 64), bv(b, 64)
        if op in ('sub', 'and', 'or', 'xor'): return arith(op, a, b, 64)
        if op == 'sll': return simp(A << (B & 63))
        if op == 'srl': return simp(z3.LShR(A, B & 63))
        if op == 'sra': return simp(A >> (B & 63))
        if op == 'mul': return simp(A * B)
        if op == 'mulhu': return simp(z3.Extract(127, 64, z3.ZeroExt(64, A) * z3.ZeroExt(64, B)))
        if op == 'mulh': return simp(z3.Extract(127, 64, z3.SignExt(64, A) * z3.SignExt(64, B)))
        if op == 'mulhsu': return simp(z3.Extract(127, 64, z3.SignExt(64, A) * z3.ZeroExt(64, B)))
        if op == 'ror': return simp(z3.RotateRight(A, B & 63))
        if op == 'rol': return simp(z3.RotateLeft(A, B & 63))
        if op == 'slt': return simp(z3.If(A < B, z3.BitVecVal(1, 64), z3.BitVecVal(0, 64)))
        if op == 'sltu': return simp(z3.If(z3.ULT(A, B), z3.BitVecVal(1, 64), z3.BitVecVal(0, 64)))
        raise Undecodable(op)
    # ---- one instruction
    def step(s):
        pc0 = s.pc; lo = s.half(pc0)
        q = s.field(lo, 1, 0, 'length bits')
        if q != 3: return s.step16(lo, pc0)
        hi = s.half(pc0 + 2)
        w = (lo | (hi << 16)) if is_c(lo) and is_c(hi) else z3.simplify(z3.Concat(bv(hi, 16), bv(lo, 16)))
        s.pc = pc0 + 4; s.lens.append(4)
        F = lambda h, l, what='structural field': s.field(w, h, l, what)
        def dis(t): s.disasm.append((pc0, t))
        opc = F(6, 0); rd = F(11, 7)
        if opc not in (0x37, 0x17, 0x6f): f3 = F(14, 12); rs1 = F(19, 15)      # U/J formats have immediate bits there
        immI = lambda: s.simm(s.field(w, 31, 20, 'imm12', concrete=False), 12)
        if opc == 0x37 or opc == 0x17:
            u = s.field(w, 31, 12, 'imm20', concrete=False)
            v = (sext(u << 12, 32) & M64) if is_c(u) else simp(z3.SignExt(32, z3.Concat(u, z3.BitVecVal(0, 12))))
            if opc == 0x37: s.wx(rd, v); dis('lui %s, %s' % (XN[rd], u if is_c(u) else '?'))
            else: s.wx(rd, s.padd(Ptr(s.code, pc0), v)); dis('auipc %s, %s' % (XN[rd], u if is_c(u) else '?'))
            return None
        if opc == 0x13:
            a = s.rx(rs1)
            if f3 in (1, 5):
                f6 = F(31, 26); sh = s.field(w, 25, 20, 'shamt', concrete=False)
                if f3 == 1 and f6 == 0: op, nm = 'sll', 'slli'
                elif f3 == 5 and f6 == 0: op, nm = 'srl', 'srli'
                elif f3 == 5 and f6 == 0x10: op, nm = 'sra', 'srai'
                elif f3 == 5 and f6 == 0x18: op, nm = 'ror', 'rori'
                else: raise Undecodable('OP-IMM shift funct6 %#x' % f6)
                s.wx(rd, s.alu(op, a, sh if is_c(sh) else z3.ZeroExt(58, sh))); dis('%s %s, %s, %s' % (nm, XN[rd], XN[rs1], sh if is_c(sh) else '?')); return None
            imm = immI(); op = {0: 'add', 7: 'and', 6: 'or', 4: 'xor', 2: 'slt', 3: 'sltu'}.get(f3)
            if op is None: raise Undecodable('OP-IMM funct3 %d' % f3)
            s.wx(rd, s.alu(op, a, imm))
            sv = sext(imm, 64) if is_c(imm) else '?'
            if f3 == 0 and is_c(imm) and imm == 0 and rd == 0 and rs1 == 0: dis('nop')
            elif f3 == 0 and rs1 == 0: dis('li %s, %s' % (XN[rd], sv))
            elif f3 == 0 and is_c(imm) and imm == 0: dis('mv %s, %s' % (XN[rd], XN[rs1]))
            elif f3 == 4 and is_c(imm) and sv == -1: dis('not %s, %s' % (XN[rd], XN[rs1]))
            else: dis('%s %s, %s, %s' % ({0: 'addi', 7: 'andi', 6: 'ori', 4: 'xori', 2: 'slti', 3: 'sltiu'}[f3], XN[rd], XN[rs1], sv))
            return None
        if opc == 0x1b:
            a = s.rx(rs1)
            if isinstance(a, Ptr): raise Fault('32-bit arithmetic on a pointer')
            if f3 != 0: raise Undecodable('OP-IMM-32 funct3 %d' % f3)
            imm = immI(); r32 = trunc(arith('add', a, imm, 64), 32); s.wx(rd, sx(r32, 32, 64))
            sv = sext(imm, 64) if is_c(imm) else '?'
            dis(('sext.w %s, %s' % (XN[rd], XN[rs1])) if is_c(imm) and imm == 0 else 'addiw %s, %s, %s' % (XN[rd], XN[rs1], sv)); return None
        if opc == 0x33:
            f7 = F(31, 25); rs2 = F(24, 20); a = s.rx(rs1); b = s.rx(rs2)
            tbl = {(0, 0): 'add', (0x20, 0): 'sub', (0, 1): 'sll', (0, 5): 'srl', (0x20, 5): 'sra', (0, 7): 'and', (0, 6): 'or', (0, 4): 'xor', (0, 2): 'slt', (0, 3): 'sltu',
                   (1, 0): 'mul', (1, 1): 'mulh', (1, 2): 'mulhsu', (1, 3): 'mulhu', (0x30, 5): 'ror', (0x30, 1): 'rol'}
            if (f7, f3) in tbl:
                op = tbl[(f7, f3)]; s.wx(rd, s.alu(op, a, b))
                if op == 'sub' and rs1 == 0: dis('neg %s, %s' % (XN[rd], XN[rs2]))
                else: dis('%s %s, %s, %s' % (op, XN[rd], XN[rs1], XN[rs2]))
                return None
            if f7 == 0x10 and f3 in (2, 4, 6):
                if isinstance(a, Ptr): raise Fault('shNadd of a pointer')
                s.wx(rd, s.padd(b, simp(bv(a, 64) << (f3 // 2)))); dis('sh%dadd %s, %s, %s' % (f3 // 2, XN[rd], XN[rs1], XN[rs2])); return None
            raise Undecodable('OP funct7 %#x funct3 %d' % (f7, f3))
        if opc == 0x03:
            imm = immI(); ea = s.padd(s.rx(rs1), imm); sv = sext(imm, 64) if is_c(imm) else '?'
            if f3 == 3: s.wx(rd, s.load(ea, 8)); nm = 'ld'
            elif f3 == 2: s.wx(rd, sx(s.load(ea, 4), 32, 64)); nm = 'lw'
            elif f3 == 6: s.wx(rd, zx(s.load(ea, 4), 32, 64)); nm = 'lwu'
            else: raise Undecodable('LOAD funct3 %d' % f3)
            dis('%s %s, %s(%s)' % (nm, XN[rd], sv, XN[rs1])); return None
        if opc == 0x07:
            if f3 != 3: raise Undecodable('LOAD-FP funct3 %d' % f3)
            imm = immI(); s.wf(rd, s.load(s.padd(s.rx(rs1), imm), 8)); dis('fld %s, %s(%s)' % (FN[rd], sext(imm, 64) if is_c(imm) else '?', XN[rs1])); return None
        if opc in (0x23, 0x27):
            rs2 = F(24, 20); i_hi = s.field(w, 31, 25, 'imm', concrete=False); i_lo = s.field(w, 11, 7, 'imm', concrete=False)
            imm = s.simm((i_hi << 5 | i_lo) if is_c(i_hi) and is_c(i_lo) else z3.Concat(bv(i_hi, 7), bv(i_lo, 5)), 12); ea = s.padd(s.rx(rs1), imm); sv = sext(imm, 64) if is_c(imm) else '?'
            if opc == 0x27:
                if f3 != 3: raise Undecodable('STORE-FP funct3 %d' % f3)
                s.store(ea, s.rf(rs2), 8); dis('fsd %s, %s(%s)' % (FN[rs2], sv, XN[rs1])); return None
            v = s.rx(rs2)
            if f3 == 3: s.store(ea, v, 8); nm = 'sd'
            elif f3 == 2:
                if isinstance(v, Ptr): raise Fault('32-bit store of a pointer')
                s.store(ea, trunc(v, 32), 4); nm = 'sw'
            else: raise Undecodable('STORE funct3 %d' % f3)
            dis('%s %s, %s(%s)' % (nm, XN[rs2], sv, XN[rs1])); return None
        if opc == 0x63:
            rs2 = F(24, 20)
            parts = [s.field(w, 31, 31, 'b', concrete=False), s.field(w, 7, 7, 'b', concrete=False), s.field(w, 30, 25, 'b', concrete=False), s.field(w, 11, 8, 'b', concrete=False)]
            if all(is_c(p) for p in parts): off = sext((parts[0] << 12) | (parts[1] << 11) | (parts[2] << 5) | (parts[3] << 1), 13)
            else: off = z3.Concat(bv(parts[0], 1), bv(parts[1], 1), bv(parts[2], 6), bv(parts[3], 4), z3.BitVecVal(0, 1))
            a, b = s.rx(rs1), s.rx(rs2)
            if isinstance(a, Ptr) or isinstance(b, Ptr): raise Fault('branch comparing a pointer')
            A_, B_ = bv(a, 64), bv(b, 64)
            if f3 == 0: c = b1(A_ == B_); nm = 'beq'
            elif f3 == 1: c = b1(A_ != B_); nm = 'bne'
            elif f3 == 4: c = b1(A_ < B_); nm = 'blt'
            elif f3 == 5: c = b1(A_ >= B_); nm = 'bge'
            elif f3 == 6: c = b1(z3.ULT(A_, B_)); nm = 'bltu'
            elif f3 == 7: c = b1(z3.UGE(A_, B_)); nm = 'bgeu'
            else: raise Undecodable('BRANCH funct3 %d' % f3)
            tgt = pc0 + off if is_c(off) else ('sym', pc0, off)
            if rs2 == 0: dis('%sz %s, %s' % (nm, XN[rs1], ('%#x' % tgt) if is_c(off) else '?'))
            else: dis('%s %s, %s, %s' % (nm, XN[rs1], XN[rs2], ('%#x' % tgt) if is_c(off) else '?'))
            return ('jcc', c, tgt)
        if opc == 0x6f:
            parts = [s.field(w, 31, 31, 'j', concrete=False), s.field(w, 19, 12, 'j', concrete=False), s.field(w, 20, 20, 'j', concrete=False), s.field(w, 30, 21, 'j', concrete=False)]
            if all(is_c(p) for p in parts): off = sext((parts[0] << 20) | (parts[1] << 12) | (parts[2] << 11) | (parts[3] << 1), 21); tgt = pc0 + off
            else: off = z3.Concat(bv(parts[0], 1), bv(parts[1], 8), bv(parts[2], 1), bv(parts[3], 10), z3.BitVecVal(0, 1)); tgt = ('sym', pc0, off)
            s.wx(rd, Ptr(s.code, pc0 + 4)); dis(('j %s' if rd == 0 else ('jal %s' if rd == 1 else 'jal ' + XN[rd] + ', %s')) % (('%#x' % tgt) if is_c(off) else '?')); return ('jmp', tgt)
        if opc == 0x67:
            if f3 != 0: raise Undecodable('JALR funct3')
            imm = immI(); t = s.padd(s.rx(rs1), imm); s.wx(rd, Ptr(s.code, pc0 + 4)); dis('ret' if (rd == 0 and rs1 == 1 and is_c(imm) and imm == 0) else 'jalr %s, %s(%s)' % (XN[rd], imm, XN[rs1])); return ('ret', t)
        if opc == 0x53:
            f7 = F(31, 25); rs2 = F(24, 20); rmf = f3
            two = {0x01: 'fadd', 0x05: 'fsub', 0x09: 'fmul', 0x0d: 'fdiv'}
            if f7 in two:
                s.wf(rd, fpop(two[f7], s.rm_rx(rmf), s.rf(rs1), s.rf(rs2))); dis('%s.d %s, %s, %s%s' % (two[f7], FN[rd], FN[rs1], FN[rs2], '' if rmf == 7 else ', rm%d' % rmf)); return None
            if f7 == 0x2d and rs2 == 0: s.wf(rd, fpop('fsqrt', s.rm_rx(rmf), s.rf(rs1))); dis('fsqrt.d %s, %s' % (FN[rd], FN[rs1])); return None
            if f7 == 0x11 and f3 == 0:
                a, b = s.rf(rs1), s.rf(rs2)
                if rs1 == rs2: s.wf(rd, a); dis('fmv.d %s, %s' % (FN[rd], FN[rs1]))
                else: s.wf(rd, simp(z3.Concat(z3.Extract(63, 63, bv(b, 64)), z3.Extract(62, 0, bv(a, 64))))); dis('fsgnj.d %s, %s, %s' % (FN[rd], FN[rs1], FN[rs2]))
                return None
            if f7 == 0x71 and f3 == 0 and rs2 == 0: s.wx(rd, s.rf(rs1)); dis('fmv.x.d %s, %s' % (XN[rd], FN[rs1])); return None
            if f7 == 0x79 and f3 == 0 and rs2 == 0:
                v = s.rx(rs1)
                if isinstance(v, Ptr): raise Fault('pointer moved into an FP register')
                s.wf(rd, v); dis('fmv.d.x %s, %s' % (FN[rd], XN[rs1])); return None
            if f7 == 0x69 and rs2 == 0:
                v = s.rx(rs1)
                if isinstance(v, Ptr): raise Fault('conversion of a pointer')
                s.wf(rd, i2d(v & 0xffffffff if is_c(v) else simp(z3.Extract(31, 0, bv(v, 64))))); dis('fcvt.d.w %s, %s' % (FN[rd], XN[rs1])); return None     # exact for every int32: rm irrelevant
            raise Undecodable('OP-FP funct7 %#x' % f7)
        if opc == 0x73:
            csr = F(31, 20)
            if f3 == 1 and csr == 2:
                v = s.rx(rs1)
                if isinstance(v, Ptr): raise Fault('pointer written to frm')
                old = s.frm; s.frm = (v & 7) if is_c(v) else simp(z3.Extract(2, 0, bv(v, 64)))
                if rd != 0:
                    if old is None: raise Fault('read of unknown frm')
                    s.wx(rd, zx(old, 3, 64) if not is_c(old) else old)
                dis('fsrm %s' % XN[rs1] if rd == 0 else 'fsrm %s, %s' % (XN[rd], XN[rs1])); return None
            raise Undecodable('SYSTEM csr %#x funct3 %d' % (csr, f3))
        raise Undecodable('RV64 word %s at %#x' % (hex(w) if is_c(w) else str(w)[:60], pc0))
    def simm(s, v, bits):
        if is_c(v): return sext(v, bits) & M64
        return simp(z3.SignExt(64 - bits, v))
    def step16(s, w, pc0):
        s.pc = pc0 + 2; s.lens.append(2)
        F = lambda h, l, what='structural field': s.field(w, h, l, what)
        SF = lambda h, l: s.field(w, h, l, 'imm', concrete=False)
        def dis(t): s.disasm.append((pc0, t))
        def cat(parts):      # [(value, nbits)] msb first
            if all(is_c(v) for v, n in parts):
                r = 0
                for v, n in parts: r = (r << n) | v
                return r
            return z3.simplify(z3.Concat(*[bv(v, n) for v, n in parts]))
        q = F(1, 0); f3 = F(15, 13)
        if q == 0:
            rdp = 8 + F(4, 2); rs1p = 8 + F(9, 7)
            if f3 == 2 or f3 == 6:
                u = cat([(SF(5, 5), 1), (SF(12, 10), 3), (SF(6, 6), 1), (0, 2)]); ea = s.padd(s.rx(rs1p), u if is_c(u) else z3.ZeroExt(57, u))
                if f3 == 2: s.wx(rdp, sx(s.load(ea, 4), 32, 64)); dis('lw %s, %s(%s)' % (XN[rdp], u if is_c(u) else '?', XN[rs1p]))
                else:
                    v = s.rx(rdp)
                    if isinstance(v, Ptr): raise Fault('32-bit store of a pointer')
                    s.store(ea, trunc(v, 32), 4); dis('sw %s, %s(%s)' % (XN[rdp], u if is_c(u) else '?', XN[rs1p]))
                return None
            if f3 == 3 or f3 == 7:
                u = cat([(SF(6, 5), 2), (SF(12, 10), 3), (0, 3)]); ea = s.padd(s.rx(rs1p), u if is_c(u) else z3.ZeroExt(56, u))
                if f3 == 3: s.wx(rdp, s.load(ea, 8)); dis('ld %s, %s(%s)' % (XN[rdp], u if is_c(u) else '?', XN[rs1p]))
                else: s.store(ea, s.rx(rdp), 8); dis('sd %s, %s(%s)' % (XN[rdp], u if is_c(u) else '?', XN[rs1p]))
                return None
            if f3 in (1, 5):
                u = cat([(SF(6, 5), 2), (SF(12, 10), 3), (0, 3)]); ea = s.padd(s.rx(rs1p), u if is_c(u) else z3.ZeroExt(56, u))
                if f3 == 1: s.wf(rdp, s.load(ea, 8)); dis('fld %s, %s(%s)' % (FN[rdp], u if is_c(u) else '?', XN[rs1p]))
                else: s.store(ea, s.rf(rdp), 8); dis('fsd %s, %s(%s)' % (FN[rdp], u if is_c(u) else '?', XN[rs1p]))
                return None
            raise Undecodable('C quadrant 0 funct3 %d' % f3)
        if q == 1:
            rd = F(11, 7); imm6 = cat([(SF(12, 12), 1), (SF(6, 2), 5)])
            simm6 = (sext(imm6, 6) & M64) if is_c(imm6) else simp(z3.SignExt(58, imm6)); sv = sext(imm6, 6) if is_c(imm6) else '?'
            if f3 == 0:
                s.wx(rd, s.padd(s.rx(rd), simm6)); dis('nop' if rd == 0 else 'addi %s, %s, %s' % (XN[rd], XN[rd], sv)); return None
            if f3 == 1:
                a = s.rx(rd)
                if isinstance(a, Ptr): raise Fault('32-bit arithmetic on a pointer')
                s.wx(rd, sx(trunc(arith('add', a, simm6, 64), 32), 32, 64)); dis(('sext.w %s, %s' % (XN[rd], XN[rd])) if sv == 0 else 'addiw %s, %s, %s' % (XN[rd], XN[rd], sv)); return None
            if f3 == 2: s.wx(rd, simm6); dis('li %s, %s' % (XN[rd], sv)); return None
            if f3 == 3:
                if rd == 2:
                    parts = cat([(SF(12, 12), 1), (SF(4, 3), 2), (SF(5, 5), 1), (SF(2, 2), 1), (SF(6, 6), 1), (0, 4)])
                    if not is_c(parts): raise Undecodable('symbolic c.addi16sp')
                    d = sext(parts, 10); s.wx(2, s.padd(s.rx(2), d & M64)); dis('addi sp, sp, %d' % d); return None
                v = (sext(imm6, 6) << 12) & M64 if is_c(imm6) else simp(z3.SignExt(46, z3.Concat(imm6, z3.BitVecVal(0, 12))))
                s.wx(rd, v); dis('lui %s, %s' % (XN[rd], (sext(imm6, 6) & 0xfffff) if is_c(imm6) else '?')); return None
            if f3 == 4:
                sub = F(11, 10); rdp = 8 + F(9, 7)
                if sub in (0, 1):
                    sh = imm6
                    s.wx(rdp, s.alu('srl' if sub == 0 else 'sra', s.rx(rdp), sh if is_c(sh) else z3.ZeroExt(58, sh))); dis('%s %s, %s, %s' % ('srli' if sub == 0 else 'srai', XN[rdp], XN[rdp], sh if is_c(sh) else '?')); return None
                if sub == 2: s.wx(rdp, s.alu('and', s.rx(rdp), simm6)); dis('andi %s, %s, %s' % (XN[rdp], XN[rdp], sv)); return None
                rs2p = 8 + F(4, 2); b12 = F(12, 12); fn = F(6, 5)
                if b12 == 0:
                    op = ['sub', 'xor', 'or', 'and'][fn]; s.wx(rdp, s.alu(op, s.rx(rdp), s.rx(rs2p))); dis('%s %s, %s, %s' % (op, XN[rdp], XN[rdp], XN[rs2p])); return None
                raise Undecodable('c.subw/c.addw')
            if f3 == 5:
                off = cat([(SF(12, 12), 1), (SF(8, 8), 1), (SF(10, 9), 2), (SF(6, 6), 1), (SF(7, 7), 1), (SF(2, 2), 1), (SF(11, 11), 1), (SF(5, 3), 3), (0, 1)])
                if not is_c(off): raise Undecodable('symbolic c.j')
                t = pc0 + sext(off, 12); dis('j %#x' % t); return ('jmp', t)
            rs1p = 8 + F(9, 7); off = cat([(SF(12, 12), 1), (SF(6, 5), 2), (SF(2, 2), 1), (SF(11, 10), 2), (SF(4, 3), 2), (0, 1)])
            a = s.rx(rs1p)
            if isinstance(a, Ptr): raise Fault('branch on a pointer')
            c = b1(bv(a, 64) == 0) if f3 == 6 else b1(bv(a, 64) != 0)
            tgt = pc0 + sext(off, 9) if is_c(off) else ('sym', pc0, off)
            dis('%s %s, %s' % ('beqz' if f3 == 6 else 'bnez', XN[rs1p], ('%#x' % tgt) if is_c(off) else '?')); return ('jcc', c, tgt)
        if q == 2:
            rd = F(11, 7); rs2 = F(6, 2)
            if f3 == 0:
                sh = cat([(SF(12, 12), 1), (SF(6, 2), 5)]); s.wx(rd, s.alu('sll', s.rx(rd), sh if is_c(sh) else z3.ZeroExt(58, sh))); dis('slli %s, %s, %s' % (XN[rd], XN[rd], sh if is_c(sh) else '?')); return None
            if f3 == 4:
                b12 = F(12, 12)
                if b12 == 0:
                    if rs2 == 0: t = s.rx(rd); dis('ret' if rd == 1 else 'jr %s' % XN[rd]); return ('ret', t)
                    s.wx(rd, s.rx(rs2)); dis('mv %s, %s' % (XN[rd], XN[rs2])); return None
                if rs2 == 0: raise Undecodable('c.ebreak / c.jalr')
                s.wx(rd, s.padd(s.rx(rd), s.rx(rs2))); dis('add %s, %s, %s' % (XN[rd], XN[rd], XN[rs2])); return None
            if f3 in (3, 7):
                if f3 == 3:
                    u = cat([(SF(4, 2), 3), (SF(12, 12), 1), (SF(6, 5), 2), (0, 3)])
                    if not is_c(u): raise Undecodable('symbolic c.ldsp')
                    s.wx(rd, s.load(s.padd(s.rx(2), u), 8)); dis('ld %s, %d(sp)' % (XN[rd], u)); return None
                u = cat([(SF(9, 7), 3), (SF(12, 10), 3), (0, 3)])
                if not is_c(u): raise Undecodable('symbolic c.sdsp')
                s.store(s.padd(s.rx(2), u), s.rx(rs2), 8); dis('sd %s, %d(sp)' % (XN[rs2], u)); return None
            if f3 == 1:
                u = cat([(SF(4, 2), 3), (SF(12, 12), 1), (SF(6, 5), 2), (0, 3)])
                if not is_c(u): raise Undecodable('symbolic c.fldsp')
                s.wf(rd, s.load(s.padd(s.rx(2), u), 8)); dis('fld %s, %d(sp)' % (FN[rd], u)); return None
            if f3 == 5:
                u = cat([(SF(9, 7), 3), (SF(12, 10), 3), (0, 3)])
                if not is_c(u): raise Undecodable('symbolic c.fsdsp')
                s.store(s.padd(s.rx(2), u), s.rf(rs2), 8); dis('fsd %s, %d(sp)' % (FN[rs2], u)); return None
            raise Undecodable('C quadrant 2 funct3 %d' % f3)
        raise Undecodable('RV64 halfword')
    def run(s, start, stop=None, max_steps=2000):
        s.pc = start; stop = stop or set()
        for _ in range(max_steps):
            if s.pc in stop: return ('stop', s.pc)
            r = s.step()
            if r is None: continue
            if r[0] == 'ret': return r
            if r[0] == 'jmp':
                if isinstance(r[1], tuple): return ('leave', r[1])
                s.pc = r[1]; continue
            if r[0] == 'jcc':
                if s.decide(r[1]):
                    if isinstance(r[2], tuple): return ('leave', r[2])
                    s.pc = r[2]
                continue
        raise Fault('step bound exceeded (unwinding assertion)')
