# models of the few libstdc++ / libc entry points that the lowered units call but do not define
# std::string (libstdc++ SSO layout: {char* p; size_t n; union{char buf[16]; size_t cap}}), memcmp/bcmp
import z3
from engine.irsym import Ptr, is_c, bv, Thrown

S = '_ZNSt7__cxx1112basic_stringIcSt11char_traitsIcESaIcEE'
KS = '_ZNKSt7__cxx1112basic_stringIcSt11char_traitsIcESaIcEE'

def install(it, heap=None):
    h = it.hooks; mem = it.mem
    def local_buf(sp): return Ptr(sp.obj, sp.off + 16)
    def is_local(sp):
        p = mem.load(sp, 8); return isinstance(p, Ptr) and p.obj == sp.obj and p.off == sp.off + 16
    def ctor(it_, a):
        sp = a[0]; mem.store(sp, local_buf(sp), 8); mem.store(Ptr(sp.obj, sp.off + 8), 0, 8); mem.store(Ptr(sp.obj, sp.off + 16), 0, 1); return None
    def dtor(it_, a):
        sp = a[0]
        if not is_local(sp):
            p = mem.load(sp, 8)
            if heap is not None: heap.op_delete(it_, [p])
        return None
    def set_content(sp, src, n):
        if not is_c(n): raise Exception('std::string with symbolic length')
        if n <= 15:
            if not is_local(sp): dtor(None, [sp]); mem.store(sp, local_buf(sp), 8)
            dst = local_buf(sp)
        else:
            cap = mem.load(Ptr(sp.obj, sp.off + 16), 8) if not is_local(sp) else 15
            if is_local(sp) or not is_c(cap) or cap < n:
                newp = heap.op_new(it, [n + 1]) if heap is not None else mem.alloc(n + 1, 'strbuf%d' % len(mem.objs))
                if not is_local(sp): dtor(None, [sp])
                mem.store(sp, newp, 8); mem.store(Ptr(sp.obj, sp.off + 16), n, 8)
            dst = mem.load(sp, 8)
        vals = [mem.load(Ptr(src.obj, src.off + k if is_c(src.off) else src.off + k), 1) for k in range(n)]
        for k, v in enumerate(vals): mem.store(Ptr(dst.obj, dst.off + k), v, 1)
        mem.store(Ptr(dst.obj, dst.off + n), 0, 1); mem.store(Ptr(sp.obj, sp.off + 8), n, 8)
    def assign_pn(it_, a): set_content(a[0], a[1], a[2]); return a[0]
    def assign_str(it_, a):
        if a[0].obj == a[1].obj and a[0].off == a[1].off: return a[0]
        n = mem.load(Ptr(a[1].obj, a[1].off + 8), 8); set_content(a[0], mem.load(a[1], 8), n); return a[0]
    h[S + 'C2Ev'] = ctor; h[S + 'C1Ev'] = ctor; h[S + 'D2Ev'] = dtor; h[S + 'D1Ev'] = dtor
    h[S + '6assignEPKcm'] = assign_pn; h[S + 'aSERKS4_'] = assign_str; h[S + '9_M_assignERKS4_'] = assign_str
    h[KS + '4sizeEv'] = lambda it_, a: mem.load(Ptr(a[0].obj, a[0].off + 8), 8)
    h[KS + '6lengthEv'] = h[KS + '4sizeEv']
    h[KS + '4dataEv'] = lambda it_, a: mem.load(a[0], 8)
    h[KS + '5c_strEv'] = h[KS + '4dataEv']
    def memcmp(it_, a):
        p, q, n = a
        if not is_c(n): raise Exception('memcmp with symbolic length')
        if n == 0: return 0
        x = [mem.load(Ptr(p.obj, p.off + k), 1) for k in range(n)]; y = [mem.load(Ptr(q.obj, q.off + k), 1) for k in range(n)]
        if all(is_c(v) for v in x + y): return 0 if x == y else 1
        eq = z3.And([bv(u, 8) == bv(v, 8) for u, v in zip(x, y)])
        return z3.If(eq, z3.BitVecVal(0, 32), z3.BitVecVal(1, 32))       # only (in)equality is observed by the callers encoded here
    h['memcmp'] = memcmp; h['bcmp'] = memcmp
    def cmp_bytes(p, n1, q_, n2):
        """0 iff the two byte ranges are equal (length and content); otherwise a non-zero value of unspecified sign (callers encoded here test == 0 / != 0)"""
        if not (is_c(n1) and is_c(n2)): raise Exception('std::string::compare with symbolic lengths')
        if n1 != n2: return (n1 - n2) & 0xffffffff
        return memcmp(None, [p, q_, n1])
    def compare_pos_n_s_n(it_, a):          # compare(size_type pos, size_type n, const char* s, size_type n2)
        sp, pos, n, sptr, n2 = a; size = mem.load(Ptr(sp.obj, sp.off + 8), 8)
        if not (is_c(size) and is_c(pos) and is_c(n)): raise Exception('std::string::compare with symbolic position/length')
        if pos > size: raise Thrown('_ZTISt12out_of_range')
        rlen = min(n, size - pos); d = mem.load(sp, 8)
        return cmp_bytes(Ptr(d.obj, d.off + pos), rlen, sptr, n2)
    def compare_str(it_, a):
        sp, other = a; n1 = mem.load(Ptr(sp.obj, sp.off + 8), 8); n2 = mem.load(Ptr(other.obj, other.off + 8), 8)
        return cmp_bytes(mem.load(sp, 8), n1, mem.load(other, 8), n2)
    h[KS + '7compareEmmPKcm'] = compare_pos_n_s_n; h[KS + '7compareERKS4_'] = compare_str
    def guard_acquire(it_, a):       # function-local static initialisation: the ABI serialises it; its writes are not a race
        from engine import irsym as _ir
        g = mem.load(a[0], 1)
        if is_c(g) and g: return 0
        it_._guard_track = _ir.TRACK_GLOBALS[0]; _ir.TRACK_GLOBALS[0] = False; return 1
    def guard_release(it_, a):
        from engine import irsym as _ir
        mem.store(a[0], 1, 1); _ir.TRACK_GLOBALS[0] = getattr(it_, '_guard_track', True); return None
    h['__cxa_guard_acquire'] = guard_acquire; h['__cxa_guard_release'] = guard_release; h['__cxa_guard_abort'] = guard_release
    h['_ZSt9terminatev'] = lambda it_, a: (_ for _ in ()).throw(Exception('std::terminate reached'))
    h['__cxa_pure_virtual'] = lambda it_, a: (_ for _ in ()).throw(Exception('pure virtual call'))

def make_string(mem, obj, off, content):
    """place a std::string with the given list of byte values (ints or 8-bit terms), SSO only"""
    n = len(content); assert n <= 15
    mem.store(Ptr(obj, off), Ptr(obj, off + 16), 8); mem.store(Ptr(obj, off + 8), n, 8)
    for k, v in enumerate(content): mem.store(Ptr(obj, off + 16 + k), v, 1)
    mem.store(Ptr(obj, off + 16 + n), 0, 1)
