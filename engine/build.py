# Lowers units of /repo's *current working tree* into /verif/work/<tag>/ : LLVM IR (clang-14 -O1),
# a native shared library of the whole tree (for replay / translator validation), and the bytes of
# the hand-written x86 templates. Nothing is cached across runs.
import os, subprocess, hashlib, shutil, re, sys

REPO = os.environ.get('VERIF_REPO', '/repo')
VERIF = os.path.dirname(os.path.dirname(os.path.abspath(__file__)))
WORK = os.path.join(VERIF, 'work')
GUARD = 'TEVADOR_RANDOMX_VERIF'

IRFLAGS = ['-O1', '-fno-vectorize', '-fno-slp-vectorize', '-fno-unroll-loops', '-S', '-emit-llvm',
           '-DNDEBUG', '-D' + GUARD, '-maes', '-Wno-everything']
PORTABLE = ['-U__SSE2__', '-U__SSE__', '-U__AES__', '-U__SIZEOF_INT128__', '-U__SSE4_1__', '-U__SSSE3__', '-U__AVX2__']

def workdir(tag, clean=False):
    d = os.path.join(WORK, tag)
    if clean and os.path.isdir(d): shutil.rmtree(d)
    os.makedirs(d, exist_ok=True)
    return d

def run(cmd, **kw):
    r = subprocess.run(cmd, stdout=subprocess.PIPE, stderr=subprocess.PIPE, text=True, **kw)
    if r.returncode != 0:
        raise BuildError('command failed: %s\n%s' % (' '.join(cmd), r.stderr[-4000:]))
    return r.stdout

class BuildError(Exception): pass

def sha(path):
    return hashlib.sha256(open(path, 'rb').read()).hexdigest()[:16]

def lower(tag, src, out=None, inline=False, extra=(), portable=False, asserts=False):
    """src relative to REPO (e.g. 'src/blake2/blake2b.c'); returns path of the .ll"""
    d = workdir(tag)
    path = os.path.join(REPO, src)
    cxx = src.endswith('.cpp')
    base = out or (os.path.basename(src).rsplit('.', 1)[0] + ('' if inline else '_ni') + ('_port' if portable else '') + '.ll')
    outp = os.path.join(d, base)
    cmd = ['clang++-14', '-std=c++11'] if cxx else ['clang-14']
    cmd += [f for f in IRFLAGS if not (asserts and f == '-DNDEBUG')]
    if not inline: cmd += ['-fno-inline']
    if portable: cmd += PORTABLE
    if src.endswith('argon2_ssse3.c'): cmd += ['-mssse3']
    if src.endswith('argon2_avx2.c'): cmd += ['-mavx2']
    cmd += list(extra) + ['-I', os.path.join(REPO, 'src'), path, '-o', outp]
    run(cmd)
    return outp

def link(tag, lls, out):
    d = workdir(tag); outp = os.path.join(d, out)
    run(['llvm-link-14', '-S'] + list(lls) + ['-o', outp])
    return outp

LIB_SRCS = ['aes_hash.cpp', 'argon2_ref.c', 'argon2_ssse3.c', 'argon2_avx2.c', 'bytecode_machine.cpp', 'cpu.cpp', 'dataset.cpp',
            'soft_aes.cpp', 'virtual_memory.c', 'vm_interpreted.cpp', 'allocator.cpp', 'assembly_generator_x86.cpp',
            'instruction.cpp', 'randomx.cpp', 'superscalar.cpp', 'vm_compiled.cpp', 'vm_interpreted_light.cpp',
            'argon2_core.c', 'blake2_generator.cpp', 'instructions_portable.cpp', 'reciprocal.c', 'virtual_machine.cpp',
            'vm_compiled_light.cpp', 'blake2/blake2b.c', 'jit_compiler_x86.cpp', 'jit_compiler_x86_static.S']

def native_lib(tag, sanitize=None, cc='gcc', extra=()):
    """-O2 shared library of the whole current tree (same flags as the real build), for replay."""
    d = workdir(tag); od = os.path.join(d, 'obj' + (('_' + sanitize) if sanitize else '')); os.makedirs(od, exist_ok=True)
    procs = []; objs = []
    for s in LIB_SRCS:
        o = os.path.join(od, s.replace('/', '_') + '.o'); objs.append(o)
        cxx = s.endswith('.cpp')
        comp = {'gcc': ('g++' if cxx else 'gcc'), 'clang': ('clang++-14' if cxx else 'clang-14')}[cc]
        cmd = [comp, '-maes', '-O2', '-g', '-DNDEBUG', '-D' + GUARD, '-fPIC', '-w', '-c', os.path.join(REPO, 'src', s), '-o', o, '-I', os.path.join(REPO, 'src')]
        if cxx: cmd += ['-std=gnu++11']
        if s == 'argon2_ssse3.c': cmd += ['-mssse3']
        if s == 'argon2_avx2.c': cmd += ['-mavx2']
        if sanitize: cmd += ['-fsanitize=' + sanitize, '-fno-omit-frame-pointer']
        cmd += list(extra)
        procs.append((cmd, subprocess.Popen(cmd, stdout=subprocess.PIPE, stderr=subprocess.PIPE, text=True)))
    for cmd, p in procs:
        out, err = p.communicate()
        if p.returncode != 0: raise BuildError('native build failed: %s\n%s' % (' '.join(cmd), err[-3000:]))
    lib = os.path.join(d, 'librandomx' + (('_' + sanitize.replace(',', '_')) if sanitize else '') + '.so')
    comp = 'g++' if cc == 'gcc' else 'clang++-14'
    cmd = [comp, '-shared', '-o', lib] + objs + ['-lpthread']
    if sanitize: cmd += ['-fsanitize=' + sanitize]
    run(cmd)
    return lib

def ir_native(tag, ll, out=None):
    """compile a lowered .ll (internal symbols made external) to a shared object: the *same IR* run natively"""
    d = workdir(tag); txt = open(ll).read()
    txt = re.sub(r'^(define|@[^\n]*?=) internal ', r'\1 ', txt, flags=re.M)
    txt = re.sub(r'^define internal ', 'define ', txt, flags=re.M)
    p2 = ll[:-3] + '_ext.ll'; open(p2, 'w').write(txt)
    so = os.path.join(d, out or (os.path.basename(ll)[:-3] + '.so'))
    run(['clang-14', '-O1', '-fPIC', '-shared', '-maes', '-mssse3', '-mavx2', '-Wno-everything', p2, '-o', so])
    return so

def asm_templates(tag):
    """assemble jit_compiler_x86_static.S from the current tree; returns (objpath, {symbol: (section, offset)}, bytes of .text)"""
    d = workdir(tag); o = os.path.join(d, 'jit_static.o')
    run(['gcc', '-c', os.path.join(REPO, 'src', 'jit_compiler_x86_static.S'), '-I', os.path.join(REPO, 'src'), '-o', o])
    syms = {}
    for l in run(['nm', '-n', o]).splitlines():
        p = l.split()
        if len(p) == 3: syms[p[2]] = int(p[0], 16)
    binp = os.path.join(d, 'jit_static.text.bin')
    run(['objcopy', '-O', 'binary', '--only-section=.text', o, binp])
    return o, syms, open(binp, 'rb').read()

def src_files(rel_list):
    return [(r, sha(os.path.join(REPO, r))) for r in rel_list if os.path.exists(os.path.join(REPO, r))]

def config_constants():
    """constants of configuration.h read from the current tree (no evaluation of expressions beyond ints)"""
    txt = open(os.path.join(REPO, 'src', 'configuration.h')).read(); c = {}
    for m in re.finditer(r'^#define\s+(RANDOMX_\w+)\s+(.+?)\s*$', txt, re.M):
        v = m.group(2).split('//')[0].strip()
        try: c[m.group(1)] = int(v, 0)
        except ValueError: c[m.group(1)] = v
    return c
