# equivalence of two lists of z3 bit-vector terms: normal form + simplify (proof), random concrete evaluation
# (only ever used to *find* a counterexample, never to accept), bounded per-word solver fallback
import z3, time, random
from engine.nf import NF

def free_vars(terms):
    seen = set(); out = {}
    stack = list(terms)
    while stack:
        n = stack.pop(); i = n.get_id()
        if i in seen: continue
        seen.add(i)
        if z3.is_const(n) and n.decl().kind() == z3.Z3_OP_UNINTERPRETED: out[n.decl().name()] = n
        else: stack.extend(n.children())
    return out

def evaluate(terms, assign):
    """assign: {name: int}; returns list of ints (or None if not closed)"""
    fv = free_vars(terms); sub = []
    for nm, v in fv.items():
        if z3.is_bv(v): sub.append((v, z3.BitVecVal(assign.get(nm, 0), v.size())))
    out = []
    for t in terms:
        r = z3.simplify(z3.substitute(t, *sub))
        out.append(r.as_long() if z3.is_bv_value(r) else None)
    return out

def find_difference(A, B, seed=0, tries=3):
    rnd = random.Random(seed); fv = free_vars(list(A) + list(B))
    for k in range(tries):
        asg = {nm: (rnd.getrandbits(v.size()) if k else (1 << v.size()) - 1) for nm, v in fv.items() if z3.is_bv(v)}
        a = evaluate(A, asg); b = evaluate(B, asg)
        for i, (x, y) in enumerate(zip(a, b)):
            if x is not None and y is not None and x != y: return i, asg, x, y
    return None

def equal_lists(q, A, B, name, nf=None, seed=0, solver_budget_s=60):
    """all A[i] == B[i]?  records into q (lemmas.common.Q)"""
    nf = nf or NF()
    na = [nf.term(a) for a in A]; nb = [nf.term(b) for b in B]
    t = time.time(); g = z3.simplify(z3.Or([p != r for p, r in zip(na, nb)])); q.solver_s += time.time() - t
    if z3.is_false(g):
        q.n += len(A); q.unsat += len(A); q.proved.append(name); return True
    d = find_difference(na, nb, seed)
    if d is not None:
        i, asg, x, y = d
        q.n += 1; q.sat += 1; q.failed.append(('%s: word %d differs (%#x vs %#x) on a concrete input' % (name, i, x, y), {k: v for k, v in list(asg.items())[:400]})); return False
    t0 = time.time(); old = q.timeout
    for i, (p, r) in enumerate(zip(na, nb)):
        if p.eq(r) or z3.is_false(z3.simplify(p != r)): q.n += 1; q.unsat += 1; continue
        left = solver_budget_s - (time.time() - t0)
        if left <= 1: q.unknown += 1; q.inconclusive.append('%s word %d (budget)' % (name, i)); continue
        q.timeout = min(old, left); q.check([], p != r, '%s word %d' % (name, i))
    q.timeout = old
    return not q.failed and not q.inconclusive
