# irsym: symbolic interpreter for clang-14 textual LLVM IR producing z3 terms (concrete control where possible,
# symbolic data, chunk memory, forking by re-execution under a decision prefix, loop-body extraction, C++ EH).
import re, sys, time, z3

class Thrown(Exception):
    def __init__(s,ty,obj=None): s.ty=ty; s.obj=obj; Exception.__init__(s,'C++ exception '+str(ty))
class BackEdge(Exception):
    def __init__(s,env): s.env=env
class OOB(Exception):
    """a concrete-offset access outside its object (C06 violation candidate)"""
    def __init__(s,kind,obj,off,n,size): s.kind=kind; s.obj=obj; s.off=off; s.n=n; s.size=size; Exception.__init__(s,'%s of %d bytes at %s+%s (object size %s)'%(kind,n,obj,off,size))
GLOBAL_WRITES=[]      # (object name, where) for every store whose target is a non-constant, non-thread-local global: the shared-state footprint
TRACK_GLOBALS=[True]
class Unbound(Exception): pass
class Unsupported(Exception):
    """engine limitation (never a verdict about the code)"""
class Ptr:
    __slots__=('obj','off')
    def __init__(s,obj,off): s.obj=obj; s.off=off
    def __repr__(s): return 'Ptr(%s,%s)'%(s.obj,s.off)

def is_c(v): return isinstance(v,int)
_B64=None
def _fpuf(name,nargs):
    import z3 as _z
    return _z.Function(name,_z.BitVecSort(2),*([_z.BitVecSort(64)]*(nargs+1)))
FPUF={}
CONCRETE_FP=[None]      # set by engine/x86native for the concrete (model validation) mode
def fpop(name,rm,*args):
    """IEEE double operation as an uninterpreted function of (rounding mode, operand bit patterns)"""
    if CONCRETE_FP[0] is not None and is_c(rm) and all(is_c(a) for a in args): return CONCRETE_FP[0](name,rm,args)
    f=FPUF.get(name)
    if f is None: f=FPUF[name]=_fpuf(name,len(args))
    args=[bv(a,64) for a in args]
    if name in ('fadd','fmul') and not args[0].eq(args[1]):   # IEEE add/mul commute (NaN payloads aside; compilers rely on it): f(a,b)=g(min,max)
        c=z3.ULE(args[0],args[1]); args=[z3.If(c,args[0],args[1]),z3.If(c,args[1],args[0])]
    return f(bv(rm,2),*args)
I2D=None
def i2d(x):
    global I2D
    if I2D is None: I2D=z3.Function('i2d',z3.BitVecSort(32),z3.BitVecSort(64))
    if is_c(x):
        import struct
        sx=x-(1<<32) if x>>31 else x
        return struct.unpack('<Q',struct.pack('<d',float(sx)))[0]
    return I2D(x)
def bv(v,w): return z3.BitVecVal(v,w) if is_c(v) else v
def mask(w): return (1<<w)-1

# ---------------- types
class T: pass
class IntT(T):
    def __init__(s,w): s.w=w
    def size(s): return (s.w+7)//8
    def __repr__(s): return 'i%d'%s.w
class FpT(T):
    def __init__(s,w): s.w=w
    def size(s): return s.w//8
class PtrT(T):
    def __init__(s,to): s.to=to; s.w=64
    def size(s): return 8
class ArrT(T):
    def __init__(s,n,el): s.n=n; s.el=el
    def size(s): return s.n*s.el.size()
class VecT(T):
    def __init__(s,n,el): s.n=n; s.el=el
    def size(s): return s.n*s.el.size()
class StructT(T):
    def __init__(s,els,packed=False): s.els=els; s.packed=packed; s._lay=None
    def layout(s):
        if s._lay is None:
            off=0; offs=[]; al=1
            for e in s.els:
                a=1 if s.packed else align(e)
                off=(off+a-1)//a*a; offs.append(off); off+=e.size(); al=max(al,a)
            s._lay=(offs,(off+al-1)//al*al if not s.packed else off)
        return s._lay
    def size(s): return s.layout()[1]
class NamedT(T):
    def __init__(s,name,mod): s.name=name; s.mod=mod
    def res(s): return s.mod.types[s.name]
    def size(s): return s.res().size()
class FnT(T):
    def size(s): return 8
class VoidT(T): pass
def resolve(t):
    while isinstance(t,NamedT): t=t.res()
    return t
def align(t):
    t=resolve(t)
    if isinstance(t,(IntT,FpT)): return min(8,max(1,t.size())) if t.size()<=8 else 16
    if isinstance(t,PtrT): return 8
    if isinstance(t,ArrT): return align(t.el)
    if isinstance(t,VecT): return t.size()
    if isinstance(t,StructT): return 1 if t.packed else max([align(e) for e in t.els] or [1])
    return 8

class TypeParser:
    def __init__(s,mod): s.mod=mod
    def parse(s,txt,i=0):
        """parse a type starting at txt[i]; returns (type, newpos)"""
        i=skipws(txt,i)
        m=re.compile(r'i(\d+)').match(txt,i)
        if m: t=IntT(int(m.group(1))); i=m.end()
        elif txt.startswith('double',i): t=FpT(64); i+=6
        elif txt.startswith('float',i): t=FpT(32); i+=5
        elif txt.startswith('void',i): t=VoidT(); i+=4
        elif txt[i]=='%':
            m=re.compile(r'%("[^"]*"|[\w.$-]+)').match(txt,i); t=NamedT(m.group(1).strip('"'),s.mod); i=m.end()
        elif txt[i]=='[':
            m=re.compile(r'\[\s*(\d+)\s*x\s*').match(txt,i); el,i=s.parse(txt,m.end()); i=skipws(txt,i); assert txt[i]==']'; i+=1; t=ArrT(int(m.group(1)),el)
        elif txt[i]=='<' and txt[i+1]!='{':
            m=re.compile(r'<\s*(\d+)\s*x\s*').match(txt,i); el,i=s.parse(txt,m.end()); i=skipws(txt,i); assert txt[i]=='>'; i+=1; t=VecT(int(m.group(1)),el)
        elif txt[i]=='{' or txt.startswith('<{',i):
            packed=txt[i]=='<'; i+=2 if packed else 1; els=[]
            i=skipws(txt,i)
            if txt[i]!='}':
                while True:
                    e,i=s.parse(txt,i); els.append(e); i=skipws(txt,i)
                    if txt[i]==',': i+=1; continue
                    break
            assert txt[i]=='}'; i+=1
            if packed: assert txt[i]=='>'; i+=1
            t=StructT(els,packed)
        elif txt.startswith('opaque',i): t=StructT([]); i+=6
        else: raise Exception('type? '+txt[i:i+40])
        while True:
            i=skipws(txt,i)
            if i<len(txt) and txt[i]=='*': t=PtrT(t); i+=1
            elif i<len(txt) and txt[i]=='(':   # function type: skip params
                d=0
                while True:
                    if txt[i]=='(': d+=1
                    elif txt[i]==')':
                        d-=1
                        if d==0: i+=1; break
                    i+=1
                t=FnT()
            else: break
        return t,i
def skipws(t,i):
    while i<len(t) and t[i] in ' \t': i+=1
    return i

# ---------------- module
class Instr:
    __slots__=('res','op','txt')
class Func:
    def __init__(s): s.blocks={}; s.order=[]; s.params=[]
LAYOUT_GUARDS={}
class Module:
    def __init__(s,path):
        s.types={}; s.funcs={}; s.globals={}; s.aliases={}; s.decls=set(); s.rawtypes={}; s.tp=TypeParser(s)
        lines=open(path).read().split('\n'); i=0
        while i<len(lines):
            l=lines[i]
            m=re.match(r'%("[^"]*"|[\w.$-]+) = type (.*)$',l)
            if m:
                s.types[m.group(1).strip('"')]=s.tp.parse(m.group(2))[0]; s.rawtypes[m.group(1).strip('"')]=m.group(2)
            elif l.startswith('@'):
                m=re.match(r'@("[^"]*"|[\w.$-]+) = (.*)$',l)
                ma=re.search(r'\balias\b.*@("[^"]*"|[\w.$-]+)\s*$',m.group(2))
                if ma: s.aliases[m.group(1).strip('"')]=ma.group(1).strip('"')
                else: s.globals[m.group(1).strip('"')]=m.group(2)
            elif l.startswith('declare'):
                md=re.search(r'@("[^"]*"|[\w.$-]+)\(',l)
                if md: s.decls.add(md.group(1).strip('"'))
            elif l.startswith('define'):
                m=re.search(r'@("[^"]*"|[\w.$-]+)\((.*)\)[^()]*\{\s*$',l); f=Func(); f.name=m.group(1).strip('"'); f.sig=l
                # params: positional %0.. ; count them by splitting top-level commas
                ps=split_top(m.group(2)); f.params=[]
                for p in ps:
                    p=p.strip()
                    if not p or p=='...': continue
                    t,_=s.tp.parse(p); mm=re.search(r'(%[\w.$-]+)\s*$',p); f.params.append((t,mm.group(1) if mm else None))
                cur=None; i+=1; n=len([p for p in f.params])
                first=str(n)
                while not lines[i].startswith('}'):
                    l=lines[i]; i+=1
                    if not l.strip() or l.lstrip().startswith(';'): continue
                    m=re.match(r'^([\w.$-]+):',l)
                    if m: cur=m.group(1); f.blocks[cur]=[]; f.order.append(cur); continue
                    if cur is None: cur=first; f.blocks[cur]=[]; f.order.append(cur)
                    l=l.strip()
                    # strip metadata
                    l=re.sub(r',\s*![\w.]+ !\d+','',l)
                    if ' = landingpad ' in l:
                        while re.match(r'\s*(cleanup|catch|filter)\b',lines[i]): l+=' '+lines[i].strip(); i+=1
                    if re.match(r'(%[\w.$-]+ = )?invoke ',l):
                        l+=' '+lines[i].strip(); i+=1
                    if l.startswith('switch'):
                        while not l.rstrip().endswith(']'):
                            l+=' '+lines[i].strip(); i+=1
                    f.blocks[cur].append(l)
                s.funcs[f.name]=f
            i+=1

        # ---- layout guard: the harnesses address members of these structs by position; a tree whose member list has another shape is not
        # analysed with wrong offsets (which could produce a false violation) but refused: Unsupported -> INCONCLUSIVE
        for name,pats in LAYOUT_GUARDS.items():
            raw=s.rawtypes.get(name)
            if raw is None or raw.strip()=='opaque': continue
            els=[e.strip() for e in split_top(raw.strip().lstrip('<').rstrip('>').strip()[1:-1])]
            if len(els)<len(pats) or any(not re.search(p_,e) for p_,e in zip(pats,els)):
                raise Unsupported('member list of %s is not the one the harnesses were written for (%s): harness needs updating'%(name,raw[:200]))
def block_succs(blk):
    t=blk[-1] if blk else ''
    return re.findall(r'label %([\w.$-]+)',t)
def find_loop_header(f):
    """header of the outermost loop: the phi-carrying block with the widest back edge (in block order)"""
    idx={b:i for i,b in enumerate(f.order)}; best=None
    for u in f.order:
        for v in block_succs(f.blocks[u]):
            if v in idx and idx[v]<=idx[u] and f.blocks[v] and ' = phi ' in f.blocks[v][0]:
                span=idx[u]-idx[v]
                if best is None or span>best[0]: best=(span,v)
    if best is None: raise Unsupported('no loop found in '+f.name)
    return best[1]
def phi_nodes(f,block):
    out=[]
    for l in f.blocks[block]:
        m=re.match(r'(%[\w.$-]+) = phi (.*)$',l)
        if not m: break
        out.append(m.group(1))
    return out
def _find(mod,name):
    """resolve a source-level function name to the IR symbol (the tree renames some with a randomx_ prefix macro)"""
    if name in mod.funcs: return name
    if 'randomx_'+name in mod.funcs: return 'randomx_'+name
    c=[f for f in mod.funcs if f.endswith(name)]
    if len(c)==1: return c[0]
    if not c:      # external of this unit (hooked by the harness): declared name
        for n in (name,'randomx_'+name):
            if n in mod.decls: return n
    raise Unbound('function %s not found in IR (%d candidates)'%(name,len(c)))
Module.find=_find

def split_top(sx):
    out=[];d=0;cur=''
    for ch in sx:
        if ch in '([{<': d+=1
        elif ch in ')]}>': d-=1
        if ch==',' and d==0: out.append(cur); cur=''
        else: cur+=ch
    if cur.strip(): out.append(cur)
    return out

# ---------------- memory: objects with byte dict (concrete offsets only in prototype)
class Mem:
    def __init__(s): s.objs={}; s.n=0; s.checks=[]; s.symload={}; s.cand_checks=[]; s.watch={}; s.rwatch={}
    def alloc(s,size,name=None,init=None):
        s.n+=1; k=name or 'o%d'%s.n; s.objs[k]={'size':size,'bytes':{} if init is None else init,'ch':{}}; return Ptr(k,0)
    def _explode(s,o,off):
        v,n=o['ch'].pop(off)
        for k in range(n):
            o['bytes'][off+k]=((v>>(8*k))&0xff) if is_c(v) else z3.Extract(8*k+7,8*k,v)
    def _clear(s,o,off,n):
        ch=o['ch']; mx=o.get('maxch',0)
        if not ch or not mx: return
        if len(ch)<=mx+n: keys=list(ch.keys())
        else: keys=[k for k in range(off-mx+1,off+n) if k in ch]
        for st in keys:
            if st==off and ch[st][1]==n: ch.pop(st); continue
            if st<off+n and st+ch[st][1]>off: s._explode(o,st)
    def _rechunk(s,o,nb):
        """objects marked 'rechunk' (small tables indexed symbolically): aligned cells that are a multiple of the access size are split into cells of that size, so that they are candidates of a symbolic-offset access"""
        for st in sorted(o['ch']):
            v,n=o['ch'][st]
            if n>nb and n%nb==0 and st%nb==0 and not isinstance(v,Ptr):
                o['ch'].pop(st)
                for k in range(0,n,nb): o['ch'][st+k]=(((v>>(8*k))&((1<<(8*nb))-1)) if is_c(v) else z3.Extract(8*(k+nb)-1,8*k,v),nb)
    def share(s,*names):
        for n in names:
            if n in s.objs: s.objs[n]['shared']=True
    def mkarr(s,name,size):
        s.n+=1; s.objs[name]={'size':size,'bytes':{},'ch':{},'arr':z3.Array(name+'_mem',z3.BitVecSort(64),z3.BitVecSort(8))}; return Ptr(name,0)
    def store(s,p,val,nbytes):
        if p.obj not in s.objs: raise OOB('store through null/unknown pointer',p.obj,p.off,nbytes,0)
        if not is_c(p.off):
            _t=z3.simplify(p.off)
            if z3.is_bv_value(_t): p=Ptr(p.obj,_t.as_long())
        if s.watch and p.obj in s.watch: s.watch[p.obj](p,nbytes)
        if p.obj[0]=='@' and TRACK_GLOBALS[0] and not s.objs[p.obj].get('tls'):
            GLOBAL_WRITES.append((p.obj, getattr(s,'where','')))
        o=s.objs[p.obj]
        if o.get('shared') and TRACK_GLOBALS[0]:      # object other threads may be reading (cache / dataset handed to a VM): thread-side code must not write it
            GLOBAL_WRITES.append(('shared-object:'+p.obj, getattr(s,'where','')))
        if 'arr' in o:
            off=bv(p.off,64); s.checks.append((p.obj,off,nbytes,o['size'],'store'))
            for k in range(nbytes): o['arr']=z3.Store(o['arr'],off+k,z3.Extract(8*k+7,8*k,bv(val,8*nbytes)))
            return
        if not is_c(p.off):
            s.checks.append((p.obj,p.off,nbytes,o['size'],'store'))
            if o.get('rechunk'): s._rechunk(o,nbytes)
            cands=sorted(k for k in o['ch'] if o['ch'][k][1]==nbytes and not isinstance(o['ch'][k][0],Ptr))
            s.cand_checks.append((p.obj,p.off,tuple(cands),'store'))
            for k in cands:
                old=o['ch'][k][0]; o['ch'][k]=(z3.If(p.off==k,bv(val,8*nbytes),bv(old,8*nbytes)),nbytes)
            return
        o=s.objs[p.obj]
        if not (0<=p.off and p.off+nbytes<=o['size']): raise OOB('store',p.obj,p.off,nbytes,o['size'])
        s._clear(o,p.off,nbytes)
        if o['bytes']:
            for k in range(nbytes): o['bytes'].pop(p.off+k,None)
        o['ch'][p.off]=(val,nbytes)
        if nbytes>o.get('maxch',0): o['maxch']=nbytes
    def load(s,p,nbytes):
        if p.obj not in s.objs: raise OOB('load through null/unknown pointer',p.obj,p.off,nbytes,0)
        if not is_c(p.off):
            _t=z3.simplify(p.off)
            if z3.is_bv_value(_t): p=Ptr(p.obj,_t.as_long())
        if s.rwatch and p.obj in s.rwatch: s.rwatch[p.obj](p,nbytes)
        o=s.objs[p.obj]
        if p.obj in s.symload and ('arr' in o or not is_c(p.off)):
            s.checks.append((p.obj,bv(p.off,64),nbytes,o['size'],'load')); return s.symload[p.obj](p.off,nbytes)
        if 'arr' in o:
            off=bv(p.off,64); s.checks.append((p.obj,off,nbytes,o['size'],'load'))
            return z3.Concat(*[z3.Select(o['arr'],off+k) for k in reversed(range(nbytes))]) if nbytes>1 else z3.Select(o['arr'],off)
        if not is_c(p.off) and p.obj in s.symload:
            s.checks.append((p.obj,p.off,nbytes,o['size'],'load')); return s.symload[p.obj](p.off,nbytes)
        if not is_c(p.off):
            # small concrete object, symbolic offset: ite-chain over the written, aligned offsets; extent recorded as a check
            s.checks.append((p.obj,p.off,nbytes,o['size'],'load'))
            if o.get('rechunk'): s._rechunk(o,nbytes)
            allc=sorted(k for k in o['ch'] if o['ch'][k][1]==nbytes)
            if any(isinstance(o['ch'][k][0],Ptr) for k in allc) and getattr(s,'forker',None) is not None:
                # cells hold pointers: the index is concretised by solver-driven forking over the cell offsets
                s.cand_checks.append((p.obj,p.off,tuple(allc),'load'))
                k=s.forker.concretize(p.off,allc); return o['ch'][k][0]
            cands=sorted(k for k in o['ch'] if o['ch'][k][1]==nbytes and not isinstance(o['ch'][k][0],Ptr))
            s.cand_checks.append((p.obj,p.off,tuple(cands),'load'))
            if not cands: raise Unsupported('load at symbolic offset %s from %s: no candidate cell of %d bytes'%(str(p.off)[:80],p.obj,nbytes))
            v=None
            for k in reversed(cands):
                x=bv(o['ch'][k][0],8*nbytes); v=x if v is None else z3.If(p.off==k,x,v)
            return v
        o=s.objs[p.obj]
        if not (0<=p.off and p.off+nbytes<=o['size']): raise OOB('load',p.obj,p.off,nbytes,o['size'])
        c=o['ch'].get(p.off)
        if c is not None and c[1]==nbytes: return c[0]
        s._clear(o,p.off,nbytes)
        bs=[]
        for k in range(nbytes):
            b=o['bytes'].get(p.off+k)
            if b is None:
                b=o['default'](p.off+k) if 'default' in o else z3.BitVec('%s_%d'%(p.obj,p.off+k),8); o['bytes'][p.off+k]=b
            bs.append(b)
        if all(is_c(b) for b in bs): return sum(b<<(8*k) for k,b in enumerate(bs))
        return z3.Concat(*[bv(b,8) for b in reversed(bs)]) if nbytes>1 else bs[0]

# ---------------- interpreter
class Interp:
    def __init__(s,mod,mem=None): s.mod=mod; s.mem=mem or Mem(); s.tp=mod.tp; s.gl={}; s.steps=0; s.hooks={}; s.trace=[]; s.cut=None; s.intr_hooks={}; s.mem.forker=s; s.mxcsr=z3.BitVec('mxcsr_entry',32); s.pending_exc=None; s.fork={'prefix':[],'taken':[],'pc':[],'pending':[],'queries':0}
    # ---- forking by re-execution: decisions are replayed from a prefix, new ones are explored DFS
    def decide(s,c):
        cs=z3.simplify(c)
        if z3.is_bv_value(cs): return cs.as_long()
        fk=s.fork; i=len(fk['taken'])
        if i<len(fk['prefix']): ch=fk['prefix'][i]
        else:
            sol=z3.Solver(); sol.add(*fk['pc']); feas=[]
            for v in (1,0):
                sol.push(); sol.add(c==v); fk['queries']+=1
                if sol.check()==z3.sat: feas.append(v)
                sol.pop()
            assert feas,'infeasible path'
            ch=feas[0]
            if len(feas)==2: fk['pending'].append(fk['prefix'][:i]+fk['taken'][len(fk['prefix']):]+[feas[1]]) if False else fk['pending'].append(fk['taken']+[feas[1]])
        fk['taken'].append(ch); fk['pc'].append(c==ch); return ch
    def concretize(s,term,values):
        """fork on which of the given concrete values a symbolic term takes (values infeasible under the path condition are skipped by decide)"""
        term=bv(term,64)
        for v in values:
            sol=z3.Solver(); sol.add(*s.fork['pc']); sol.add(term==v); s.fork['queries']+=1
            if sol.check()!=z3.sat: continue
            if s.decide(z3.If(term==v,z3.BitVecVal(1,1),z3.BitVecVal(0,1))): return v
        raise OOB('access at an offset that matches no cell','?',str(term)[:80],0,0)
    def rm(s):
        m=s.mxcsr
        return (m>>13)&3 if is_c(m) else z3.Extract(14,13,m)
    def glob(s,name):
        if name in s.gl: return s.gl[name]
        if name not in s.mod.globals or ' external ' in (' '+s.mod.globals[name]+' ') and 'constant' in s.mod.globals[name] and name.startswith('_ZTI'):
            p=Ptr('@'+name,0); s.mem.objs.setdefault('@'+name,{'size':16,'bytes':{},'ch':{}}); s.gl[name]=p; return p
        txt=s.mod.globals[name]
        m=re.search(r'(?:global|constant)\s+(.*)$',txt); rest=m.group(1)
        t,i=s.tp.parse(rest); init=rest[i:].strip(); init=re.sub(r',\s*(align|section|comdat).*$','',init)
        p=s.mem.alloc(t.size(),'@'+name); s.gl[name]=p
        if 'thread_local' in txt.split('global')[0].split('constant')[0]: s.mem.objs[p.obj]['tls']=True
        if init and not init.startswith('align'):
            tg=TRACK_GLOBALS[0]; TRACK_GLOBALS[0]=False
            try: s.store_const(p,t,init)
            finally: TRACK_GLOBALS[0]=tg
        return p
    def store_const(s,p,t,txt):
        t=resolve(t); txt=txt.strip()
        if txt=='zeroinitializer' or txt=='undef':
            if txt=='zeroinitializer':
                for k in range(t.size()): s.mem.objs[p.obj]['bytes'][p.off+k]=0
            return
        if isinstance(t,PtrT):
            s.mem.store(p,s.operand({},t,txt),8); return
        if isinstance(t,FpT):
            s.mem.store(p,s.operand({},t,txt),t.size()); return
        if isinstance(t,VecT):
            v=s.operand({},t,txt); s.storet(p,t,v); return
        if isinstance(t,IntT):
            if txt.startswith('ptrtoint'):
                m=re.search(r'@("[^"]*"|[\w.$-]+) to i64\)$',txt); s.mem.store(p,Ptr('@fn:'+m.group(1).strip('"'),0),8); return
            s.mem.store(p,int(txt)&mask(t.w),t.size()); return
        if isinstance(t,ArrT):
            if txt.startswith('c"'):
                b=parse_cstr(txt)
                for k,x in enumerate(b): s.mem.objs[p.obj]['bytes'][p.off+k]=x
                return
            inner=txt[1:-1]; es=split_top(inner)
            for k,e in enumerate(es):
                et,j=s.tp.parse(e.strip()); s.store_const(Ptr(p.obj,p.off+k*et.size()),et,e.strip()[j:])
            return
        if isinstance(t,StructT):
            inner=txt.strip()[1:-1]; es=split_top(inner); offs=t.layout()[0]
            for k,e in enumerate(es):
                et,j=s.tp.parse(e.strip()); s.store_const(Ptr(p.obj,p.off+offs[k]),et,e.strip()[j:])
            return
        raise Exception('const? '+txt[:60])
    def operand(s,env,t,txt):
        txt=txt.strip(); t=resolve(t)
        if txt.startswith('%'): return env[txt]
        if txt.startswith('@'):
            nm=txt[1:].strip('"')
            ext=getattr(s,'extern',None)
            if ext and nm in ext: return ext[nm]
            if nm in s.mod.funcs or nm not in s.mod.globals and not nm.startswith('_ZTI'): return Ptr('@fn:'+nm,0)
            return s.glob(nm)
        if txt in ('undef','poison'):
            return 0 if isinstance(t,IntT) else None
        if txt=='null': return Ptr(None,0)
        if txt=='zeroinitializer':
            if isinstance(t,VecT): return [0]*t.n
            return 0
        if txt=='true': return 1
        if txt=='false': return 0
        if isinstance(t,IntT) and re.match(r'-?\d+$',txt): return int(txt)&mask(t.w)
        if isinstance(t,FpT):
            import struct
            if txt.startswith('0x'): return int(txt,16)
            return struct.unpack('<Q' if t.w==64 else '<I',struct.pack('<d' if t.w==64 else '<f',float(txt)))[0]
        if isinstance(t,VecT) and txt.startswith('<'):
            return [s.typed(env,e)[1] for e in split_top(txt[1:-1])]
        if txt.startswith('getelementptr'):
            m=re.match(r'getelementptr (inbounds )?\((.*)\)$',txt); args=split_top(m.group(2))
            bt,_=s.tp.parse(args[0]); pt,pv=s.typed(env,args[1]); idx=[s.typed(env,a)[1] for a in args[2:]]
            return s.gep(bt,pv,idx)
        if txt.startswith('bitcast') or txt.startswith('inttoptr') or txt.startswith('ptrtoint') or txt.startswith('addrspacecast'):
            m=re.match(r'\w+ \((.*) to .*\)$',txt); v=s.typed(env,m.group(1))[1]
            if txt.startswith('ptrtoint') and isinstance(t,IntT) and t.w<64 and isinstance(v,Ptr) and v.obj in s.mem.objs and 'addr' in s.mem.objs[v.obj] and is_c(v.off):
                return (s.mem.objs[v.obj]['addr']+v.off)&mask(t.w)      # truncated address of a symbol in an object with a nominal base address (only differences are meaningful)
            return v
        m=re.match(r'(add|sub|mul|and|or|xor|shl|lshr|ashr|udiv|urem|sdiv|srem) (?:nsw |nuw |exact )*\((.*)\)$',txt)
        if m:
            a,b=[s.typed(env,x)[1] for x in split_top(m.group(2))]
            if isinstance(a,Ptr) and isinstance(b,Ptr) and m.group(1)=='sub':
                assert a.obj==b.obj,(a,b); return binop('sub',a.off,b.off,64)
            return binop(m.group(1),a,b,t.w)
        m=re.match(r'(trunc|zext|sext) \((.*) to (.*)\)$',txt)
        if m:
            t1,v=s.typed(env,m.group(2)); return cast(m.group(1),v,resolve(t1),t)
        raise Exception('operand? %s'%txt[:80])
    def typed(s,env,txt):
        txt=txt.strip()
        if txt.startswith('inrange '): txt=txt[8:]
        t,i=s.tp.parse(txt); rest=txt[i:].strip()
        rest=re.sub(r'^((noundef|nonnull|nocapture|readonly|writeonly|signext|zeroext|returned|noalias|immarg|align \d+|dereferenceable\(\d+\))\s+)+','',rest)
        return t,s.operand(env,t,rest)
    def gep(s,bt,p,idx):
        off=p.off; t=bt
        first=True
        for ix in idx:
            if first:
                off=add64(off,mul64(ix,resolve(t).size())); first=False; continue
            t=resolve(t)
            if isinstance(t,StructT):
                assert is_c(ix); off=add64(off,t.layout()[0][ix]); t=t.els[ix]
            else:
                off=add64(off,mul64(ix,resolve(t.el).size())); t=t.el
        return Ptr(p.obj,off)
    def call(s,fname,args):
        if fname in s.hooks: return s.hooks[fname](s,args)
        if fname in s.mod.aliases:
            fname=s.mod.aliases[fname]
            if fname in s.hooks: return s.hooks[fname](s,args)
        if fname not in s.mod.funcs: raise Unbound('call to external function without a stub: '+fname)
        f=s.mod.funcs[fname]; env={}; s.mem.where=fname
        k=0
        for (t,n),a in zip(f.params,args):
            env[n if n else '%%%d'%k]=a; k+=1
        # unnamed params are %0..%n-1
        for j,a in enumerate(args): env.setdefault('%%%d'%j,a)
        return s._run(f,fname,env,f.order[0],None)
    def call_at(s,fname,label,args,havoc):
        """cut-point execution: run `fname` from the start of block `label` to its return. The phis of that block and every value computed before
        the cut take havoc(name,type) (an arbitrary value of the type, chosen by the harness); stack slots (alloca) become fresh objects with
        arbitrary contents and address computations on them (getelementptr / bitcast) are re-evaluated."""
        f=s.mod.funcs[fname]; s.mem.where=fname; interp=s
        defs={}
        for b in f.blocks.values():
            for l in b:
                m=re.match(r'(%[\w.$-]+) = (.*)$',l)
                if m: defs[m.group(1)]=l
        def vtype(rhs):
            op=rhs.split(' ',1)[0]; rest=rhs[len(op):].strip()
            rest=re.sub(r'^((nsw|nuw|exact|inbounds|noundef|signext|zeroext|fastcc|tail|notail|musttail)\s+)+','',rest)
            if op in ('zext','sext','trunc','bitcast','ptrtoint','inttoptr','fptosi','fptoui','sitofp','uitofp'):
                return interp.tp.parse(rest.rsplit(' to ',1)[1])[0]
            if op in ('icmp','fcmp'): return interp.tp.parse('i1')[0]
            if op=='select': rest=rest[rest.index(',')+1:].strip()
            return interp.tp.parse(rest)[0]
        class Lazy(dict):
            def __missing__(d,name):
                l=defs.get(name)
                if l is None: raise Unbound('value %s of %s has no definition'%(name,fname))
                rhs=l.split(' = ',1)[1]; op=rhs.split(' ',1)[0]
                if op in ('alloca','getelementptr','bitcast'): interp.exec(d,l)
                else: d[name]=havoc(name,vtype(rhs))
                return d[name]
        env=Lazy(); k=0
        for (t,n),a in zip(f.params,args):
            env[n if n else '%%%d'%k]=a; k+=1
        for j,a in enumerate(args): env.setdefault('%%%d'%j,a)
        for l in f.blocks[label]:
            m=re.match(r'(%[\w.$-]+) = phi (.*)$',l)
            if not m: break
            env[m.group(1)]=havoc(m.group(1),s.tp.parse(m.group(2))[0])
        return s._run(f,fname,env,label,'<cut>')
    def _run(s,f,fname,env,cur,prev):
        while True:
            blk=f.blocks[cur]
            # phis evaluated simultaneously
            newv={}
            for l in blk:
                m=re.match(r'(%[\w.$-]+) = phi (.*)$',l)
                if not m: break
                if prev=='<cut>': continue
                t,i=s.tp.parse(m.group(2)); rest=m.group(2)[i:]
                for item in split_top(rest):
                    item=item.strip(); assert item[0]=='[' and item[-1]==']',item
                    k=item.rindex(','); lab=item[k+1:-1].strip().lstrip('%')
                    if lab==prev: newv[m.group(1)]=s.operand(env,t,item[1:k]); break
                else: raise Exception('phi pred? '+l)
            env.update(newv)
            cut=getattr(s,'cut',None)
            if cut and cut['fn']==fname and cur==cut['header']:
                cut['visits']=cut.get('visits',0)+1
                if cut['visits']==1: env.update(cut['on_enter'](s,env,{n:env.get(n) for n in phi_nodes(f,cur)}))
                else: raise BackEdge(dict(env))
            for l in blk:
                if ' = phi ' in l: continue
                s.steps+=1
                try: r=s.exec(env,l)
                except (BackEdge,Thrown): raise
                except Exception as e:
                    if not getattr(e,'irctx',None):
                        e.irctx=(fname,l[:160])
                        try: e.args=(str(e.args[0])+'  [at %s: %s]'%(fname,l[:120]),)+tuple(e.args[1:])
                        except Exception: pass
                    raise
                if r is None: continue
                if r[0]=='br': prev,cur=cur,r[1]; break
                if r[0]=='ret': return r[1]
    def exec(s,env,l):
        m=re.match(r'(%[\w.$-]+) = (.*)$',l); res=None
        if m: res=m.group(1); l=m.group(2)
        op=l.split(' ',1)[0]; rest=l[len(op):].strip()
        if op in ('add','sub','mul','and','or','xor','shl','lshr','ashr','udiv','urem','sdiv','srem'):
            rest=re.sub(r'^((nsw|nuw|exact)\s+)+','',rest); t,i=s.tp.parse(rest); a,b=[s.operand(env,t,x) for x in split_top(rest[i:])]
            if isinstance(a,Ptr) and op=='and' and b==1: env[res]=0; return
            if isinstance(a,Ptr) and isinstance(b,Ptr) and op=='sub':
                assert a.obj==b.obj,(a,b); env[res]=binop('sub',a.off,b.off,64); return
            if op in ('shl','lshr','ashr') and getattr(s,'concretize_shifts',False) and not isinstance(a,list) and not is_c(b):
                w_=resolve(t).w; b=s.concretize(z3.ZeroExt(64-w_,b) if w_<64 else b,list(range(0,w_)))       # shift amounts are structural: solver-enumerated forks
            env[res]=vecmap(lambda x,y:binop(op,x,y,resolve(t).el.w if isinstance(resolve(t),VecT) else resolve(t).w),a,b); return
        if op in ('fadd','fsub','fmul','fdiv'):
            rest=re.sub(r'^((fast|nnan|ninf|nsz|arcp|contract|afn|reassoc)\s+)+','',rest); t,i=s.tp.parse(rest); a,b=[s.operand(env,t,x) for x in split_top(rest[i:])]
            rm=s.rm(); env[res]=vecmap(lambda x,y:fpop(op,rm,x,y),a,b); return
        if op=='fneg':
            t,v=s.typed(env,rest); env[res]=vecmap(lambda x,y:binop('xor',x,1<<63,64),v,v); return
        if op=='icmp':
            pred,rest=rest.split(' ',1); t,i=s.tp.parse(rest); a,b=[s.operand(env,t,x) for x in split_top(rest[i:])]
            env[res]=icmp(pred,a,b,resolve(t)); return
        if op=='select':
            parts=split_top(rest); c=s.typed(env,parts[0])[1]; ta,a=s.typed(env,parts[1]); b=s.typed(env,parts[2])[1]
            if is_c(c): env[res]=a if c else b
            elif isinstance(c,list):
                env[res]=[ (x if ci else y) if is_c(ci) else z3.If(ci==1,bv(x,64),bv(y,64)) for ci,x,y in zip(c,a,b)]
            elif isinstance(a,Ptr) or isinstance(b,Ptr) or isinstance(a,list):
                env[res]=a if s.decide(c) else b
            else:
                w=resolve(ta).size()*8 if not isinstance(resolve(ta),IntT) else resolve(ta).w
                env[res]=z3.If(c==1,bv(a,w),bv(b,w))
            return
        if op=='sitofp':
            m=re.match(r'(.*) to (.*)$',rest); t1,v=s.typed(env,m.group(1)); t1=resolve(t1)
            ew=resolve(t1.el).w if isinstance(t1,VecT) else t1.w
            assert ew==32,'sitofp from i%d'%ew
            env[res]=[i2d(x) for x in v] if isinstance(v,list) else i2d(v); return
        if op in ('zext','sext','trunc','bitcast','ptrtoint','inttoptr'):
            m=re.match(r'(.*) to (.*)$',rest); t1,v=s.typed(env,m.group(1)); t2,_=s.tp.parse(m.group(2)); t1=resolve(t1); t2=resolve(t2)
            env[res]=cast(op,v,t1,t2); return
        if op=='getelementptr':
            rest=re.sub(r'^inbounds\s+','',rest); args=split_top(rest); bt,_=s.tp.parse(args[0]); p=s.typed(env,args[1])[1]; idx=[s.typed(env,a)[1] for a in args[2:]]
            env[res]=s.gep(bt,p,idx); return
        if op in ('load','store') and rest.startswith('atomic '):
            rest=re.sub(r'^atomic (volatile )?','',rest); rest=re.sub(r'\s+(syncscope\("[^"]*"\)\s+)?(unordered|monotonic|acquire|release|acq_rel|seq_cst)(?=,|$)','',rest)
        if op in ('load','store') and rest.startswith('volatile '): rest=rest[9:]
        if op=='fence': return
        if op=='load':
            args=split_top(rest); t,_=s.tp.parse(args[0]); p=s.typed(env,args[1])[1]; env[res]=s.loadt(p,resolve(t)); return
        if op=='store':
            args=split_top(rest); t,v=s.typed(env,args[0]); p=s.typed(env,args[1])[1]; s.storet(p,resolve(t),v); return
        if op=='alloca':
            t,_=s.tp.parse(split_top(rest)[0]); env[res]=s.mem.alloc(t.size()); return
        if op=='br':
            if rest.startswith('label'): return ('br',rest.split('%')[1].strip())
            parts=split_top(rest); c=s.typed(env,parts[0])[1]
            if not is_c(c):
                c=s.decide(c)
            return ('br',parts[1 if c else 2].split('%')[1].strip())
        if op=='switch':
            m=re.match(r'(.*?), label %([\w.$-]+) \[(.*)\]$',rest); t,v=s.typed(env,m.group(1))
            if not is_c(v):
                w=resolve(t).w
                for mm in re.finditer(r'i\d+ (-?\d+), label %([\w.$-]+)',m.group(3)):
                    if s.decide(z3.If(v==(int(mm.group(1))&mask(w)),z3.BitVecVal(1,1),z3.BitVecVal(0,1))): return ('br',mm.group(2))
                return ('br',m.group(2))
            for mm in re.finditer(r'i\d+ (-?\d+), label %([\w.$-]+)',m.group(3)):
                if int(mm.group(1))&mask(resolve(t).w)==v: return ('br',mm.group(2))
            return ('br',m.group(2))
        if op=='ret':
            if rest=='void': return ('ret',None)
            return ('ret',s.typed(env,rest)[1])
        if op=='invoke':
            m=re.match(r'(.*\))(?:\s+#\d+)?\s+to label %([\w.$-]+) unwind label %([\w.$-]+)$',rest)
            try:
                s.exec(env,(res+' = ' if res else '')+'call '+m.group(1))
            except Thrown as t:
                s.pending_exc=t; return ('br',m.group(3))
            return ('br',m.group(2))
        if op in ('call','tail','musttail','notail'):
            if op!='call': rest=rest.split(' ',1)[1] if rest.startswith('call') else rest
            rest=re.sub(r'bitcast \((?:[^@()]|\([^()]*\))*(@"[^"]*"|@[\w.$-]+) to (?:[^()]|\([^()]*\))*\)\(',r'\1(',rest,count=1) if ' bitcast (' in rest.split('(',1)[0]+' bitcast (' and re.match(r'(?:call\s+)?[^@%]*\bbitcast \(',rest) else rest
            m=re.match(r'(?:call\s+)?(?:fastcc\s+)?((?:noalias |noundef |signext |zeroext |nonnull |align \d+ |dereferenceable\(\d+\) |dereferenceable_or_null\(\d+\) )*)(.*?)\s*([@%]"[^"]*"|[@%][\w.$-]+)\((.*)\)',rest)
            ma=re.match(r'(?:call\s+)?(.*?)\s+asm\s+(?:sideeffect\s+|alignstack\s+|inteldialect\s+)*"((?:[^"\\]|\\.)*)"',rest)
            if ma:
                # inline assembly (cpuid/xgetbv in cpu.cpp): environment query -> arbitrary result values of the declared type
                rt,_=s.tp.parse(ma.group(1)); rt=resolve(rt); s.asmn=getattr(s,'asmn',0)+1
                if getattr(s,'asm_zero',False): v=[0]*len(rt.els) if isinstance(rt,StructT) else 0
                elif isinstance(rt,StructT): v=[z3.BitVec('asm%d_%d'%(s.asmn,k),resolve(e).w) for k,e in enumerate(rt.els)]
                elif isinstance(rt,IntT): v=z3.BitVec('asm%d'%s.asmn,rt.w)
                else: v=None
                s.trace.append(('asm',ma.group(2)[:40]))
                if res: env[res]=v
                return
            if m is None: raise Exception('call? '+l[:200])
            fn=m.group(3)
            if fn.startswith('%'):
                fp=env[fn]
                if isinstance(fp,Ptr) and fp.obj and not fp.obj.startswith('@fn:') and '<indirect>' in s.hooks:
                    args=[s.typed(env,a)[1] for a in split_top(m.group(4))] if m.group(4).strip() else []
                    v=s.hooks['<indirect>'](s,fp,args)
                    if res: env[res]=v
                    return
                if not (isinstance(fp,Ptr) and fp.obj and fp.obj.startswith('@fn:')): raise OOB('indirect call through',getattr(fp,'obj',None),getattr(fp,'off',fp),0,0)
                fn=fp.obj[4:]
            else: fn=fn[1:].strip('"')
            args=[s.typed(env,a)[1] for a in split_top(m.group(4))] if m.group(4).strip() else []
            rt,_=s.tp.parse(m.group(2)) if m.group(2).strip() else (VoidT(),0)
            v=s.intrinsic(fn,args,rt) if fn.startswith('llvm.') else s.call(fn,args)
            if res: env[res]=v
            return
        if op=='extractelement':
            a,b=split_top(rest); v=s.typed(env,a)[1]; i=s.typed(env,b)[1]; env[res]=v[i]; return
        if op=='insertelement':
            a,b,c=split_top(rest); v=list(s.typed(env,a)[1] or [0]*resolve(s.tp.parse(a)[0]).n); x=s.typed(env,b)[1]; i=s.typed(env,c)[1]; v[i]=x; env[res]=v; return
        if op=='shufflevector':
            a,b,c=split_top(rest); t=resolve(s.tp.parse(a)[0]); va=s.typed(env,a)[1] or [0]*t.n; vb=s.typed(env,b)[1] or [0]*t.n; m=s.typed(env,c)[1]
            al=list(va)+list(vb); env[res]=[al[i] for i in m]; return
        if op=='landingpad':
            t=s.pending_exc; clauses=re.findall(r'catch i8\* (?:bitcast \(i8\*\* @([\w.$]+) to i8\*\)|null)',rest)
            sel=0
            for k,c in enumerate(clauses):
                if c=='' or EH_SUB.get(t.ty,set())|{t.ty} >= {c}: sel=TYPEID(c if c else 'null'); break
            env[res]=[Ptr('exc:'+t.ty,0),sel]; return
        if op=='extractvalue':
            a=split_top(rest); v=s.typed(env,a[0])[1]; env[res]=v[int(a[1])]; return
        if op=='insertvalue':
            a=split_top(rest); v=list(s.typed(env,a[0])[1] or [None,None]); v[int(a[2])]=s.typed(env,a[1])[1]; env[res]=v; return
        if op=='resume': raise s.pending_exc
        if op=='unreachable': raise Exception('unreachable')
        raise Exception('op? '+l[:100])
    def loadt(s,p,t):
        if isinstance(t,PtrT):
            v=s.mem.load(p,8)
            return Ptr(None,v) if is_c(v) else v
        if isinstance(t,VecT):
            es=resolve(t.el).size(); return [s.mem.load(Ptr(p.obj,add64(p.off,k*es)),es) for k in range(t.n)]
        return s.mem.load(p,t.size())
    def storet(s,p,t,v):
        if isinstance(t,VecT):
            es=resolve(t.el).size()
            for k in range(t.n): s.mem.store(Ptr(p.obj,add64(p.off,k*es)),v[k],es)
            return
        s.mem.store(p,v,t.size())
    def intrinsic(s,fn,args,rt):
        for k,h in s.intr_hooks.items():
            if fn.startswith(k): return h(s,args)
        if fn.startswith('llvm.eh.typeid.for'): return TYPEID(args[0].obj[1:] if isinstance(args[0],Ptr) and args[0].obj else 'null')
        if fn.startswith('llvm.lifetime') or fn.startswith('llvm.clear_cache') or fn.startswith('llvm.prefetch') or fn.startswith('llvm.assume') or fn.startswith('llvm.invariant') or fn.startswith('llvm.experimental.noalias') or fn.startswith('llvm.dbg'): return None
        if fn.startswith('llvm.memcpy') or fn.startswith('llvm.memmove'):
            d,sr,n=args[0],args[1],args[2]; assert is_c(n)
            so=s.mem.objs[sr.obj]; items=[]; k=0
            while k<n:
                c=so['ch'].get(sr.off+k)
                if c is not None and k+c[1]<=n: items.append((k,c[0],c[1])); k+=c[1]
                else: items.append((k,s.mem.load(Ptr(sr.obj,sr.off+k),1),1)); k+=1
            for k,v,sz in items: s.mem.store(Ptr(d.obj,add64(d.off,k)),v,sz)
            return None
        if fn.startswith('llvm.memset'):
            d,v,n=args[0],args[1],args[2]; assert is_c(n)
            k=0
            if is_c(v) and is_c(d.off):
                w8=(v&0xff)*0x0101010101010101
                while k<n and (d.off+k)%8: s.mem.store(Ptr(d.obj,d.off+k),v&0xff,1); k+=1
                while k+8<=n: s.mem.store(Ptr(d.obj,d.off+k),w8,8); k+=8
            while k<n: s.mem.store(Ptr(d.obj,add64(d.off,k)),v,1); k+=1
            return None
        if fn.startswith('llvm.fshl') or fn.startswith('llvm.fshr'):
            a,b,c=args; w=resolve(rt).el.w if isinstance(resolve(rt),VecT) else resolve(rt).w
            def f(a,b,c):
                assert is_c(c)
                c%=w
                if fn.startswith('llvm.fshr'): c=(w-c)%w
                if c==0: return a
                return binop('or',binop('shl',a,c,w),binop('lshr',b,w-c,w),w)
            return vecmap3(f,a,b,c)
        if fn.startswith('llvm.x86.aesni.aesenc') or fn.startswith('llvm.x86.aesni.aesdec'):
            f=z3.Function('aesenc' if 'aesenc' in fn else 'aesdec',z3.BitVecSort(128),z3.BitVecSort(128),z3.BitVecSort(128))
            a,b=args; r=f(z3.Concat(bv(a[1],64),bv(a[0],64)),z3.Concat(bv(b[1],64),bv(b[0],64)))
            return [z3.Extract(63,0,r),z3.Extract(127,64,r)]
        if fn.startswith('llvm.sqrt'):
            rm=s.rm(); a=args[0]
            return [fpop('fsqrt',rm,x) for x in a] if isinstance(a,list) else fpop('fsqrt',rm,a)
        if fn.startswith('llvm.x86.sse.ldmxcsr'):
            s.mxcsr=s.mem.load(args[0],4); s.trace.append(('ldmxcsr',s.mxcsr)); return None
        if fn.startswith('llvm.x86.sse.stmxcsr'):
            s.mem.store(args[0],s.mxcsr,4); return None
        if fn.startswith('llvm.ctlz'):
            a=args[0]; w=resolve(rt).w
            if is_c(a): return w-a.bit_length()
            r=z3.BitVecVal(w,w)
            for i in range(w): r=z3.If(z3.Extract(i,i,a)==1,z3.BitVecVal(w-1-i,w),r)
            return r
        if fn.startswith('llvm.ctpop'):
            a=args[0]; w=resolve(rt).w
            if is_c(a): return bin(a).count('1')
            t=z3.BitVecVal(0,w)
            for i in range(w): t=t+z3.ZeroExt(w-1,z3.Extract(i,i,a))
            return t
        raise Exception('intrinsic? '+fn)

SHL={}; KEEP=[]
def vecmap(f,a,b):
    if isinstance(a,list): return [f(x,y) for x,y in zip(a,b)]
    return f(a,b)
def vecmap3(f,a,b,c):
    if isinstance(a,list): return [f(x,y,z) for x,y,z in zip(a,b,c)]
    return f(a,b,c)
def add64(a,b):
    if is_c(a) and is_c(b):
        r=(a+b)&mask(64); return r-(1<<64) if r>>63 else r
    return bv(a,64)+bv(b,64)
def mul64(a,b):
    if is_c(a) and is_c(b):
        if a>>63: a-=1<<64
        return a*b
    return bv(a,64)*bv(b,64)
def binop(op,a,b,w):
    if is_c(a) and is_c(b):
        if op=='add': return (a+b)&mask(w)
        if op=='sub': return (a-b)&mask(w)
        if op=='mul': return (a*b)&mask(w)
        if op=='and': return a&b
        if op=='or': return a|b
        if op=='xor': return a^b
        if op=='shl': return (a<<b)&mask(w) if b<w else 0
        if op=='lshr': return a>>b if b<w else 0
        if op=='udiv': return a//b
        if op=='urem': return a%b
        if op=='ashr':
            sa=a-(1<<w) if a>>(w-1) else a; return (sa>>b)&mask(w)
        if op in ('sdiv','srem'):
            sa=a-(1<<w) if a>>(w-1) else a; sb=b-(1<<w) if b>>(w-1) else b
            if sb==0: raise Exception('signed division by zero')
            qq=abs(sa)//abs(sb); qq=-qq if (sa<0)!=(sb<0) else qq
            return (qq if op=='sdiv' else sa-qq*sb)&mask(w)
        raise Exception(op)
    if op=='mul':
        for x,y in ((a,b),(b,a)):
            if is_c(y) and y and (y&(y-1))==0: return binop('shl',x,y.bit_length()-1,w)

    if op=='add' and (not is_c(a)) and (not is_c(b)) and a.eq(b): return binop('shl',a,1,w)
    if op=='shl' and is_c(b):
        if b==0: return a
        if b>=w: return 0
        r=z3.Concat(z3.Extract(w-1-b,0,bv(a,w)),z3.BitVecVal(0,b)); SHL[r.get_id()]=(a,b); KEEP.append(r); return r
    if op=='lshr' and is_c(b):
        if b==0: return a
        return z3.Concat(z3.BitVecVal(0,b),z3.Extract(w-1,b,bv(a,w))) if b<w else 0
    a=bv(a,w); b=bv(b,w)
    return {'add':lambda:a+b,'sub':lambda:a-b,'mul':lambda:a*b,'and':lambda:a&b,'or':lambda:a|b,'xor':lambda:a^b,'shl':lambda:a<<b,'lshr':lambda:z3.LShR(a,b),'ashr':lambda:a>>b,'udiv':lambda:z3.UDiv(a,b),'urem':lambda:z3.URem(a,b)}[op]()
def icmp(pred,a,b,t):
    if isinstance(a,Ptr) or isinstance(b,Ptr):
        if not isinstance(a,Ptr): a=Ptr(None,a)
        if not isinstance(b,Ptr): b=Ptr(None,b)
        if a.obj==b.obj and not (is_c(a.off) and is_c(b.off)):
            c=bv(a.off,64)==bv(b.off,64)
            if pred in('eq','ne'): return z3.If(c if pred=='eq' else z3.Not(c),z3.BitVecVal(1,1),z3.BitVecVal(0,1))
        eq = a.obj==b.obj and a.off==b.off
        if pred=='eq': return int(eq)
        if pred=='ne': return int(not eq)
        assert a.obj==b.obj; a,b=a.off,b.off; w=64
    else: w=t.w
    if is_c(a) and is_c(b):
        sa=a-(1<<w) if a>>(w-1) else a; sb=b-(1<<w) if b>>(w-1) else b
        return int({'eq':a==b,'ne':a!=b,'ult':a<b,'ule':a<=b,'ugt':a>b,'uge':a>=b,'slt':sa<sb,'sle':sa<=sb,'sgt':sa>sb,'sge':sa>=sb}[pred])
    a=bv(a,w); b=bv(b,w)
    c={'eq':lambda:a==b,'ne':lambda:a!=b,'ult':lambda:z3.ULT(a,b),'ule':lambda:z3.ULE(a,b),'ugt':lambda:z3.UGT(a,b),'uge':lambda:z3.UGE(a,b),'slt':lambda:a<b,'sle':lambda:a<=b,'sgt':lambda:a>b,'sge':lambda:a>=b}[pred]()
    return z3.If(c,z3.BitVecVal(1,1),z3.BitVecVal(0,1))
def cast(op,v,t1,t2):
    if op=='bitcast':
        if isinstance(t1,VecT) or isinstance(t2,VecT):
            # flatten to bits and regroup
            def flat(v,t):
                if isinstance(t,VecT): return [(x,resolve(t.el).size()*8) for x in v]
                return [(v,t.size()*8)]
            parts=flat(v,t1); tot=0; acc=0; sym=False
            if all(is_c(x) for x,_ in parts):
                sh=0
                for x,w in parts: acc|=x<<sh; sh+=w
                big=acc
            else:
                big=z3.Concat(*[bv(x,w) for x,w in reversed(parts)]) if len(parts)>1 else bv(parts[0][0],parts[0][1])
            if isinstance(t2,VecT):
                ew=resolve(t2.el).size()*8
                if is_c(big): return [(big>>(k*ew))&mask(ew) for k in range(t2.n)]
                ws=[w for _,w in parts]
                if len(set(ws))==1 and ws[0]%ew==0:
                    r=ws[0]//ew; return [z3.Extract((k%r)*ew+ew-1,(k%r)*ew,bv(parts[k//r][0],ws[0])) for k in range(t2.n)]
                if len(set(ws))==1 and ew%ws[0]==0:
                    r=ew//ws[0]; return [z3.Concat(*[bv(parts[k*r+j][0],ws[0]) for j in reversed(range(r))]) for k in range(t2.n)]
                return [z3.simplify(z3.Extract(k*ew+ew-1,k*ew,big)) for k in range(t2.n)]
            return big
        return v
    if op in ('ptrtoint','inttoptr'): return v
    if isinstance(v,list): return [cast(op,x,resolve(t1.el),resolve(t2.el)) for x in v]
    if op=='zext': return v if is_c(v) else z3.ZeroExt(t2.w-t1.w,v)
    if op=='sext':
        if is_c(v): return (v-(1<<t1.w))&mask(t2.w) if v>>(t1.w-1) else v
        return z3.SignExt(t2.w-t1.w,v)
    if op=='trunc': return v&mask(t2.w) if is_c(v) else z3.Extract(t2.w-1,0,v)
def parse_cstr(txt):
    m=re.match(r'c"(.*)"$',txt,re.S); sx=m.group(1); out=[]; i=0
    while i<len(sx):
        if sx[i]=='\\' and sx[i+1]=='\\': out.append(0x5c); i+=2
        elif sx[i]=='\\': out.append(int(sx[i+1:i+3],16)); i+=3
        else: out.append(ord(sx[i])); i+=1
    return out

def min_feasible(pc,t):
    """smallest (unsigned) value the term t can take under the path condition pc, or None if pc is infeasible.
    Deterministic - a binary search over solver queries, not a solver-chosen model value - so that a re-executed path makes exactly the same
    sequence of decisions as the execution that scheduled it (forking is by replaying a decision prefix)."""
    sol=z3.Solver(); sol.add(*pc)
    if sol.check()!=z3.sat: return None
    lo=0; hi=sol.model().eval(t,model_completion=True).as_long()
    while lo<hi:
        mid=(lo+hi)//2
        sol.push(); sol.add(z3.ULE(t,z3.BitVecVal(mid,t.size())))
        if sol.check()==z3.sat: hi=min(mid,sol.model().eval(t,model_completion=True).as_long())
        else: lo=mid+1
        sol.pop()
    return lo

def explore(run, shared=None, limit=10000):
    """run(fork) executes the harness once under the decision prefix in fork['prefix']; returns per-path result"""
    pending=[[]]; results=[]; q=0
    while pending:
        prefix=pending.pop(); fk={'prefix':prefix,'taken':[],'pc':[],'pending':[],'queries':0}
        r=run(fk); results.append((list(fk['taken']),list(fk['pc']),r)); pending+=fk['pending']; q+=fk['queries']
        assert len(results)<=limit,'fork bound exceeded (unwinding assertion)'
    return results,q

EH_SUB={'_ZTISt9bad_alloc':{'_ZTISt9exception'},'_ZTISt13runtime_error':{'_ZTISt9exception'},'_ZTISt16invalid_argument':{'_ZTISt9exception'}}
_TID={}
def TYPEID(n): return _TID.setdefault(n,len(_TID)+1)
