# concrete evaluation of a z3 term produced by the engines under an assignment of its free symbols -- including the uninterpreted FP functions
# (evaluated by the host CPU through engine/native/fpop.c) and arrays.  Used only to *validate* the symbolic x86 model against the host CPU.
import z3, struct

class ArrVal:
    def __init__(s, default, upd=None): s.default = default; s.upd = upd or {}
    def get(s, i): return s.upd[i] if i in s.upd else s.default(i)
    def put(s, i, v): u = dict(s.upd); u[i] = v; return ArrVal(s.default, u)

def ceval(t, env, fp, memo=None, ufs=None):
    """env: {symbol name: int | ArrVal}; fp(name, rm, args) -> int for the FP UFs.  Returns int (bit-vectors, booleans as 0/1) or ArrVal."""
    memo = {} if memo is None else memo
    stack = [t]
    while stack:
        n = stack[-1]; i = n.get_id()
        if i in memo: stack.pop(); continue
        ch = n.children(); miss = [c for c in ch if c.get_id() not in memo]
        if miss: stack.extend(miss); continue
        stack.pop(); vals = [memo[c.get_id()] for c in ch]; d = n.decl(); k = d.kind()
        if z3.is_bv_value(n): r = n.as_long()
        elif z3.is_true(n): r = 1
        elif z3.is_false(n): r = 0
        elif k == z3.Z3_OP_UNINTERPRETED:
            nm = d.name()
            if not ch:
                if nm not in env: raise KeyError('free symbol %s has no value' % nm)
                r = env[nm]
            elif nm == 'i2d':
                x = vals[0]; sx = x - (1 << 32) if x >> 31 else x; r = struct.unpack('<Q', struct.pack('<d', float(sx)))[0]
            elif nm in ('fadd', 'fsub', 'fmul', 'fdiv', 'fsqrt'): r = fp(nm, vals[0], vals[1:])
            elif ufs and nm in ufs: r = ufs[nm](*vals)
            else: raise KeyError('uninterpreted function %s' % nm)
        elif k == z3.Z3_OP_SELECT: r = vals[0].get(vals[1])
        elif k == z3.Z3_OP_STORE: r = vals[0].put(vals[1], vals[2])
        elif k == z3.Z3_OP_CONST_ARRAY: v0 = vals[0]; r = ArrVal(lambda i, v0=v0: v0)
        elif k == z3.Z3_OP_ITE: r = vals[1] if vals[0] else vals[2]
        elif k == z3.Z3_OP_EQ and isinstance(vals[0], ArrVal): raise KeyError('array equality')
        else:
            args = []
            for c, v in zip(ch, vals):
                args.append(z3.BitVecVal(v, c.size()) if z3.is_bv(c) else z3.BoolVal(bool(v)))
            e = z3.simplify(d(*args))
            if z3.is_bv_value(e): r = e.as_long()
            elif z3.is_true(e): r = 1
            elif z3.is_false(e): r = 0
            else: raise KeyError('cannot evaluate %s' % d.name())
        memo[i] = r
    return memo[t.get_id()]
