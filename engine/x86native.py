# native validation of engine/x86sem.py: the same code bytes are executed on the host CPU (through a small trampoline) and by the model in
# concrete mode, from the same register/memory state; any difference is a defect of the *model* (differential testing of the trusted base)
import os, ctypes, mmap, random, subprocess
from engine import build, irsym, x86sem
from engine.irsym import Ptr, Mem, is_c

HERE = os.path.dirname(os.path.abspath(__file__))
class St(ctypes.Structure):
    _fields_ = [('gpr', ctypes.c_uint64 * 16), ('xmm', (ctypes.c_uint64 * 2) * 16), ('mxcsr', ctypes.c_uint32), ('pad', ctypes.c_uint32), ('rflags', ctypes.c_uint64)]

_lib = [None]
def lib():
    if _lib[0] is None:
        d = build.workdir('native'); so = os.path.join(d, 'libtramp.so')
        so = os.path.join(d, 'libtramp.%d.so' % os.getpid())          # one private copy per job process (jobs run concurrently)
        build.run(['gcc', '-shared', '-fPIC', '-O1', '-o', so, os.path.join(HERE, 'native', 'tramp.S'), os.path.join(HERE, 'native', 'fpop.c')])
        L = ctypes.CDLL(so); os.unlink(so); L.run_snippet.argtypes = [ctypes.c_void_p, ctypes.POINTER(St)]; L.get_ret_stub.restype = ctypes.c_void_p
        L.fp_op.restype = ctypes.c_uint64; L.fp_op.argtypes = [ctypes.c_int, ctypes.c_uint32, ctypes.c_uint64, ctypes.c_uint64]
        _lib[0] = L
        OPS = {'fadd': 0, 'fsub': 1, 'fmul': 2, 'fdiv': 3, 'fsqrt': 4}
        irsym.CONCRETE_FP[0] = lambda name, rm, args: L.fp_op(OPS[name], 0x9FC0 | (rm << 13), args[0], args[1] if len(args) > 1 else 0)
    return _lib[0]

SPSIZE = 1 << 21
class Arena:
    def __init__(s, seed):
        s.L = lib(); s.rnd = random.Random(seed)
        s.code = mmap.mmap(-1, 1 << 16, prot=mmap.PROT_READ | mmap.PROT_WRITE | mmap.PROT_EXEC)
        s.code_addr = ctypes.addressof(ctypes.c_char.from_buffer(s.code))
        s.sp0 = s.rnd.randbytes(SPSIZE); s.sp = ctypes.create_string_buffer(s.sp0, SPSIZE); s.sp_addr = ctypes.addressof(s.sp)
    def run_native(s, snippet, st):
        stub = s.L.get_ret_stub(); tail = b'\xff\x25\x00\x00\x00\x00' + int(stub).to_bytes(8, 'little')
        s.code.seek(0); s.code.write(bytes(snippet) + tail)
        ctypes.memmove(s.sp, s.sp0, SPSIZE)
        s.L.run_snippet(s.code_addr, ctypes.byref(st))
        return bytes(s.sp.raw)
    def run_model(s, snippet, st0):
        mem = Mem(); n = len(snippet); mem.alloc(n + 16, 'xcode')
        for k, b in enumerate(snippet): mem.store(Ptr('xcode', k), b, 1)
        mem.alloc(SPSIZE, 'sp'); mem.objs['sp']['default'] = lambda off: s.sp0[off]
        mem.alloc(64, 'stack'); mem.objs['stack']['default'] = lambda off: 0
        m = x86sem.Machine(mem, 'xcode')
        for r in range(16): m.gpr[r] = st0.gpr[r]
        m.gpr[6] = Ptr('sp', 0); m.gpr[4] = Ptr('stack', 0)
        for x in range(16): m.xmm[x] = [st0.xmm[x][0], st0.xmm[x][1]]
        m.mxcsr = st0.mxcsr
        r = m.run(0, stop={n}, max_steps=200)
        return m, mem, r

def random_state(ar, rnd, fp_sane=True):
    st = St()
    for r in range(16): st.gpr[r] = rnd.getrandbits(64)
    st.gpr[6] = ar.sp_addr
    import struct
    for x in range(16):
        for l in range(2):
            if fp_sane:
                v = rnd.choice([1.0, -1.0]) * rnd.uniform(1.0, 2.0) * 2.0 ** rnd.randint(-40, 40)
                st.xmm[x][l] = struct.unpack('<Q', struct.pack('<d', v))[0]
            else: st.xmm[x][l] = rnd.getrandbits(64)
    st.xmm[13][0] = st.xmm[13][1] = (1 << 56) - 1
    st.xmm[14][0] = st.xmm[14][1] = 0x3040000000000000 | rnd.getrandbits(22)
    st.xmm[15][0] = st.xmm[15][1] = 0x80F0000000000000
    for x in range(4, 8):         # group E: positive, exponent field as the E conversion produces
        for l in range(2): st.xmm[x][l] = (st.xmm[x][l] & ((1 << 52) - 1)) | ((0x300 + rnd.getrandbits(8)) << 52)
    st.mxcsr = 0x9FC0 | (rnd.getrandbits(2) << 13)
    return st

def copy_state(st):
    c = St(); ctypes.memmove(ctypes.byref(c), ctypes.byref(st), ctypes.sizeof(St)); return c

def compare(ar, snippet, st0):
    """returns list of differences between host CPU and model"""
    n_st = copy_state(st0); sp_after = ar.run_native(snippet, n_st)
    m, mem, r = ar.run_model(snippet, st0); diffs = []
    for reg in range(16):
        if reg in (4, 6): continue
        v = m.gpr[reg]
        if not is_c(v): diffs.append('gpr%d symbolic in model' % reg); continue
        if v != n_st.gpr[reg]: diffs.append('gpr%d: cpu %#x model %#x' % (reg, n_st.gpr[reg], v))
    for x in range(16):
        for l in range(2):
            v = m.xmm[x][l]
            if not is_c(v) or v != n_st.xmm[x][l]: diffs.append('xmm%d[%d]: cpu %#x model %s' % (x, l, n_st.xmm[x][l], hex(v) if is_c(v) else 'symbolic'))
    if is_c(m.mxcsr) and (m.mxcsr & 0xffc0) != (n_st.mxcsr & 0xffc0): diffs.append('mxcsr: cpu %#x model %#x' % (n_st.mxcsr, m.mxcsr))
    # memory: every byte the model wrote, and a digest of the rest
    o = mem.objs['sp']; written = {}
    for off, (v, sz) in o['ch'].items():
        for k in range(sz): written[off + k] = (v >> (8 * k)) & 0xff if is_c(v) else None
    for off, b in o['bytes'].items(): written[off] = b if is_c(b) else None
    for off, b in written.items():
        if b is None or sp_after[off] != b: diffs.append('scratchpad[%d]: cpu %#x model %s' % (off, sp_after[off], b)); break
    changed = [i for i in range(0, SPSIZE, 8) if sp_after[i:i + 8] != ar.sp0[i:i + 8]]
    for i in changed:
        if not any((i + k) in written for k in range(8)): diffs.append('cpu wrote scratchpad[%d..] which the model did not' % i); break
    return diffs

# ---------------------------------------------------------------- symbolic mode: the terms the model builds, evaluated under the concrete state
import z3
from engine.ceval import ceval, ArrVal
class _Concolic:
    """forking context that follows the path the concrete state takes (the model's branch conditions are evaluated, not solved)"""
    def __init__(s, ev): s.fork = {'pc': []}; s.ev = ev
    def decide(s, c):
        v = s.ev(c); s.fork['pc'].append(c == v if z3.is_bv(c) else (c if v else z3.Not(c))); return bool(v)

def compare_symbolic(ar, snippet, st0):
    """the model runs the snippet from an all-symbolic machine state (the mode the lemmas use); its final terms are evaluated under st0 and
    compared with the host CPU.  returns list of differences"""
    n_st = copy_state(st0); sp_after = ar.run_native(snippet, n_st)
    env = {}; L = ar.L
    OPS = {'fadd': 0, 'fsub': 1, 'fmul': 2, 'fdiv': 3, 'fsqrt': 4}
    fp = lambda name, rm, args: L.fp_op(OPS[name], 0x9FC0 | (rm << 13), args[0], args[1] if len(args) > 1 else 0)
    memo = {}
    ev = lambda t: ceval(t, env, fp, memo)
    mem = Mem(); n = len(snippet); mem.alloc(n + 16, 'xcode')
    for k, b in enumerate(snippet): mem.store(Ptr('xcode', k), b, 1)
    mem.mkarr('sp', SPSIZE); A0 = mem.objs['sp']['arr']; env[A0.decl().name()] = ArrVal(lambda i: ar.sp0[i])
    mem.alloc(64, 'stack')
    for k in range(0, 64, 8):
        v = z3.BitVec('xs_stk%d' % k, 64); env['xs_stk%d' % k] = 0; mem.store(Ptr('stack', k), v, 8)
    save = irsym.CONCRETE_FP[0]; irsym.CONCRETE_FP[0] = None
    try:
        m = x86sem.Machine(mem, 'xcode', _Concolic(ev))
        for r in range(16):
            if r in (4, 6): continue
            m.gpr[r] = z3.BitVec('xs_g%d' % r, 64); env['xs_g%d' % r] = st0.gpr[r]
        m.gpr[6] = Ptr('sp', 0); m.gpr[4] = Ptr('stack', 0)
        for x in range(16):
            m.xmm[x] = []
            for l in range(2): m.xmm[x].append(z3.BitVec('xs_x%d_%d' % (x, l), 64)); env['xs_x%d_%d' % (x, l)] = st0.xmm[x][l]
        m.mxcsr = z3.BitVec('xs_mxcsr', 32); env['xs_mxcsr'] = st0.mxcsr
        m.run(0, stop={n}, max_steps=200)
    finally: irsym.CONCRETE_FP[0] = save
    diffs = []
    val = lambda v: v if is_c(v) else ev(v)
    for reg in range(16):
        if reg in (4, 6): continue
        v = val(m.gpr[reg])
        if v != n_st.gpr[reg]: diffs.append('gpr%d: cpu %#x model %#x' % (reg, n_st.gpr[reg], v))
    for x in range(16):
        for l in range(2):
            v = val(m.xmm[x][l])
            if v != n_st.xmm[x][l]: diffs.append('xmm%d[%d]: cpu %#x model %#x' % (x, l, n_st.xmm[x][l], v))
    mx = val(m.mxcsr)
    if (mx & 0xffc0) != (n_st.mxcsr & 0xffc0): diffs.append('mxcsr: cpu %#x model %#x' % (n_st.mxcsr, mx))
    fin = ev(mem.objs['sp']['arr'])
    for off, b in fin.upd.items():
        if sp_after[off] != b: diffs.append('scratchpad[%d]: cpu %#x model %#x' % (off, sp_after[off], b)); break
    for i in range(0, SPSIZE, 8):
        if sp_after[i:i + 8] != ar.sp0[i:i + 8] and not any((i + k) in fin.upd for k in range(8)): diffs.append('cpu wrote scratchpad[%d..] which the model did not' % i); break
    return diffs

# ---------------------------------------------------------------- X1: a whole compiled program function, host CPU vs model
def program_compare(shim, seed, v2, iters, flags_of):
    """the real JIT compiles a random program (full mode, hardware AES); the program function runs `iters` iterations natively and in the model
    (concrete mode, same code bytes, same register file / scratchpad / dataset content); register file and scratchpad must agree"""
    import mmap as _mmap
    from spec import params as P
    rnd = random.Random(seed); lib()
    prog = rnd.randbytes(128 + 8 * 384)
    cfg = (ctypes.c_uint64 * 4)()
    for l in range(2): cfg[l] = (rnd.getrandbits(22)) | ((0x300 | rnd.getrandbits(4) << 4 | rnd.getrandbits(4)) << 52)
    rr = [2 * k + rnd.getrandbits(1) for k in range(4)]; cfg[2] = rr[0] | (rr[1] << 32); cfg[3] = rr[2] | (rr[3] << 32)
    flags = flags_of(v2)
    code = ctypes.POINTER(ctypes.c_uint8)(); size = ctypes.c_size_t()
    shim.verif_jit_program.restype = ctypes.c_void_p
    jit = shim.verif_jit_program(prog, len(prog), flags, cfg, ctypes.byref(code), ctypes.byref(size))
    cb = ctypes.string_at(code, size.value)
    # initial state
    import struct
    reg0 = bytearray(256)
    for k in range(4):
        for l in range(2): struct.pack_into('<d', reg0, 192 + 16 * k + 8 * l, rnd.uniform(1.0, 2.0) * 2.0 ** rnd.randint(0, 31))
    mx = rnd.getrandbits(32); ma = rnd.getrandbits(32) & ~63; dso = 64 * rnd.randrange(0, P.DATASET_EXTRA // 64 + 1)
    sp0 = rnd.randbytes(SPSIZE); dskey = rnd.getrandbits(32) | 1
    dsbyte = lambda off: ((off * dskey) >> 13) & 0xff
    # ---- model
    mem = Mem(); mem.alloc(len(cb), 'xcode'); mem.objs['xcode']['default'] = lambda off: cb[off]
    mem.alloc(SPSIZE, 'sp'); mem.objs['sp']['default'] = lambda off: sp0[off]
    DS = P.DATASET_BASE + P.DATASET_EXTRA; mem.alloc(DS, 'dataset'); mem.objs['dataset']['default'] = dsbyte
    mem.alloc(256, 'regfile'); mem.objs['regfile']['default'] = lambda off: reg0[off]
    mem.alloc(16, 'memregs'); mem.store(Ptr('memregs', 0), mx, 4); mem.store(Ptr('memregs', 4), ma, 4); mem.store(Ptr('memregs', 8), Ptr('dataset', dso), 8)
    STK = 1032; mem.alloc(STK + 64, 'stack'); mem.objs['stack']['default'] = lambda off: 0; mem.store(Ptr('stack', STK), Ptr('caller', 0), 8)
    m = x86sem.Machine(mem, 'xcode')
    for r in range(16): m.gpr[r] = rnd.getrandbits(64)
    m.gpr[7] = Ptr('regfile', 0); m.gpr[6] = Ptr('memregs', 0); m.gpr[2] = Ptr('sp', 0); m.gpr[1] = iters; m.gpr[4] = Ptr('stack', STK)
    for x in range(16): m.xmm[x] = [rnd.getrandbits(64), rnd.getrandbits(64)]
    m.mxcsr = 0x1F80
    r = m.run(0, max_steps=iters * 6000 + 2000)
    if not (r[0] == 'ret' and isinstance(r[1], Ptr) and r[1].obj == 'caller'): return ['model: program function ended with %s' % (r,)], 0
    steps = getattr(m, 'nsteps', 0)
    # ---- native
    dsmap = _mmap.mmap(-1, DS + 4096, flags=_mmap.MAP_PRIVATE | _mmap.MAP_ANONYMOUS | getattr(_mmap, 'MAP_NORESERVE', 0x4000))
    dsaddr = ctypes.addressof(ctypes.c_char.from_buffer(dsmap)); lines = set()
    for (kd, obj, off, nb) in m.accesses:
        if obj == 'dataset' and is_c(off): lines.add(off & ~63)
    for ln in lines: dsmap[ln:ln + 64] = bytes(dsbyte(ln + k) for k in range(64))
    regb = ctypes.create_string_buffer(bytes(reg0), 256); spb = ctypes.create_string_buffer(sp0, SPSIZE)
    mr = (ctypes.c_uint64 * 2)(); mr[0] = mx | (ma << 32); mr[1] = dsaddr + dso
    shim.verif_jit_run(ctypes.c_void_p(jit), regb, mr, spb, ctypes.c_uint64(iters))
    shim.verif_jit_free(ctypes.c_void_p(jit))
    diffs = []
    for off in range(0, 256, 8):
        v = mem.load(Ptr('regfile', off), 8); nv = int.from_bytes(regb.raw[off:off + 8], 'little')
        if not is_c(v) or v != nv: diffs.append('register file +%d: cpu %#x model %s' % (off, nv, hex(v) if is_c(v) else 'symbolic'))
    o = mem.objs['sp']; exp = bytearray(sp0); touched = set(o['bytes'])
    for off, (v, sz) in o['ch'].items(): touched.update(range(off, off + sz))
    for off in touched:
        b = mem.load(Ptr('sp', off), 1)
        if not is_c(b): diffs.append('scratchpad byte %d symbolic in the model' % off); break
        exp[off] = b
    if bytes(exp) != spb.raw:
        k = next(j for j in range(SPSIZE) if exp[j] != spb.raw[j]); diffs.append('scratchpad[%d]: cpu %#x model %#x' % (k, spb.raw[k], exp[k]))
    del dsmap
    return diffs, len(lines)
