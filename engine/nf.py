# throw-away prototype: bit-slice normal form as a bottom-up rewriting pass over z3 bit-vector DAGs
import z3

def seg_w(s): return s[-1]
def merge(sl):
    out=[]
    for s in sl:
        if seg_w(s)==0: continue
        if out:
            p=out[-1]
            if p[0]=='c' and s[0]=='c': out[-1]=('c',p[1]|(s[1]<<p[2]),p[2]+s[2]); continue
            if p[0]=='t' and s[0]=='t' and p[1].eq(s[1]) and p[2]+p[3]==s[2]: out[-1]=('t',p[1],p[2],p[3]+s[3]); continue
        out.append(s)
    return out
def slice_(sl,lo,w):
    out=[]; pos=0
    for s in sl:
        sw=seg_w(s); a=max(lo,pos); b=min(lo+w,pos+sw)
        if a<b:
            if s[0]=='c': out.append(('c',(s[1]>>(a-pos))&((1<<(b-a))-1),b-a))
            else: out.append(('t',s[1],s[2]+(a-pos),b-a))
        pos+=sw
    return merge(out)
def width(sl): return sum(seg_w(s) for s in sl)
def mat(sl):
    sl=merge(sl); parts=[]
    for s in sl:
        if s[0]=='c': parts.append(z3.BitVecVal(s[1],s[2]))
        else:
            t=s[1]; parts.append(t if (s[2]==0 and s[3]==t.size()) else z3.Extract(s[2]+s[3]-1,s[2],t))
    return parts[0] if len(parts)==1 else z3.Concat(*reversed(parts))
def low_zeros(sl):
    k=0
    for s in sl:
        if s[0]=='c':
            if s[1]==0: k+=s[2]; continue
            v=s[1]; tz=(v&-v).bit_length()-1; return k+tz
        return k
    return k
def cuts(sl):
    c=set(); pos=0
    for s in sl:
        c.add(pos)
        if s[0]=='c':
            v=s[1]; prev=v&1
            for i in range(1,s[2]):
                b=(v>>i)&1
                if b!=prev: c.add(pos+i); prev=b
        pos+=seg_w(s)
    c.add(pos); return c

class NF:
    def __init__(s): s.memo={}; s.keep=[]
    def norm(s,root):
        # iterative post-order
        stack=[(root,False)]
        while stack:
            n,done=stack.pop(); i=n.get_id()
            if i in s.memo: continue
            if not done:
                stack.append((n,True))
                for c in n.children():
                    if c.get_id() not in s.memo: stack.append((c,False))
                continue
            s.memo[i]=s.node(n); s.keep.append(n)
        return s.memo[root.get_id()]
    def node(s,n):
        k=n.decl().kind(); w=n.size(); ch=[s.memo[c.get_id()] for c in n.children()]
        if z3.is_bv_value(n): return [('c',n.as_long(),w)]
        if n.num_args()==0: return [('t',n,0,w)]
        if k==z3.Z3_OP_EXTRACT:
            hi,lo=n.params(); return slice_(ch[0],lo,hi-lo+1)
        if k==z3.Z3_OP_CONCAT:
            out=[]
            for c in reversed(ch): out+=c
            return merge(out)
        if k==z3.Z3_OP_ZERO_EXT: return merge(ch[0]+[('c',0,n.params()[0])])
        if k in (z3.Z3_OP_BOR,z3.Z3_OP_BXOR,z3.Z3_OP_BAND) and len(ch)==2:
            a,b=ch; cs=sorted(cuts(a)|cuts(b)); out=[]; ok=True
            for lo,hi in zip(cs,cs[1:]):
                x=slice_(a,lo,hi-lo); y=slice_(b,lo,hi-lo)
                x=x[0] if len(x)==1 else None; y=y[0] if len(y)==1 else None
                if x is None or y is None: ok=False; break
                full=(1<<(hi-lo))-1
                if k==z3.Z3_OP_BAND:
                    if x[0]=='c' and y[0]=='c': out.append(('c',x[1]&y[1],hi-lo))
                    elif x[0]=='c' and x[1]==0 or y[0]=='c' and y[1]==0: out.append(('c',0,hi-lo))
                    elif x[0]=='c' and x[1]==full: out.append(y)
                    elif y[0]=='c' and y[1]==full: out.append(x)
                    else: ok=False; break
                else:
                    if x[0]=='c' and y[0]=='c': out.append(('c',(x[1]|y[1]) if k==z3.Z3_OP_BOR else (x[1]^y[1]),hi-lo))
                    elif x[0]=='c' and x[1]==0: out.append(y)
                    elif y[0]=='c' and y[1]==0: out.append(x)
                    else: ok=False; break
            if ok: return merge(out)
        # opaque arithmetic / general bitwise: rebuild with materialised children
        if k==z3.Z3_OP_BADD and len(ch)==2 and n.arg(0).eq(n.arg(1)):
            return merge([('c',0,1)]+slice_(ch[0],0,w-1))
        if k==z3.Z3_OP_BMUL:
            K=0; args=[]
            for c in ch:
                z=min(low_zeros(c),w); K+=z
                args.append(mat(slice_(c,z,w-z)+[('c',0,z)]))
            if K>=w: return [('c',0,w)]
            t=args[0]
            for a in args[1:]: t=t*a
            s.keep.append(t)
            return merge([('c',0,K)]+[('t',t,0,w-K)]) if K else [('t',t,0,w)]
        args=[mat(c) for c in ch]
        t=n.decl()(*args); s.keep.append(t)
        return [('t',t,0,w)]
    def term(s,root): return mat(s.norm(root))
