# native replay drivers: a solver counterexample is reported as VIOLATION only together with its replay artefact;
# where a native driver exists the counterexample is re-run against a native (sanitizer) build of the same tree.
import os, sys, json, subprocess
from engine import build

def run_file(path):
    d = json.load(open(path)); site = d.get('site')
    print('replay of', d.get('property'), d.get('lemma'), 'case', str(d.get('case'))[:120])
    if site and site.startswith('randomx_vm_set_cache:stale-cachePtr'):
        ok, out = replay_c03_aba(); print(out[-1500:]); print('REPRODUCED' if ok else 'not reproduced'); return 1 if ok else 0
    from engine import nreplay
    if d.get('lemma') in nreplay.DRIVERS:
        st, txt = nreplay.replay_record(d, 'replay-file'); print('native replay against the real code of the current tree:', st.upper()); print(txt)
        return 1 if st == 'reproduced' else 0
    print('counterexample (solver model / failing path):'); print(json.dumps(d.get('failed'), indent=1, default=str)[:3000])
    print('no native driver for this lemma: re-run `./check %s --only %s` to regenerate it from the current tree' % (d.get('property'), d.get('lemma')))
    return 0

def replay_c03_aba(tag='replay-c03'):
    """release C1; alloc+init C2 with the same key; set_cache(vm, C2); hash -- under AddressSanitizer"""
    lib = build.native_lib(tag, sanitize='address', cc='clang')
    d = build.workdir(tag); exe = os.path.join(d, 'c03_aba')
    src = os.path.join(build.VERIF, 'replay', 'c03_set_cache_aba.cpp')
    build.run(['clang++-14', '-std=c++11', '-g', '-fsanitize=address', '-DSTEAL=33704', '-I', os.path.join(build.REPO, 'src'), src, lib, '-o', exe, '-Wl,-rpath,' + d, '-lpthread'])
    r = subprocess.run([exe], stdout=subprocess.PIPE, stderr=subprocess.STDOUT, text=True, env=dict(os.environ, ASAN_OPTIONS='detect_leaks=0'))
    return ('heap-use-after-free' in r.stdout), r.stdout

def replay_c14_global_write(tag='replay-c14'):
    """two threads creating hardware-AES VMs concurrently, under ThreadSanitizer"""
    lib = build.native_lib(tag, sanitize='thread', cc='clang')
    d = build.workdir(tag); exe = os.path.join(d, 'c14_race')
    src = os.path.join(build.VERIF, 'replay', 'c14_aesdummy_race.cpp')
    build.run(['clang++-14', '-std=c++11', '-g', '-fsanitize=thread', '-I', os.path.join(build.REPO, 'src'), src, lib, '-o', exe, '-Wl,-rpath,' + d, '-lpthread'])
    r = subprocess.run([exe], stdout=subprocess.PIPE, stderr=subprocess.STDOUT, text=True, env=dict(os.environ, TSAN_OPTIONS='halt_on_error=0'))
    return ('data race' in r.stdout), r.stdout
