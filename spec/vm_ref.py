# RandomX VM per doc/specs.md chapters 4 and 5, written over z3 terms (symbolic instruction word and state).
# FP arithmetic is abstract: the same uninterpreted functions of (rounding mode, operands) that irsym uses
# for the implementation's fadd/fsub/fmul/fdiv/sqrt - operand routing is what is compared (DESIGN I1).
import z3
from spec import params as P
from engine.irsym import fpop, i2d

def B(v, w): return z3.BitVecVal(v, w)
def mux(idx, vals):
    """vals[idx] for a symbolic index term idx (width >= log2 len)"""
    r = vals[-1]
    for k in range(len(vals) - 2, -1, -1): r = z3.If(idx == k, vals[k], r)
    return r
def sext32(x): return z3.SignExt(32, x)
def zext(x, w): return z3.ZeroExt(w - x.size(), x)
def load64(sp, a64): return z3.Concat(*[z3.Select(sp, a64 + k) for k in reversed(range(8))])
def store64(sp, a64, v):
    for k in range(8): sp = z3.Store(sp, a64 + k, z3.Extract(8 * k + 7, 8 * k, v))
    return sp
RCP = z3.Function('rcp', z3.BitVecSort(32), z3.BitVecSort(64))      # the reciprocal (exactness is lemma R1)

def fields(W):
    d = dict(W)
    d['dst3'] = z3.Extract(2, 0, W['dst']); d['src3'] = z3.Extract(2, 0, W['src'])
    d['dst2'] = z3.Extract(1, 0, W['dst']); d['src2'] = z3.Extract(1, 0, W['src'])
    d['mem'] = z3.Extract(1, 0, W['mod']); d['shift'] = z3.Extract(3, 2, W['mod']); d['cond'] = z3.Extract(7, 4, W['mod'])
    d['imm'] = sext32(W['imm32'])
    return d

def in_kind(opcode, kind):
    lo, hi = P.RANGE[kind]
    return z3.And(z3.UGE(opcode, lo), z3.ULE(opcode, hi - 1))

def emask_of(q):
    """4.5.6 / 4.3.2: fraction mask = bits 0-21, exponent mask = bits 60-63 of the configuration quadword;
    E exponent = 011 (top three bits) then the 4 mask bits, low 4 exponent bits come from the converted value"""
    frac = z3.ZeroExt(42, z3.Extract(21, 0, q))
    expo = z3.Concat(B(0, 1), B(0b011, 3), z3.Extract(63, 60, q), B(0, 4), B(0, 52))
    return frac | expo

def conv_F(x64):
    """4.3.1: pair of signed 32-bit integers -> doubles (exact)"""
    return [i2d(z3.Extract(31, 0, x64)), i2d(z3.Extract(63, 32, x64))]
def conv_E_lane(d, q):
    """4.3.2 on one converted double d with configuration quadword q: sign 0, exponent bits (from the top) 0-2 = 011,
    3-6 = exponent mask, remaining 4 exponent bits kept, bottom 22 fraction bits = fraction mask"""
    return z3.Concat(B(0, 1), B(0b011, 3), z3.Extract(63, 60, q), z3.Extract(55, 52, d), z3.Extract(51, 22, d), z3.Extract(21, 0, q))
def conv_E(x64, q): return [conv_E_lane(c, qq) for c, qq in zip(conv_F(x64), q)]

def step(kind, W, st, i, v2):
    """one instruction of kind `kind` (its opcode range is asserted by the caller) on state st at program index i (BV32).
    st: r[8], f[4][2], e[4][2], a[4][2], sp (Array 64->8), fprc (BV2), q (two config quadwords 14/15), usage[8] (BV32).
    returns the new r, f, e, sp, fprc, next (index of the next instruction to execute), usage"""
    F = fields(W); r = list(st['r']); f = [list(x) for x in st['f']]; e = [list(x) for x in st['e']]; a = st['a']
    sp = st['sp']; fprc = st['fprc']; usage = list(st['usage']); nxt = i + 1
    dst3, src3, imm = F['dst3'], F['src3'], F['imm']
    rd = mux(dst3, r); rs = mux(src3, r); same = dst3 == src3
    def wr(val, cond=True):
        for k in range(8):
            c = dst3 == k if cond is True else z3.And(dst3 == k, cond)
            r[k] = z3.If(c, val, r[k]); usage[k] = z3.If(c, i, usage[k])
    def memread_int():
        base = z3.If(same, B(0, 64), rs)
        mask = z3.If(same, B(P.MASK_L3, 32), z3.If(F['mem'] != 0, B(P.MASK_L1, 32), B(P.MASK_L2, 32)))
        addr = z3.Extract(31, 0, base + imm) & mask
        return load64(sp, zext(addr, 64)), addr
    def memread_fp():
        mask = z3.If(F['mem'] != 0, B(P.MASK_L1, 32), B(P.MASK_L2, 32))
        addr = z3.Extract(31, 0, rs + imm) & mask
        return load64(sp, zext(addr, 64)), addr
    acc = []
    mulh = lambda x, y: z3.Extract(127, 64, z3.ZeroExt(64, x) * z3.ZeroExt(64, y))
    smulh = lambda x, y: z3.Extract(127, 64, z3.SignExt(64, x) * z3.SignExt(64, y))
    if kind == 'IADD_RS':
        v = rd + (rs << zext(F['shift'], 64)); wr(z3.If(dst3 == 5, v + imm, v))
    elif kind in ('IADD_M', 'ISUB_M', 'IMUL_M', 'IMULH_M', 'ISMULH_M', 'IXOR_M'):
        m, addr = memread_int(); acc.append((addr, 8))
        wr({'IADD_M': rd + m, 'ISUB_M': rd - m, 'IMUL_M': rd * m, 'IMULH_M': mulh(rd, m), 'ISMULH_M': smulh(rd, m), 'IXOR_M': rd ^ m}[kind])
    elif kind in ('ISUB_R', 'IMUL_R', 'IXOR_R'):
        s = z3.If(same, imm, rs); wr({'ISUB_R': rd - s, 'IMUL_R': rd * s, 'IXOR_R': rd ^ s}[kind])
    elif kind == 'IMULH_R': wr(mulh(rd, rs))
    elif kind == 'ISMULH_R': wr(smulh(rd, rs))
    elif kind == 'IMUL_RCP':
        d = W['imm32']; nop = (d & (d - 1)) == 0          # zero or a power of two
        wr(rd * RCP(d), z3.Not(nop))
    elif kind == 'INEG_R': wr(-rd)
    elif kind in ('IROR_R', 'IROL_R'):
        s = z3.If(same, zext(W['imm32'], 64), rs) & 63
        wr(z3.RotateRight(rd, s) if kind == 'IROR_R' else z3.RotateLeft(rd, s))
    elif kind == 'ISWAP_R':
        for k in range(8):
            hit = z3.And(z3.Not(same), z3.Or(dst3 == k, src3 == k))
            r[k] = z3.If(z3.And(z3.Not(same), dst3 == k), rs, z3.If(z3.And(z3.Not(same), src3 == k), rd, r[k])); usage[k] = z3.If(hit, i, usage[k])
    elif kind == 'FSWAP_R':
        for k in range(4):
            c = dst3 == k; f[k] = [z3.If(c, st['f'][k][1], st['f'][k][0]), z3.If(c, st['f'][k][0], st['f'][k][1])]
            c = dst3 == k + 4; e[k] = [z3.If(c, st['e'][k][1], st['e'][k][0]), z3.If(c, st['e'][k][0], st['e'][k][1])]
    elif kind in ('FADD_R', 'FSUB_R', 'FADD_M', 'FSUB_M', 'FSCAL_R'):
        d2 = F['dst2']; cur = [mux(d2, [x[l] for x in st['f']]) for l in range(2)]
        if kind.endswith('_R') and kind != 'FSCAL_R': src = [mux(F['src2'], [x[l] for x in a]) for l in range(2)]
        elif kind != 'FSCAL_R':
            m, addr = memread_fp(); acc.append((addr, 8)); src = conv_F(m)
        if kind == 'FSCAL_R': new = [c ^ B(0x80F0000000000000, 64) for c in cur]
        else: new = [fpop('fadd' if kind.startswith('FADD') else 'fsub', fprc, c, s_) for c, s_ in zip(cur, src)]
        for k in range(4): f[k] = [z3.If(d2 == k, new[l], st['f'][k][l]) for l in range(2)]
    elif kind in ('FMUL_R', 'FDIV_M', 'FSQRT_R'):
        d2 = F['dst2']; cur = [mux(d2, [x[l] for x in st['e']]) for l in range(2)]
        if kind == 'FMUL_R': new = [fpop('fmul', fprc, c, mux(F['src2'], [x[l] for x in a])) for l, c in enumerate(cur)]
        elif kind == 'FDIV_M':
            m, addr = memread_fp(); acc.append((addr, 8)); new = [fpop('fdiv', fprc, c, s_) for c, s_ in zip(cur, conv_E(m, st['q']))]
        else: new = [fpop('fsqrt', fprc, c) for c in cur]
        for k in range(4): e[k] = [z3.If(d2 == k, new[l], st['e'][k][l]) for l in range(2)]
    elif kind == 'CBRANCH':
        b = zext(F['cond'], 64) + P.JUMP_OFFSET
        cimm = (imm | (B(1, 64) << b)) & ~(B(1, 64) << (b - 1))
        nv = rd + cimm
        taken = (nv & (B((1 << P.JUMP_BITS) - 1, 64) << b)) == 0
        nxt = z3.If(taken, mux(dst3, usage) + 1, i + 1)
        for k in range(8): r[k] = z3.If(dst3 == k, nv, r[k]); usage[k] = i
    elif kind == 'CFROUND':
        v = z3.RotateRight(rs, zext(W['imm32'], 64) & 63)
        newrc = z3.Extract(1, 0, v)
        fprc = z3.If(z3.Or(z3.Not(v2), (v & 60) == 0), newrc, fprc)
    elif kind == 'ISTORE':
        mask = z3.If(z3.UGE(F['cond'], 14), B(P.MASK_L3, 32), z3.If(F['mem'] != 0, B(P.MASK_L1, 32), B(P.MASK_L2, 32)))
        addr = z3.Extract(31, 0, rd + imm) & mask; acc.append((addr, 8))
        sp = store64(sp, zext(addr, 64), rs)
    else: raise Exception(kind)
    return dict(r=r, f=f, e=e, sp=sp, fprc=fprc, next=nxt, usage=usage, accesses=acc)

# ---- 4.5 VM programming from the 16 configuration quadwords
def program_vm(q):
    """q: 16 BV64.  returns a[4][2] (bit patterns), ma, mx (BV32), readReg[4] (register numbers, BV32), datasetOffset (BV64), emask[2]"""
    def areg(x):
        frac = z3.Extract(51, 0, x); ex = z3.ZeroExt(6, z3.Extract(63, 59, x)) + 1023       # +1.fraction x 2^exponent, exponent 0..31
        return z3.Concat(B(0, 1), ex, frac)
    a = [[areg(q[2 * k]), areg(q[2 * k + 1])] for k in range(4)]
    ma = z3.Extract(31, 0, q[8]); mx = z3.Extract(31, 0, q[10])
    rr = [z3.ZeroExt(31, z3.Extract(k, k, q[12])) + 2 * k for k in range(4)]
    n = P.DATASET_EXTRA // 64 + 1
    dso = z3.URem(q[13], B(n, 64)) * 64
    return dict(a=a, ma=ma, mx=mx, readReg=rr, datasetOffset=dso, emask=[emask_of(q[14]), emask_of(q[15])], q=[q[14], q[15]])
