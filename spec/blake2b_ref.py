# RFC 7693 Blake2b, written once over values that are python ints or z3 bit-vectors.
import z3
IV = [0x6A09E667F3BCC908, 0xBB67AE8584CAA73B, 0x3C6EF372FE94F82B, 0xA54FF53A5F1D36F1,
      0x510E527FADE682D1, 0x9B05688C2B3E6C1F, 0x1F83D9ABFB41BD6B, 0x5BE0CD19137E2179]
SIGMA = [[0, 1, 2, 3, 4, 5, 6, 7, 8, 9, 10, 11, 12, 13, 14, 15], [14, 10, 4, 8, 9, 15, 13, 6, 1, 12, 0, 2, 11, 7, 5, 3],
         [11, 8, 12, 0, 5, 2, 15, 13, 10, 14, 3, 6, 7, 1, 9, 4], [7, 9, 3, 1, 13, 12, 11, 14, 2, 6, 5, 10, 4, 0, 15, 8],
         [9, 0, 5, 7, 2, 4, 10, 15, 14, 1, 11, 12, 6, 8, 3, 13], [2, 12, 6, 10, 0, 11, 8, 3, 4, 13, 7, 5, 15, 14, 1, 9],
         [12, 5, 1, 15, 14, 13, 4, 10, 0, 7, 6, 3, 9, 2, 8, 11], [13, 11, 7, 14, 12, 1, 3, 9, 5, 0, 15, 4, 8, 6, 2, 10],
         [6, 15, 14, 9, 11, 3, 0, 8, 12, 2, 13, 7, 1, 4, 10, 5], [10, 2, 8, 4, 7, 6, 1, 5, 15, 11, 9, 14, 3, 12, 13, 0]]
M64 = (1 << 64) - 1

def _rotr(x, n):
    if isinstance(x, int): return ((x >> n) | (x << (64 - n))) & M64
    return z3.RotateRight(x, n)
def _add(*xs):
    if all(isinstance(x, int) for x in xs): return sum(xs) & M64
    r = None
    for x in xs:
        x = z3.BitVecVal(x, 64) if isinstance(x, int) else x
        r = x if r is None else r + x
    return r
def _xor(a, b):
    if isinstance(a, int) and isinstance(b, int): return a ^ b
    a = z3.BitVecVal(a, 64) if isinstance(a, int) else a; b = z3.BitVecVal(b, 64) if isinstance(b, int) else b
    return a ^ b

def F(h, m, t, f):
    """compression function F (RFC 7693 3.2): h[8], m[16], t[2], f[2] -> h'[8]"""
    v = list(h) + list(IV)
    v[12] = _xor(v[12], t[0]); v[13] = _xor(v[13], t[1]); v[14] = _xor(v[14], f[0]); v[15] = _xor(v[15], f[1])
    def G(a, b, c, d, x, y):
        v[a] = _add(v[a], v[b], x); v[d] = _rotr(_xor(v[d], v[a]), 32); v[c] = _add(v[c], v[d]); v[b] = _rotr(_xor(v[b], v[c]), 24)
        v[a] = _add(v[a], v[b], y); v[d] = _rotr(_xor(v[d], v[a]), 16); v[c] = _add(v[c], v[d]); v[b] = _rotr(_xor(v[b], v[c]), 63)
    for r in range(12):
        s = SIGMA[r % 10]
        G(0, 4, 8, 12, m[s[0]], m[s[1]]); G(1, 5, 9, 13, m[s[2]], m[s[3]]); G(2, 6, 10, 14, m[s[4]], m[s[5]]); G(3, 7, 11, 15, m[s[6]], m[s[7]])
        G(0, 5, 10, 15, m[s[8]], m[s[9]]); G(1, 6, 11, 12, m[s[10]], m[s[11]]); G(2, 7, 8, 13, m[s[12]], m[s[13]]); G(3, 4, 9, 14, m[s[14]], m[s[15]])
    return [_xor(_xor(h[i], v[i]), v[i + 8]) for i in range(8)]

def init_h(outlen, keylen=0):
    h = list(IV); h[0] ^= 0x01010000 ^ (keylen << 8) ^ outlen; return h

def blake2b(msg, outlen=64, key=b''):
    """concrete RFC 7693 digest (self-test / translator validation)"""
    h = init_h(outlen, len(key)); t = 0
    data = (key + bytes(128 - len(key)) if key else b'') + msg
    if len(data) == 0: data = b''
    blocks = [data[i:i + 128] for i in range(0, len(data), 128)] or [b'']
    for i, b in enumerate(blocks):
        last = i == len(blocks) - 1; t += len(b); b = b + bytes(128 - len(b))
        m = [int.from_bytes(b[8 * k:8 * k + 8], 'little') for k in range(16)]
        h = F(h, m, [t & M64, t >> 64], [M64 if last else 0, 0])
    return b''.join(x.to_bytes(8, 'little') for x in h)[:outlen]

def selftest():
    import hashlib
    for n in (0, 1, 3, 127, 128, 129, 256, 300):
        for ol in (1, 32, 64):
            for key in (b'', b'k' * 7, bytes(range(64))):
                msg = bytes((i * 7 + n) & 255 for i in range(n))
                assert blake2b(msg, ol, key) == hashlib.blake2b(msg, digest_size=ol, key=key).digest(), (n, ol, len(key))
    return True
