# RFC 9106: compression function G (3.5) with permutation P (3.6, BlaMka), index mapping (3.4.2); ints or z3 terms
import z3
M64 = (1 << 64) - 1; M32 = (1 << 32) - 1

def _c(x): return isinstance(x, int)
def rotr(x, n):
    if _c(x): return ((x >> n) | (x << (64 - n))) & M64
    return z3.RotateRight(x, n)
def blamka(a, b):
    """a + b + 2 * trunc32(a) * trunc32(b) mod 2^64"""
    if _c(a) and _c(b): return (a + b + 2 * (a & M32) * (b & M32)) & M64
    a = z3.BitVecVal(a, 64) if _c(a) else a; b = z3.BitVecVal(b, 64) if _c(b) else b
    lo = lambda v: z3.ZeroExt(32, z3.Extract(31, 0, v))
    return a + b + ((lo(a) * lo(b)) << 1)
def xor(a, b):
    if _c(a) and _c(b): return a ^ b
    a = z3.BitVecVal(a, 64) if _c(a) else a; b = z3.BitVecVal(b, 64) if _c(b) else b
    return a ^ b

def GB(v, a, b, c, d):
    v[a] = blamka(v[a], v[b]); v[d] = rotr(xor(v[d], v[a]), 32)
    v[c] = blamka(v[c], v[d]); v[b] = rotr(xor(v[b], v[c]), 24)
    v[a] = blamka(v[a], v[b]); v[d] = rotr(xor(v[d], v[a]), 16)
    v[c] = blamka(v[c], v[d]); v[b] = rotr(xor(v[b], v[c]), 63)

def P(v):
    v = list(v)
    GB(v, 0, 4, 8, 12); GB(v, 1, 5, 9, 13); GB(v, 2, 6, 10, 14); GB(v, 3, 7, 11, 15)
    GB(v, 0, 5, 10, 15); GB(v, 1, 6, 11, 12); GB(v, 2, 7, 8, 13); GB(v, 3, 4, 9, 14)
    return v

def G(X, Y, old=None):
    """X, Y: 128 words each. returns G(X,Y) (^ old when given: version 0x13, passes > 0)"""
    R = [xor(x, y) for x, y in zip(X, Y)]
    Q = list(R)
    for i in range(8):                      # rows: registers 8i..8i+7 = words 16i..16i+15
        Q[16 * i:16 * i + 16] = P(Q[16 * i:16 * i + 16])
    Z = list(Q)
    for i in range(8):                      # columns: registers i, 8+i, .., 56+i
        idx = []
        for j in range(8): idx += [16 * j + 2 * i, 16 * j + 2 * i + 1]
        col = P([Z[k] for k in idx])
        for k, w in zip(idx, col): Z[k] = w
    out = [xor(z, r) for z, r in zip(Z, R)]
    if old is not None: out = [xor(o, w) for o, w in zip(out, old)]
    return out

def index_alpha(pass_, slice_, index, seg, lane_length, J1, same_lane=True):
    """RFC 9106 3.4.2 (single lane): reference area size W and position; concrete ints"""
    if pass_ == 0:
        if slice_ == 0: W = index - 1
        else: W = slice_ * seg + index - 1 if same_lane else slice_ * seg + (-1 if index == 0 else 0)
    else:
        W = lane_length - seg + index - 1 if same_lane else lane_length - seg + (-1 if index == 0 else 0)
    x = (J1 * J1) >> 32; y = (W * x) >> 32; zz = W - 1 - y
    start = 0
    if pass_ != 0: start = 0 if slice_ == 3 else (slice_ + 1) * seg
    return (start + zz) % lane_length
