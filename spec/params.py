# Parameters and instruction frequencies as *written in doc/specs.md* (tables 1.2.1, 5.2.1, 5.3.1, 5.4.1, 5.5.1)
import re, os
DOC = os.path.join(os.environ.get('VERIF_REPO', '/repo'), 'doc', 'specs.md')
_txt = open(DOC).read()

P = {}
for m in re.finditer(r'^\|`(RANDOMX_\w+)`\|[^|]*\|\s*`([^`]*)`\s*\|', _txt, re.M):
    try: P[m.group(1)] = int(m.group(2))
    except ValueError: P[m.group(1)] = m.group(2)

# opcode order: the order of the rows of tables 5.2.1 and 5.3.1, then CBRANCH, CFROUND, ISTORE (the reference opcode layout)
ORDER = ['IADD_RS', 'IADD_M', 'ISUB_R', 'ISUB_M', 'IMUL_R', 'IMUL_M', 'IMULH_R', 'IMULH_M', 'ISMULH_R', 'ISMULH_M', 'IMUL_RCP', 'INEG_R',
         'IXOR_R', 'IXOR_M', 'IROR_R', 'IROL_R', 'ISWAP_R', 'FSWAP_R', 'FADD_R', 'FADD_M', 'FSUB_R', 'FSUB_M', 'FSCAL_R', 'FMUL_R',
         'FDIV_M', 'FSQRT_R', 'CBRANCH', 'CFROUND', 'ISTORE']
FREQ = {}
for m in re.finditer(r'^\|(\d+)/256\|(\w+)\|', _txt, re.M): FREQ[m.group(2)] = int(m.group(1))
assert set(FREQ) == set(ORDER), (sorted(set(ORDER) ^ set(FREQ)))
assert sum(FREQ.values()) == 256
RANGE = {}; _c = 0
for k in ORDER: RANGE[k] = (_c, _c + FREQ[k]); _c += FREQ[k]

L1 = P['RANDOMX_SCRATCHPAD_L1']; L2 = P['RANDOMX_SCRATCHPAD_L2']; L3 = P['RANDOMX_SCRATCHPAD_L3']
MASK_L1 = (L1 - 1) & ~7; MASK_L2 = (L2 - 1) & ~7; MASK_L3 = (L3 - 1) & ~7; MASK_L3_64 = (L3 - 1) & ~63
JUMP_BITS = P['RANDOMX_JUMP_BITS']; JUMP_OFFSET = P['RANDOMX_JUMP_OFFSET']
DATASET_BASE = P['RANDOMX_DATASET_BASE_SIZE']; DATASET_EXTRA = P['RANDOMX_DATASET_EXTRA_SIZE']
CACHE_ACCESSES = P['RANDOMX_CACHE_ACCESSES']; ARGON_MEMORY = P['RANDOMX_ARGON_MEMORY']; ARGON_ITER = P['RANDOMX_ARGON_ITERATIONS']
SS_LATENCY = P['RANDOMX_SUPERSCALAR_LATENCY']
