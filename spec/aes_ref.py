# FIPS-197 single rounds in the AESENC / AESDEC data flow (Intel SDM), over ints or z3 terms.
# state/key: lists of 16 bytes, byte i = row i%4, column i//4 (little-endian 128-bit register order).
import z3

def _gmul(a, b):
    r = 0
    for _ in range(8):
        if b & 1: r ^= a
        hi = a & 0x80; a = (a << 1) & 0xff
        if hi: a ^= 0x1b
        b >>= 1
    return r
def _ginv(a):
    if a == 0: return 0
    for b in range(1, 256):
        if _gmul(a, b) == 1: return b
def _sbox_byte(a):
    x = _ginv(a); r = 0
    for i in range(8):
        bit = ((x >> i) ^ (x >> ((i + 4) % 8)) ^ (x >> ((i + 5) % 8)) ^ (x >> ((i + 6) % 8)) ^ (x >> ((i + 7) % 8)) ^ (0x63 >> i)) & 1
        r |= bit << i
    return r
SBOX = [_sbox_byte(a) for a in range(256)]
ISBOX = [0] * 256
for _a, _s in enumerate(SBOX): ISBOX[_s] = _a
assert SBOX[0] == 0x63 and SBOX[0x53] == 0xed and ISBOX[0x63] == 0   # FIPS-197 figure 7 spot values

S_UF = z3.Function('SBOX', z3.BitVecSort(8), z3.BitVecSort(8))
IS_UF = z3.Function('ISBOX', z3.BitVecSort(8), z3.BitVecSort(8))

def _c(x): return isinstance(x, int)
def sub(b): return SBOX[b] if _c(b) else S_UF(b)
def isub(b): return ISBOX[b] if _c(b) else IS_UF(b)
def xt(b):
    """multiplication by x (02) in GF(2^8)"""
    if _c(b): return ((b << 1) & 0xff) ^ (0x1b if b & 0x80 else 0)
    return (b << 1) ^ z3.If(z3.Extract(7, 7, b) == 1, z3.BitVecVal(0x1b, 8), z3.BitVecVal(0, 8))
def gm(b, k):
    """multiply byte b by constant k in GF(2^8)"""
    r = 0 if _c(b) else z3.BitVecVal(0, 8); p = b
    while k:
        if k & 1: r = r ^ p
        p = xt(p); k >>= 1
    return r
def X(a, b):
    if _c(a) and not _c(b): a = z3.BitVecVal(a, 8)
    if _c(b) and not _c(a): b = z3.BitVecVal(b, 8)
    return a ^ b

def aesenc(st, key):
    """AESENC: ShiftRows, SubBytes, MixColumns, AddRoundKey"""
    sr = [st[(i % 4) + 4 * (((i // 4) + (i % 4)) % 4)] for i in range(16)]
    sb = [sub(b) for b in sr]; out = []
    for c in range(4):
        a = sb[4 * c:4 * c + 4]
        out += [X(X(gm(a[0], 2), gm(a[1], 3)), X(a[2], a[3])), X(X(a[0], gm(a[1], 2)), X(gm(a[2], 3), a[3])),
                X(X(a[0], a[1]), X(gm(a[2], 2), gm(a[3], 3))), X(X(gm(a[0], 3), a[1]), X(a[2], gm(a[3], 2)))]
    return [X(o, k) for o, k in zip(out, key)]

def aesdec(st, key):
    """AESDEC: InvShiftRows, InvSubBytes, InvMixColumns, AddRoundKey"""
    sr = [st[(i % 4) + 4 * (((i // 4) - (i % 4)) % 4)] for i in range(16)]
    sb = [isub(b) for b in sr]; out = []
    for c in range(4):
        a = sb[4 * c:4 * c + 4]
        out += [X(X(gm(a[0], 14), gm(a[1], 11)), X(gm(a[2], 13), gm(a[3], 9))), X(X(gm(a[0], 9), gm(a[1], 14)), X(gm(a[2], 11), gm(a[3], 13))),
                X(X(gm(a[0], 13), gm(a[1], 9)), X(gm(a[2], 14), gm(a[3], 11))), X(X(gm(a[0], 11), gm(a[1], 13)), X(gm(a[2], 9), gm(a[3], 14)))]
    return [X(o, k) for o, k in zip(out, key)]

def selftest():
    # FIPS-197 appendix B round 1: state after AddRoundKey(0) -> start of round 2 equals aesenc(state, roundkey1)
    st = bytes.fromhex('193de3bea0f4e22b9ac68d2ae9f84808'); rk1 = bytes.fromhex('a0fafe1788542cb123a339392a6c7605')
    exp = bytes.fromhex('a49c7ff2689f352b6b5bea43026a5049')
    assert bytes(aesenc(list(st), list(rk1))) == exp
    # aesdec inverts the linear part: InvMixColumns(InvSubBytes(InvShiftRows(x))) round trip with aesenc on zero keys
    z = [0] * 16
    y = aesenc(list(st), z)
    # aesenc = MC(SB(SR(x))); inverse = ISR(ISB(IMC(y))); aesdec(y) = IMC(ISB(ISR(y))) -- different order; check via components instead
    imc = aesdec([SBOX[b] for b in [y[(i % 4) + 4 * (((i // 4) + (i % 4)) % 4)] for i in range(16)]], z)   # IMC(ISB(ISR(SR'(SB(y))))) = IMC(y)
    back = [ISBOX[b] for b in imc]; back = [back[(i % 4) + 4 * (((i // 4) - (i % 4)) % 4)] for i in range(16)]
    assert bytes(back) == st
    return True

# spec 3.2-3.4 generators / hash written over abstract round functions enc(state,key), dec(state,key) on 128-bit values
def le128(words):   # rx_set_int_vec_i128(i3,i2,i1,i0) -> 128-bit int
    i3, i2, i1, i0 = words; return (i3 << 96) | (i2 << 64) | (i1 << 32) | i0
GEN1R_KEYS = [le128(w) for w in ((0xb4f44917, 0xdbb5552b, 0x62716609, 0x6daca553), (0x0da1dc4e, 0x1725d378, 0x846a710d, 0x6d7caf07),
                                  (0x3e20e345, 0xf4c0794f, 0x9f947ec6, 0x3f1262f1), (0x49169154, 0x16314c88, 0xb1ba317c, 0x6aef8135))]
GEN4R_KEYS = [le128(w) for w in ((0x99e5d23f, 0x2f546d2b, 0xd1833ddb, 0x6421aadd), (0xa5dfcde5, 0x06f79d53, 0xb6913f55, 0xb20e3450),
                                  (0x171c02bf, 0x0aa4679f, 0x515e7baf, 0x5c3ed904), (0xd8ded291, 0xcd673785, 0xe78f5d08, 0x85623763),
                                  (0x229effb4, 0x3d518b6d, 0xe3d6a7a6, 0xb5826f73), (0xb272b7d2, 0xe9024d4e, 0x9c10b3d9, 0xc7566bf3),
                                  (0xf63befa7, 0x2ba9660a, 0xf765a38b, 0xf273c9e7), (0xc0b0762d, 0x0c06d1fd, 0x915839de, 0x7a7cd609))]
HASH1R_STATE = [le128(w) for w in ((0xd7983aad, 0xcc82db47, 0x9fa856de, 0x92b52c0d), (0xace78057, 0xf59e125a, 0x15c7b798, 0x338d996e),
                                    (0xe8a07ce4, 0x5079506b, 0xae62c7d0, 0x6a770017), (0x7e994948, 0x79a10005, 0x07ad828d, 0x630a240c))]
HASH1R_XKEYS = [le128(w) for w in ((0x06890201, 0x90dc56bf, 0x8b24949f, 0xf6fa8389), (0xed18f99b, 0xee1043c6, 0x51f4e03c, 0x61b263d1))]

def check_constants_against_spec_doc(specs_md_text):
    """the key/state constants above are also printed in doc/specs.md (tables 3.2-3.4) as byte strings: cross-check"""
    import re
    def bytestr(v): return ' '.join('%02x' % ((v >> (8 * i)) & 0xff) for i in range(16))
    missing = []
    for name, vals in (('gen1r', GEN1R_KEYS), ('gen4r', GEN4R_KEYS), ('hash1r_state', HASH1R_STATE), ('hash1r_xkeys', HASH1R_XKEYS)):
        for i, v in enumerate(vals):
            if bytestr(v) not in specs_md_text: missing.append('%s[%d]' % (name, i))
    return missing

def gen1r(state, nblocks, enc, dec):
    """AesGenerator1R: returns (list of 64-byte outputs as 4 states each, final state)"""
    s = list(state); out = []
    for _ in range(nblocks):
        s = [dec(s[0], GEN1R_KEYS[0]), enc(s[1], GEN1R_KEYS[1]), dec(s[2], GEN1R_KEYS[2]), enc(s[3], GEN1R_KEYS[3])]
        out.append(list(s))
    return out, s
def gen4r(state, nblocks, enc, dec):
    s = list(state); out = []; K = GEN4R_KEYS
    for _ in range(nblocks):
        for r in range(4):
            s = [dec(s[0], K[r]), enc(s[1], K[r]), dec(s[2], K[4 + r]), enc(s[3], K[4 + r])]
        out.append(list(s))
    return out, s
def hash1r(blocks, enc, dec):
    """AesHash1R over a list of 64-byte blocks given as 4 128-bit values each"""
    s = list(HASH1R_STATE)
    for b in blocks:
        s = [enc(s[0], b[0]), dec(s[1], b[1]), enc(s[2], b[2]), dec(s[3], b[3])]
    for xk in HASH1R_XKEYS:
        s = [enc(s[0], xk), dec(s[1], xk), enc(s[2], xk), dec(s[3], xk)]
    return s
