# RISC-V back-end lemmas (C20): V0 decoder cross-check against LLVM + literal-pool loads of the runtime, V1 per-instruction translation
# validation of the scalar emitters h_* of jit_compiler_rv64.cpp.  The emitter is lowered on this host with clang (x86 target, -D__riscv only
# to make cpu.hpp declare the RVV query it calls), the runtime (jit_compiler_rv64_static.S) is assembled with clang --target=riscv64.
import z3, os, re
from lemmas.common import *
from engine.irsym import Module, Interp, Mem, Ptr, is_c, bv, resolve, NamedT, explore, OOB
from engine import build, irsym
from engine.rv64sem import Machine, XN, FN
from engine.x86sem import Undecodable, Fault
from spec import params as P, vm_ref as V
from lemmas.isa import VMState, flag_v2, max_program_size, i2d_facts

UNITS = {'rv64': dict(src='src/jit_compiler_rv64.cpp', inline=False, extra=['-D__riscv'])}
irsym.LAYOUT_GUARDS['struct.randomx::CodeBuffer'] = [r'^i8\*$', r'^i32$', r'^i32$']
irsym.LAYOUT_GUARDS['struct.randomx::CompilerState'] = [r'CodeBuffer', r'^\[\d+ x i32\]$', r'^\[8 x i32\]$']
MATTR = '--mattr=+m,+a,+f,+d,+c'
POOL = 2048          # LiteralPoolOffset: x3 points here; the assembled literals are copied to this offset of the code buffer
# what the hand-written runtime loads from the literal pool before VM instructions run (checked against the assembled runtime by V0)
POOL_X = {10: (80, 4), 11: (84, 4), 12: (96, 8), 13: (104, 8), 14: (112, 8), 15: (120, 8), 28: (144, 8), 29: (152, 8), 30: (160, 8), 31: (168, 8)}
POOL_F = {26: 176, 27: 184, 28: 192, 29: 200, 30: 208, 31: 216}

def rv64_templates(tag):
    d = build.workdir(tag); o = os.path.join(d, 'rv64_static.o')
    build.run(['clang-14', '--target=riscv64-linux-gnu', '-march=rv64gc', '-c', '-I', os.path.join(build.REPO, 'src'), os.path.join(build.REPO, 'src', 'jit_compiler_rv64_static.S'), '-o', o])
    syms = {}
    for l in build.run(['llvm-nm-14', '-n', o]).splitlines():
        p = l.split()
        if len(p) == 3: syms[p[2]] = int(p[0], 16)
    b = os.path.join(d, 'rv64_static.bin'); build.run(['llvm-objcopy-14', '-O', 'binary', '--only-section=.text', o, b])
    return syms, open(b, 'rb').read(), o

def norm_asm(t):
    t = t.lower().replace('\t', ' '); t = re.sub(r'<[^>]*>', '', t); t = re.sub(r'\s+', ' ', t).strip()
    return re.sub(r'0x([0-9a-f]+)', lambda m: str(int(m.group(1), 16)), t)

def llvm_disasm_bytes(tag, chunks):
    """LLVM's reading of byte strings (each one instruction): [text]"""
    d = build.workdir(tag); sfile = os.path.join(d, 'frag_%d.s' % os.getpid()); o = sfile[:-2] + '.o'
    open(sfile, 'w').write('.text\n.option norvc\n' + ''.join(('.4byte 0x%08x\n' % int.from_bytes(c, 'little')) if len(c) == 4 else ('.2byte 0x%04x\n.2byte 0x0001\n' % int.from_bytes(c, 'little')) for c in chunks))
    build.run(['clang-14', '--target=riscv64-linux-gnu', '-march=rv64gc', '-c', sfile, '-o', o])
    out = build.run(['llvm-objdump-14', '-d', '--no-show-raw-insn', MATTR, o]); lines = {}
    for l in out.split('\n'):
        m = re.match(r'\s*([0-9a-f]+):\s+(.*)$', l)
        if m: lines[int(m.group(1), 16)] = m.group(2).strip()
    os.unlink(sfile); os.unlink(o)
    return [lines.get(4 * k, '?') for k in range(len(chunks))]

def decode_one(code, off):
    mem = Mem(); mem.alloc(len(code), 'c'); mem.objs['c']['default'] = lambda o_: code[o_]
    m = Machine(mem, 'c'); m.decode_only = True; m.frm = z3.BitVec('frm', 3); m.pc = off
    m.step(); return m.disasm[-1][1], m.lens[-1]

def state_layout(mod):
    t = resolve(NamedT('struct.randomx::CompilerState', mod)); o = t.layout()[0]; tb = resolve(NamedT('struct.randomx::CodeBuffer', mod)); ob = tb.layout()[0]
    return dict(code=ob[0], codePos=ob[1], rcpCount=ob[2], offsets=o[1], usage=o[2], size=t.size())

def handler(it, opcode):
    g = [n for n in it.mod.globals if n.endswith('opcodeMap1E')]
    if len(g) != 1: raise Exception('opcodeMap1 not found')
    f = it.mem.load(Ptr(it.glob(g[0]).obj, 8 * opcode), 8)
    if not (isinstance(f, Ptr) and f.obj.startswith('@fn:')): raise Exception('opcodeMap1[%d] is not a function' % opcode)
    return f.obj[4:]

CODE_SIZE = 1 << 15
MAXLEN = 64          # per-instruction code size used for the buffer budget (the source comments say 56; FDIV_M reaches 58 for address immediates needing a full lui)
# ------------------------------------------------------------------------------------------------ V1
def run_V1(ctx, case):
    opcode, dst3, src3, rcp = case['opcode'], case['dst'], case['src'], case['rcp']; cond = case.get('cond')
    q = Q(60 if ctx['tier'] == 'quick' else 200); mod = Module(ctx['ll']['rv64']); L = state_layout(mod); V2 = flag_v2(); syms, text = ctx['rv64']['syms'], ctx['rv64']['text']
    kind = [k for k in P.ORDER if P.RANGE[k][0] <= opcode < P.RANGE[k][1]][0]
    LIT0 = syms['randomx_riscv64_literals']; LITN = syms['randomx_riscv64_literals_end'] - LIT0
    BASE = 8192; NOFF = 6; branch = kind == 'CBRANCH'
    W = dict(opcode=z3.BitVecVal(opcode, 8), dst=z3.BitVecVal(dst3, 8), src=z3.BitVecVal(src3, 8), mod=z3.BitVec('mod', 8) if cond is None else z3.Concat(z3.BitVecVal(cond, 4), z3.BitVec('mod_lo', 4)), imm32=z3.BitVec('imm32', 32))
    S = VMState(); i = z3.BitVecVal(NOFF, 32) if branch else z3.BitVec('i', 32)
    other = z3.BitVec('flag_other', 32); v2bit = z3.BitVec('v2', 1)
    vmflags = (other & ~z3.BitVecVal(V2, 32)) | z3.If(v2bit == 1, z3.BitVecVal(V2, 32), z3.BitVecVal(0, 32))
    offs = [z3.BitVec('ioff%d' % k, 32) for k in range(NOFF)]
    base_pc = [i >= 0, i < max_program_size()] + [z3.And(u >= -1, u < i) for u in S.usage] + [z3.And(c >= 4096, z3.ULE(c, BASE), c & 1 == 0) for c in offs]
    frm0 = z3.BitVec('frm0', 3); base_pc.append(z3.ULE(frm0, 3)); npaths = [0]; lens = []; chunks_seen = []
    tag = '%s(op %d) d%d s%d rcpCount=%d%s' % (kind, opcode, dst3, src3, rcp, '' if cond is None else ' mod.cond=%d' % cond)
    def rx_of_frm(f): return z3.If(f == 0, z3.BitVecVal(0, 2), z3.If(f == 2, z3.BitVecVal(1, 2), z3.If(f == 3, z3.BitVecVal(2, 2), z3.BitVecVal(3, 2))))
    def one(fk):
        it = Interp(mod); it.fork = fk; fk['pc'] += base_pc
        it.hooks['randomx_reciprocal_fast'] = lambda s, a: V.RCP(bv(a[0], 32) if not is_c(a[0]) else z3.BitVecVal(a[0], 32))
        st_ = it.mem.alloc(L['size'], 'state'); code = it.mem.alloc(CODE_SIZE, 'code')
        it.mem.store(Ptr('state', L['code']), code, 8); it.mem.store(Ptr('state', L['codePos']), BASE, 4); it.mem.store(Ptr('state', L['rcpCount']), rcp, 4)
        for k in range(8): it.mem.store(Ptr('state', L['usage'] + 4 * k), S.usage[k], 4)
        if branch:
            for k in range(NOFF): it.mem.store(Ptr('state', L['offsets'] + 4 * k), offs[k], 4)
            it.mem.store(Ptr('state', L['offsets'] + 4 * NOFF), BASE, 4)      # emitInstruction records the start of this instruction before calling the handler
        # literal pool as the constructor and emitProgramPrefix fill it: assembled literals, then eMask; reciprocal slots stale
        for k in range(0, LITN, 4): it.mem.store(Ptr('code', POOL + k), int.from_bytes(text[LIT0 + k:LIT0 + k + 4], 'little'), 4)
        for l in range(2): it.mem.store(Ptr('code', POOL + LITN + 8 * l), V.emask_of(S.q[l]), 8)
        for k in range(0, 64): it.mem.store(Ptr('code', POOL + 144 + 8 * k), z3.BitVec('rcplit%d' % k, 64), 8)
        ins = (opcode | (dst3 << 8) | (src3 << 16))
        insv = z3.Concat(W['imm32'], W['mod'], z3.BitVecVal(src3, 8), z3.BitVecVal(dst3, 8), z3.BitVecVal(opcode, 8))
        try: it.call(handler(it, opcode), [st_, insv, i, vmflags])
        except OOB as e:
            q.n += 1; q.sat += 1; q.failed.append((tag + ': emitter out-of-bounds access: %s' % e, {})); return
        end = concretize(it, it.mem.load(Ptr('state', L['codePos']), 4), 'code length')
        n = end - BASE; lens.append(n)
        ok = 0 <= n <= MAXLEN; q.n += 1; q.unsat += ok; q.sat += (not ok)
        if not ok: q.failed.append((tag + ': emitted %d bytes > %d (the per-instruction size the code-buffer budget of V0 is computed with)' % (n, MAXLEN), {})); return
        jusage = [it.mem.load(Ptr('state', L['usage'] + 4 * k), 4) for k in range(8)]
        # ---- machine in the register allocation of the runtime (jit_compiler_rv64.cpp constants)
        mem = it.mem; mem.mkarr('sp', P.L3); mem.objs['sp']['arr'] = S.sp
        m = Machine(mem, 'code', it)
        for r in range(1, 32): m.x[r] = z3.BitVec('x%d_0' % r, 64)
        for k in range(8): m.x[16 + k] = S.r[k]
        m.x[3] = Ptr('code', POOL); m.x[5] = Ptr('sp', 0); m.x[2] = Ptr('stack', 0)
        for r, (off, sz) in POOL_X.items():
            v = mem.load(Ptr('code', POOL + off), sz); m.x[r] = v if sz == 8 else (v if is_c(v) else z3.ZeroExt(32, v))
        l3 = mem.load(Ptr('code', POOL + 88), 4); m.x[1] = (l3 + 56) & ((1 << 64) - 1)       # lwu x1, 88(x3); addi x1, x1, 56
        for r in range(32): m.f[r] = z3.BitVec('f%d_0' % r, 64)
        for k in range(4):
            for l in range(2): m.f[2 * k + l] = S.f[k][l]; m.f[8 + 2 * k + l] = S.e[k][l]; m.f[16 + 2 * k + l] = S.a[k][l]
        for r, off in POOL_F.items(): m.f[r] = mem.load(Ptr('code', POOL + off), 8)
        m.frm = frm0
        scratch_x = (8, 9); scratch_f = (24, 25)
        keep_x = {r: m.x[r] for r in range(1, 32) if not (16 <= r < 24) and r not in scratch_x}; keep_f = {r: m.f[r] for r in range(32) if not (r < 16) and r not in scratch_f}
        try:
            r = m.run(BASE, stop={BASE + n}, max_steps=60)
        except (Fault, OOB) as e:
            q.n += 1; q.sat += 1; q.failed.append((tag + ': emitted code faults: %s' % e, {})); return
        for (pc_, txt) in m.disasm: pass
        pc = fk['pc']; npaths[0] += 1
        v2 = v2bit == 1
        st = dict(r=S.r, f=S.f, e=S.e, a=S.a, sp=S.sp, fprc=rx_of_frm(frm0), q=S.q, usage=S.usage)
        sp_ = V.step(kind, W, st, i, v2)
        facts = i2d_facts([bv(x, 64) for k in range(8, 16) for x in [m.f[k]]] + [bv(m.f[24], 64), bv(m.f[25], 64)]) if kind == 'FDIV_M' else []
        pcx = pc + facts
        for k in range(8):
            q.prove_eq(pcx, m.x[16 + k], sp_['r'][k], '%s: r%d' % (tag, k), 64)
            q.prove_eq(pcx, jusage[k], sp_['usage'][k], '%s: last-writer[%d]' % (tag, k), 32)
        for k in range(4):
            for l in range(2):
                q.prove_eq(pcx, m.f[2 * k + l], sp_['f'][k][l], '%s: f%d[%d]' % (tag, k, l), 64)
                q.prove_eq(pcx, m.f[8 + 2 * k + l], sp_['e'][k][l], '%s: e%d[%d]' % (tag, k, l), 64)
        q.prove_array_eq(pcx, mem.objs['sp']['arr'], sp_['sp'], '%s: scratchpad' % tag)
        q.prove(pcx, z3.ULE(bv(m.frm, 3), 3), '%s: frm stays a valid rounding mode' % tag)
        q.prove_eq(pcx, rx_of_frm(bv(m.frm, 3)), sp_['fprc'], '%s: rounding mode (frm in RandomX numbering)' % tag, 2)
        if r[0] == 'stop': q.prove_eq(pcx, sp_['next'], i + 1, '%s: falls through => spec continues with i+1' % tag, 32)
        elif r[0] == 'leave':
            _, pc_b, off = r[1]; wdt = off.size(); tgt = z3.BitVecVal(pc_b, 32) + z3.SignExt(32 - wdt, off)
            exp = z3.BitVecVal(BASE, 32)
            for k in range(NOFF - 1, -1, -1): exp = z3.If(sp_['next'] == k, offs[k], exp)
            q.prove_eq(pcx, tgt, exp, '%s: taken branch lands on instructionOffsets[spec next]' % tag, 32)
            q.prove(pcx, z3.And(sp_['next'] >= 0, sp_['next'] <= i), '%s: branch target index in [0,i]' % tag)
        else:
            q.n += 1; q.sat += 1; q.failed.append((tag + ': emitted fragment ended with %s' % (r,), {}))
        bad = []
        def same(v0, v1): return (isinstance(v0, Ptr) and isinstance(v1, Ptr) and v0.obj == v1.obj and ((is_c(v0.off) and is_c(v1.off) and v0.off == v1.off))) or (not isinstance(v0, Ptr) and not isinstance(v1, Ptr) and ((is_c(v0) and is_c(v1) and v0 == v1) or (not is_c(v0) and not is_c(v1) and v0.eq(v1))))
        for rr, v0 in keep_x.items():
            if not same(v0, m.x[rr]): bad.append(XN[rr])
        for rr, v0 in keep_f.items():
            if not same(v0, m.f[rr]): bad.append(FN[rr])
        q.n += 1; q.unsat += (not bad); q.sat += bool(bad)
        if bad: q.failed.append(('%s: modifies reserved registers %s (only x8, x9, f24, f25 are scratch)' % (tag, sorted(set(bad))), {}))
        for (kd, obj, off, nb) in m.accesses:
            if obj == 'code' and kd == 'load':
                okk = is_c(off) and 0 <= off and off + nb <= 4096; q.n += 1; q.unsat += okk; q.sat += (not okk)
                if not okk: q.failed.append(('%s: load from the code buffer outside the literal pool (%s)' % (tag, off), {}))
                continue
            if obj != 'sp': q.n += 1; q.sat += 1; q.failed.append(('%s: %s of object %s' % (tag, kd, obj), {}))
        extent_checks(q, pcx, mem, 'extent(rv64 code) ' + tag)
        # concrete instruction bytes for the decoder cross-check
        p_ = BASE
        for ln in m.lens:
            bs = [mem.load(Ptr('code', p_ + k), 1) for k in range(ln)]; bs = [b if is_c(b) else (z3.simplify(b).as_long() if z3.is_bv_value(z3.simplify(b)) else b) for b in bs]
            if all(is_c(b) for b in bs): chunks_seen.append(bytes(bs))
            p_ += ln
    res, nq = explore(one, limit=1500); q.n += nq
    r_ = result('V1', tag, q, paths=npaths[0], detail='%d paths, emitted lengths %s' % (npaths[0], sorted(set(lens))))
    r_['chunks'] = [c.hex() for c in sorted(set(chunks_seen))[:64]]
    return r_

def run_V1_group(ctx, case):
    out = []; op = case['opcode']
    for (d, s_) in case['pairs']:
        for rcp in case['rcps']:
            for cnd in case.get('conds', [None]): out.append(run_V1(ctx, dict(opcode=op, dst=d, src=s_, rcp=rcp, cond=cnd)))
    agg = out[0].copy()
    for k in ('queries', 'unsat', 'sat', 'unknown', 'obligations', 'paths'): agg[k] = sum(o.get(k, 0) for o in out)
    agg['solver_s'] = round(sum(o['solver_s'] for o in out), 2)
    agg['failed'] = [f for o in out for f in o['failed']][:6]; agg['inconclusive'] = [f for o in out for f in o['inconclusive']][:6]
    agg['status'] = 'violated' if agg['failed'] else ('inconclusive' if agg['inconclusive'] else 'proved')
    agg['case'] = 'opcode %d x register pairs %s x rcpCount %s' % (op, case['pairs'], case['rcps'])
    chunks = sorted(set(bytes.fromhex(c) for o in out for c in o.get('chunks', [])))
    if chunks:
        ref = llvm_disasm_bytes(ctx['tag'] + '-v1', chunks); mism = []
        for c, rt in zip(chunks, ref):
            try: mine, _ = decode_one(c + b'\x01\x00', 0)
            except Exception as e: mine = 'EXC ' + repr(e)[:40]
            a, b = norm_asm(mine), norm_asm(rt)
            if a != b and not (a.split()[0] in ('beqz', 'bnez', 'beq', 'j', 'jal') and a.split()[0] == b.split()[0]): mism.append('%s: llvm "%s" vs model "%s"' % (c.hex(), b, a))
        agg['queries'] += len(chunks); agg['unsat'] += len(chunks) - len(mism)
        if mism: agg['status'] = 'error'; agg['error'] = 'RV64 decoder disagrees with llvm-objdump (engine defect): ' + '; '.join(mism[:3])
    return agg

def pairs_V1(ctx, kind):
    if kind == 'CBRANCH': return [(0, 0), (5, 0)] if ctx['tier'] == 'quick' else [(d, 0) for d in range(8)]      # the source register field is not used by CBRANCH
    if ctx['tier'] != 'quick': return [(d, s_) for d in range(8) for s_ in range(8)]
    return [(d, d) for d in range(8)] + [(d, (d + 1) % 8) for d in range(8)]

def jobs_V1(ctx):
    J = []
    for k in P.ORDER:
        lo, hi = P.RANGE[k]; ops = [lo] if ctx['tier'] == 'quick' else sorted({lo, hi - 1})
        rcps = ([0, 5, 12, 237, 238] if ctx['tier'] == 'quick' else [0, 3, 4, 9, 10, 237, 238, 300, 493]) if k == 'IMUL_RCP' else [0]
        for op in ops:
            prs = pairs_V1(ctx, k)
            if k == 'CBRANCH':
                for (d_, s__) in prs:
                    for cnd in ([0, 7, 15] if ctx['tier'] == 'quick' else range(16)): J.append(dict(opcode=op, pairs=[(d_, s__)], rcps=rcps, conds=[cnd]))
                continue
            for c in range(0, len(prs), 4): J.append(dict(opcode=op, pairs=prs[c:c + 4], rcps=rcps))
    return J

# ------------------------------------------------------------------------------------------------ V0
def run_V0(ctx, case):
    q = Q(10); syms, text, obj = ctx['rv64']['syms'], ctx['rv64']['text'], ctx['rv64']['obj']
    out = build.run(['llvm-objdump-14', '-d', '--no-show-raw-insn', MATTR, obj]); ref = {}
    for l in out.split('\n'):
        mm = re.match(r'\s*([0-9a-f]+):\s+(.*)$', l)
        if mm: ref[int(mm.group(1), 16)] = mm.group(2).strip()
    ok = bad = skipped = 0; mism = []; off = syms['randomx_riscv64_data_init']; end = syms['randomx_riscv64_program_end']; loads_x = {}; loads_f = {}
    region_end = syms['randomx_riscv64_data_read']
    while off < end:
        rt = ref.get(off)
        try: mine, ln = decode_one(text, off)
        except Undecodable:
            skipped += 1; off += 4 if (text[off] & 3) == 3 else 2; continue
        if rt is not None and norm_asm(mine) == norm_asm(rt): ok += 1
        else: bad += 1; mism.append('%#x: llvm "%s" vs model "%s"' % (off, norm_asm(rt or '?'), norm_asm(mine)))
        if off < region_end:
            mm = re.match(r'(ld|lwu|lw|fld) (\w+), (-?\d+)\(gp\)', norm_asm(mine))
            if mm:
                nm, reg, o_ = mm.group(1), mm.group(2), int(mm.group(3))
                if nm == 'fld': loads_f[FN.index(reg)] = o_
                else: loads_x[XN.index(reg)] = (o_, 8 if nm == 'ld' else 4)
        off += ln
    q.n += ok + bad; q.unsat += ok; q.sat += bad
    for r, exp in POOL_X.items():
        okk = loads_x.get(r) == exp; q.n += 1; q.unsat += okk; q.sat += (not okk)
        if not okk: q.failed.append(('runtime: %s is loaded from %s, the harness assumes literal-pool slot %s' % (XN[r], loads_x.get(r), exp), {}))
    okk = loads_x.get(1) == (88, 4); q.n += 1; q.unsat += okk; q.sat += (not okk)
    if not okk: q.failed.append(('runtime: the L3 mask register x1 is not loaded from literal-pool slot 88', {}))
    for r, exp in POOL_F.items():
        okk = loads_f.get(r) == exp; q.n += 1; q.unsat += okk; q.sat += (not okk)
        if not okk: q.failed.append(('runtime: %s is loaded from %s, the harness assumes literal-pool slot %s' % (FN[r], loads_f.get(r), exp), {}))
    # code-buffer budget: literal pool + data-init/prologue/loop head + 384 instructions of MAXLEN bytes + the longest suffix fit below the SuperscalarHash literal pool
    src = open(os.path.join(build.REPO, 'src', 'jit_compiler_rv64.cpp')).read()
    def const(nm):
        mm = re.search(r'constexpr\s+\w+\s+%s\s*=\s*(\d+)\s*;' % nm, src); return int(mm.group(1)) if mm else None
    mx, align = const('MaxRandomXInstrCodeSize'), const('CodeAlign'); nprog = build.config_constants().get('RANDOMX_PROGRAM_MAX_SIZE', 384)
    if mx is None or align is None: q.n += 1; q.sat += 1; q.failed.append(('code-buffer constants not readable from jit_compiler_rv64.cpp', {}))
    else:
        rxsize = ((align + align + mx * nprog) + align - 1) // align * align
        sz = lambda a, b: syms[b] - syms[a]
        head = sz('randomx_riscv64_data_init', 'randomx_riscv64_data_read')
        read = max(sz('randomx_riscv64_data_read', 'randomx_riscv64_data_read_light'), sz('randomx_riscv64_data_read_light', 'randomx_riscv64_data_read_light_v1') + max(sz('randomx_riscv64_data_read_light_v1', 'randomx_riscv64_data_read_light_v2'), sz('randomx_riscv64_data_read_light_v2', 'randomx_riscv64_fix_loop_call')) + sz('randomx_riscv64_fix_loop_call', 'randomx_riscv64_spad_store'))
        tail = max(sz('randomx_riscv64_spad_store', 'randomx_riscv64_spad_store_softaes'), sz('randomx_riscv64_spad_store_softaes', 'randomx_riscv64_loop_end')) + sz('randomx_riscv64_loop_end', 'randomx_riscv64_epilogue') + sz('randomx_riscv64_epilogue', 'randomx_riscv64_softaes') + sz('randomx_riscv64_softaes', 'randomx_riscv64_program_end')
        from lemmas.rv64 import MAXLEN as _ML
        need = align + head + _ML * nprog + read + tail; okk = need <= rxsize; q.n += 1; q.unsat += okk; q.sat += (not okk)
        if not okk: q.failed.append(('a program of %d instructions of up to %d bytes needs %d bytes of the code buffer but the SuperscalarHash literal pool starts at %d' % (nprog, _ML, need, rxsize), {}))
    r = result('V0', 'runtime decode + literal loads', q, paths=1, detail='%d runtime instructions read identically by LLVM and the model, %d outside the modelled subset; 17 literal-pool loads checked' % (ok, skipped))
    if bad: r['status'] = 'error'; r['error'] = 'RV64 decoder disagrees with llvm-objdump (engine defect): ' + '; '.join(mism[:3]); r['failed'] = [f for f in r['failed'] if 'runtime:' in f[0]]
    return r

LEMMAS = {
    'V1': dict(jobs=jobs_V1, run=run_V1_group, units=['rv64'], rv64=True, functions=['h_* (30 scalar emitters of jit_compiler_rv64.cpp)', 'emitImm32', 'genAddressReg', 'genAddressRegImm', 'genAddressRegDst', 'loadFromScratchpad', 'emitRcpLiteral1', 'emitJump', 'CodeBuffer::emit/emitAt', 'opcodeMap1[256]'],
               doc='per-instruction translation validation of the scalar RISC-V back-end: the RV64GC code emitted for an instruction word, executed under the RV64 model from an arbitrary machine state in the runtime\'s register allocation, gives the spec step: r0-r7, f, e, whole scratchpad, rounding mode (frm), branch target = instructionOffsets[next], last-writer table; a0-a3, mask, literal and every other register preserved (x8, x9, f24, f25 are scratch); length <= 56; accesses in bounds',
               bound='first opcode of each of the 29 ranges (quick) / first and last (thorough); register pairs (d,d) and (d,d+1) for every d (quick; CBRANCH: d in {0,5}) / all 64 (thorough; CBRANCH: every d); mod and imm32 symbolic; reciprocal-literal counts {0,5,12,237,238} (quick) / 9 values; any register file, scratchpad, frm in 0..3, both versions',
               symbolic='mod, imm32, r0-r7, f/e/a, scratchpad, E masks, frm, every other register, reciprocal literal slots, program index, last-writer table, earlier instruction offsets',
               stubs=['FP ops := uninterpreted functions of (rounding mode, operands), shared with the spec', 'randomx_reciprocal_fast := uninterpreted rcp (R1/R2)', 'RV64 semantics: engine/rv64sem.py (ISA manual transcription; decoding cross-checked against llvm-objdump, semantics NOT validated on hardware)',
                      'frame facts assumed: x5 = scratchpad, x3 = literal pool + 2048, mask/literal registers loaded from the pool slots V0 checks, x1 = L3 mask + 56'],
               outside='the vector (RVV) back-end; the Zba/Zbb variants of the emitters (the x86-hosted lowering does not define them); IEEE arithmetic (the program loop is V3, the generated SuperscalarHash code V5/V6)'),
    'V0': dict(jobs=lambda ctx: ['runtime'], run=run_V0, units=[], rv64=True, functions=['engine/rv64sem.py decoder', 'jit_compiler_rv64_static.S literal-pool loads'],
               doc='RV64 decoder cross-check: every instruction of the assembled scalar runtime inside the modelled subset reads the same in the model and in llvm-objdump (lengths, fields, compressed expansions); the runtime loads the mask and literal registers from the pool slots V1 assumes',
               bound='the assembled runtime from data_init to program_end', symbolic='-', stubs=[]),
}

# ------------------------------------------------------------------------------------------------ V5: the generated SuperscalarHash routine
def rv64_linked(tag):
    """the runtime assembled without relaxation and linked at address 0 (ld.lld) so that pc-relative references to its literal pools are resolved"""
    d = build.workdir(tag); o = os.path.join(d, 'rv64_norelax.o'); e = os.path.join(d, 'rv64_linked.elf')
    build.run(['clang-14', '--target=riscv64-linux-gnu', '-march=rv64gc', '-mno-relax', '-c', '-I', os.path.join(build.REPO, 'src'), os.path.join(build.REPO, 'src', 'jit_compiler_rv64_static.S'), '-o', o])
    build.run(['ld.lld', '-m', 'elf64lriscv', '-Ttext=0', '-e', '0', o, '-o', e])
    syms = {}
    for l in build.run(['llvm-nm-14', '-n', e]).splitlines():
        p = l.split()
        if len(p) == 3: syms[p[2]] = int(p[0], 16)
    b = os.path.join(d, 'rv64_linked.bin'); build.run(['llvm-objcopy-14', '-O', 'binary', '--only-section=.text', e, b])
    return syms, open(b, 'rb').read()

def run_V5(ctx, case):
    """the real generateSuperscalarHash emits the SuperscalarHash routine (init template, code per instruction, load/prefetch templates, literal pool);
    the routine, executed under the RV64 model for a symbolic cache and item number, leaves the item of specification 7.3 in x8-x15"""
    from lemmas.sshash import kind_numbers, spec_ss, KINDS
    from lemmas import life
    from engine import cxxlib
    q = Q(120); mod = Module(ctx['ll']['rv64']); L = state_layout(mod); KN = kind_numbers(); npaths = [0]; variant = case['variant']
    syms, text = rv64_linked(ctx['tag'] + '-v5-%d' % os.getpid()); NP = P.CACHE_ACCESSES
    plans = []; single = case.get('single')
    for k in range(NP):
        if single: ks = [single[0]] if k == single[3] else []
        else: ks = [KINDS[(variant * 5 + 3 * k + j) % len(KINDS)] for j in range(case['len'])]
        ins = []
        for j, kd in enumerate(ks):
            d = (k + 2 * j + variant) % 8; s_ = (d + 1 + j) % 8
            if single: d, s_ = single[1], single[2]
            if kd == 'IADD_RS' and d == 5: d = 6; s_ = 7
            if s_ == d: s_ = (d + 1) % 8
            ins.append((kd, d, s_))
        plans.append((ins, (3 * k + variant) % 8))
    item = z3.BitVec('itemNumber', 64); tag = 'SuperscalarHash routine (RV64) %s' % (('single %s r%d,r%d in program %d' % tuple(single)) if single else 'variant %d' % variant)
    tj = resolve(NamedT('class.randomx::JitCompilerRV64', mod)); oj = tj.layout()[0]
    def one(fk):
        it = Interp(mod); it.fork = fk; H = life.Heap(it, fail=False); cxxlib.install(it, H)
        it.mem.alloc(len(text) + 64, 'text')
        for k, b in enumerate(text): it.mem.objs['text']['bytes'][k] = b
        it.extern = {nm: Ptr('text', off) for nm, off in syms.items()}
        life.run_ctors(it, mod)
        J = it.mem.alloc(tj.size(), 'J'); CB = 1 << 18; code = it.mem.alloc(CB, 'code')
        for k in range(0, tj.size() - tj.size() % 8, 8): it.mem.store(Ptr('J', k), 0, 8)
        it.mem.store(Ptr('J', oj[0] + L['code']), code, 8); it.mem.store(Ptr('J', oj[2]), Ptr(None, 0), 8)       # vectorCode = nullptr: scalar back-end
        # what the constructor copies: literals at LiteralPoolOffset
        LIT0 = syms['randomx_riscv64_literals']; LITN = syms['randomx_riscv64_literals_end'] - LIT0
        for k in range(LITN): it.mem.objs['code']['bytes'][POOL + k] = text[LIT0 + k]
        tp = resolve(NamedT('class.randomx::SuperscalarProgram', mod)); po = tp.layout()[0]
        progs = it.mem.alloc(NP * tp.size(), 'programs'); imms = {}; rcps = []
        for k, (ins, ar) in enumerate(plans):
            base = k * tp.size(); it.mem.store(Ptr('programs', base + po[1]), len(ins), 4); it.mem.store(Ptr('programs', base + po[2]), ar, 4)
            for j, (kd, d, s_) in enumerate(ins):
                REP = [5, 0x7ff, 0x800, 0x12345, 0x1000000, 0x7fffffff, 0x80000000, 0xfffff800, 0xffffffff, 0xfedcba98, 63, 0x1f000]      # stitched variants: concrete immediates of every materialisation class (symbolic ones are covered by the single-instruction jobs)
                imm = z3.BitVec('imm_%d_%d' % (k, j), 32) if single else z3.BitVecVal(REP[(variant * 3 + 5 * k + j) % len(REP)], 32); mo = z3.BitVec('mod_%d_%d' % (k, j), 8) if single else z3.BitVecVal(((variant + k + j) % 4) << 2, 8); imms[(k, j)] = (imm, mo)
                if kd == 'IROR_C':
                    if single: fk['pc'] += [z3.UGE(imm, 1), z3.ULE(imm, 63)]
                    else: imm = z3.BitVecVal(1 + (variant * 7 + 11 * k + j) % 63, 32); imms[(k, j)] = (imm, mo)
                if kd == 'IMUL_RCP': rcps.append(z3.BitVec('rcp_%d_%d' % (k, j), 64)); immv = len(rcps) - 1
                else: immv = imm
                for b_, v in enumerate((KN[kd], d, s_, mo)): it.mem.store(Ptr('programs', base + 8 * j + b_), v, 1)
                it.mem.store(Ptr('programs', base + 8 * j + 4), immv, 4)
        it.mem.alloc(24, 'rcpvec'); it.mem.alloc(8 * max(1, len(rcps)), 'rcpbuf')
        for n_, v in enumerate(rcps): it.mem.store(Ptr('rcpbuf', 8 * n_), v, 8)
        it.mem.store(Ptr('rcpvec', 0), Ptr('rcpbuf', 0), 8); it.mem.store(Ptr('rcpvec', 8), Ptr('rcpbuf', 8 * len(rcps)), 8); it.mem.store(Ptr('rcpvec', 16), Ptr('rcpbuf', 8 * len(rcps)), 8)
        it.call('_ZN7randomx15JitCompilerRV6423generateSuperscalarHashERSt5arrayINS_18SuperscalarProgramELm8EERSt6vectorImSaImEE', [J, progs, Ptr('rcpvec', 0)])
        end = concretize(it, it.mem.load(Ptr('J', oj[0] + L['codePos']), 4), 'code length')
        # entry = SuperScalarHashOffset: where the emitter started; recover it as end - emitted length is not needed: it is the position the data-init call is patched to
        src = open(os.path.join(build.REPO, 'src', 'jit_compiler_rv64.cpp')).read()
        def const(nm):
            mm = re.search(r'constexpr\s+\w+\s+%s\s*=\s*(\d+)\s*;' % nm, src); return int(mm.group(1))
        align = const('CodeAlign'); rxsize = ((align + align + const('MaxRandomXInstrCodeSize') * build.config_constants().get('RANDOMX_PROGRAM_MAX_SIZE', 384)) + align - 1) // align * align
        ENTRY = rxsize + NP * align
        # ---- machine: as randomx_riscv64_data_init calls it: x7 = item number, x6 = cache memory, x3 = literal pool, x1 = return address
        mem = it.mem; CACHE = P.ARGON_MEMORY * 1024
        mem.mkarr('cachemem', CACHE); mem.share('cachemem'); loads = []
        def cache_load(off, nbytes):
            v = z3.BitVec('cacheword%d' % len(loads), 8 * nbytes); loads.append((bv(off, 64), nbytes, v)); return v
        mem.symload['cachemem'] = cache_load
        mem.watch['cachemem'] = lambda p_, n_: (_ for _ in ()).throw(Fault('the SuperscalarHash routine writes to the cache'))
        m = Machine(mem, 'code', it); entry = {r: z3.BitVec('x%d_entry' % r, 64) for r in range(1, 32)}
        for r in range(1, 32): m.x[r] = entry[r]
        for r in range(32): m.f[r] = z3.BitVec('f%d_entry' % r, 64)
        m.x[7] = item; m.x[6] = Ptr('cachemem', 0); m.x[3] = Ptr('code', POOL); m.x[1] = Ptr('caller', 0); m.x[2] = Ptr('stack', 0); m.frm = z3.BitVec('frm', 3)
        def chk(c, what):
            q.n += 1; q.unsat += bool(c); q.sat += (not c)
            if not c: q.failed.append(('%s: %s' % (tag, what), {}))
        try: r = m.run(ENTRY, stop={end}, max_steps=4000)
        except (Fault, OOB) as e:
            chk(False, 'generated routine does not execute: %s' % e); return
        npaths[0] += 1; pc = fk['pc']
        chk(r[0] == 'ret' and isinstance(r[1], Ptr) and r[1].obj == 'caller', 'returns to the caller (got %s)' % (r,))
        consts = [6364136223846793005, 9298411001130361340, 12065312585734608966, 9306329213124626780, 5281919268842080866, 10536153434571861004, 3398623926847679864, 9549104520008361294]
        B = lambda v: z3.BitVecVal(v, 64)
        rr = [(item + 1) * B(consts[0])]; rr += [rr[0] ^ B(c) for c in consts[1:]]; ci = item; ri = 0
        for k, (ins, ar) in enumerate(plans):
            off = (ci & (CACHE // 64 - 1)) * 64
            for j, (kd, d, s_) in enumerate(ins):
                imm, mo = imms[(k, j)]
                if kd == 'IMUL_RCP': rv = rcps[ri]; ri += 1
                else: rv = None
                rr = list(rr); rr[d] = spec_ss(kd, rr, d, s_, imm, mo, rv)
            mine = loads[8 * k:8 * k + 8]
            okl = len(mine) == 8 and all(nb_ == 8 for (_, nb_, _) in mine); q.n += 1; q.unsat += okl; q.sat += (not okl)
            if not okl: q.failed.append(('%s: program %d: does not read 8 words of one cache line' % (tag, k), {})); return
            for w, (aoff, nb_, sym) in enumerate(mine): q.prove_eq(pc, aoff, off + 8 * w, '%s: program %d: cache word %d read at 64*(cacheIndex mod lines)+%d' % (tag, k, w, 8 * w), 64)
            rr = [rr[w] ^ mine[w][2] for w in range(8)]; ci = rr[ar]
        for w in range(8): q.prove_eq(pc, m.x[8 + w], rr[w], '%s: x%d == item word %d of spec 7.3' % (tag, 8 + w, w), 64)
        chk(len(loads) == 8 * NP, 'exactly %d cache words read' % (8 * NP))
        bad = [XN[r_] for r_ in (2, 3, 4, 5, 6) + tuple(range(16, 28)) if not (isinstance(m.x[r_], Ptr) and isinstance(entry.get(r_, None), Ptr)) and not (r_ in (2, 3, 6) or (not isinstance(m.x[r_], Ptr) and not is_c(m.x[r_]) and m.x[r_].eq(entry[r_])))]
        chk(not bad, 'registers outside x1, x7-x15, x28-x31 unchanged (%s)' % bad)
        for (kd, obj, off_, nb) in m.accesses:
            if obj == 'code' and kd == 'store': chk(False, 'store into the code buffer')
            elif obj not in ('code', 'cachemem'): chk(False, 'access to object %s' % obj)
        extent_checks(q, pc, mem, tag)
    res, nq = explore(one, limit=64); q.n += nq
    return result('V5', tag, q, paths=npaths[0], detail='%d paths; programs %s' % (npaths[0], [[i_[0] for i_ in p_[0]] for p_ in plans][:3]))

def jobs_V5(ctx):
    from lemmas.sshash import KINDS
    J = [dict(variant=v, len=(2 if ctx['tier'] == 'quick' else 4)) for v in (range(4) if ctx['tier'] == 'quick' else range(16))]
    for n_, kd in enumerate(KINDS):
        for (d, s_, pk) in (((n_ % 8, (n_ + 3) % 8, n_ % 8),) if ctx['tier'] == 'quick' else tuple((d, (d + 1 + n_) % 8, (d + n_) % 8) for d in range(8))):
            J.append(dict(variant=0, len=1, single=(kd, d, s_, pk)))
    return J
LEMMAS['V5'] = dict(jobs=jobs_V5, run=run_V5, units=['rv64'], rv64=True,
    functions=['JitCompilerRV64::generateSuperscalarHash', 'generateSuperscalarCode', 'emitImm32', 'emitRcpLiteral2', 'assembled templates: randomx_riscv64_ssh_init / ssh_load / ssh_prefetch (linked so that their pc-relative literal-pool references are resolved)'],
    doc='the SuperscalarHash routine the scalar RISC-V back-end generates (templates + code emitted for a program list + reciprocal literal pool), executed under the RV64 model for a symbolic cache and item number, leaves the item of specification 7.3 (instruction semantics of 6.1) in x8-x15; reads exactly one cache line per program at 64*(cacheIndex mod lines)',
    bound='(a) program lists of 8 programs x 2 (quick) / 4 instructions drawn from all 14 kinds (4 / 16 variants), reciprocals symbolic, immediates and shifts concrete representatives of every materialisation class; (b) every kind alone in one program with an unconstrained immediate; any cache content and item number',
    symbolic='cache (cut points), item number, immediates, reciprocals, entry registers', stubs=['cache words := fresh symbols at recorded addresses', 'RV64 semantics: engine/rv64sem.py', 'ld.lld resolves the pc-relative relocations of the templates'],
    outside='the vector back-end (the loop around the call is V6)')
