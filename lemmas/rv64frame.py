# RISC-V back-end, frame lemma V3 (C20): the hand-written program loop of jit_compiler_rv64_static.S as JitCompilerRV64::generateProgram stitches it,
# executed under the RV64 model: entry establishes spec 4.6.1 and the register conventions V1 assumes, one iteration from an arbitrary loop state
# == spec 4.6.2 (same oracle as I8/J3/N3), exit stores the register file and restores the caller's state.  Program body abstracted.  Full mode, v1.
import z3, os, re
from lemmas.common import *
from engine.irsym import Module, Interp, Mem, Ptr, is_c, bv, resolve, NamedT, explore, OOB, i2d
from engine import build, irsym, cxxlib
from engine.rv64sem import Machine, XN, FN
from engine.x86sem import Undecodable, Fault, simp
from spec import params as P, vm_ref as V
from lemmas import life
from lemmas.rv64 import UNITS, state_layout, rv64_linked, POOL, POOL_X, POOL_F

def run_V3(ctx, case):
    light = case.get('light', False); v2 = case.get('v2', False); q = Q(120); mod = Module(ctx['ll']['rv64']); L = state_layout(mod); npaths = [0]; F = life.flagvals()
    syms, text = rv64_linked(ctx['tag'] + '-v3-%d' % os.getpid())
    rr = [2 * i + ((case['rr'] >> i) & 1) for i in range(4)]; qm = [z3.BitVec('q%d' % (14 + i), 64) for i in range(2)]
    tag = 'RV64 frame %s %s readReg=%s' % ('light' if light else 'full', 'v2 (software AES)' if v2 else 'v1', rr)
    dso32 = z3.BitVec('datasetOffset32', 32); dso = z3.ZeroExt(32, dso32) if light else z3.BitVec('datasetOffset', 64); base_pc = [z3.ULE(dso, P.DATASET_EXTRA), dso & 63 == 0]
    DSI = [z3.Function('DSI%d' % k, z3.BitVecSort(64), z3.BitVecSort(64)) for k in range(8)]
    src_ = open(os.path.join(build.REPO, 'src', 'jit_compiler_rv64.cpp')).read()
    def const(nm):
        mm = re.search(r'constexpr\s+\w+\s+%s\s*=\s*(\d+)\s*;' % nm, src_); return int(mm.group(1))
    align = const('CodeAlign'); SSH = ((align + align + const('MaxRandomXInstrCodeSize') * build.config_constants().get('RANDOMX_PROGRAM_MAX_SIZE', 384)) + align - 1) // align * align + P.CACHE_ACCESSES * align      # SuperScalarHashOffset
    L3M = P.MASK_L3_64; DM = (P.DATASET_BASE - 1) & ~63
    z64 = lambda v: z3.ZeroExt(32, v); ld = lambda arr, off: z3.Concat(*[z3.Select(arr, off + k) for k in reversed(range(8))])
    tj = resolve(NamedT('class.randomx::JitCompilerRV64', mod)); oj = tj.layout()[0]; phase_seen = set()
    sz = lambda a, b: syms[b] - syms[a]
    ENTRY = 4096 + sz('randomx_riscv64_data_init', 'randomx_riscv64_prologue'); LOOPTOP = ENTRY + sz('randomx_riscv64_prologue', 'randomx_riscv64_loop_begin'); PROG = LOOPTOP + sz('randomx_riscv64_loop_begin', 'randomx_riscv64_data_read')
    def one(fk):
        it = Interp(mod); it.fork = fk; fk['pc'] += base_pc
        H = life.Heap(it, fail=False); cxxlib.install(it, H)
        it.mem.alloc(len(text) + 64, 'text'); it.mem.objs['text']['addr'] = 0x10000000
        for k, b in enumerate(text): it.mem.objs['text']['bytes'][k] = b
        it.extern = {nm: Ptr('text', off) for nm, off in syms.items()}
        it.mem.alloc(4096, 'lut_enc'); it.mem.alloc(4096, 'lut_dec'); it.extern['randomx_aes_lut_enc'] = Ptr('lut_enc', 0); it.extern['randomx_aes_lut_dec'] = Ptr('lut_dec', 0)
        life.run_ctors(it, mod)
        def alloc_pages(s_, a):
            n = a[0] if is_c(a[0]) else z3.simplify(a[0]).as_long(); return s_.mem.alloc(n, 'codebuf')
        it.hooks['allocMemoryPages'] = alloc_pages
        for f in mod.funcs:
            if f.endswith('Cpu6hasRVVEv'): it.hooks[f] = lambda s_, a: 0
        J = it.mem.alloc(tj.size(), 'J')
        for k in range(0, tj.size() - tj.size() % 8, 8): it.mem.store(Ptr('J', k), 0, 8)
        it.call('_ZN7randomx15JitCompilerRV64C2Ev', [J]); code = it.mem.load(Ptr('J', oj[0] + L['code']), 8)
        flags = F['JIT'] | (0 if light else F['FULL_MEM']) | (F['V2'] if v2 else 0); it.mem.store(Ptr('J', oj[1]), flags, 4)
        ncalls = [0]
        for f in mod.funcs:
            if re.match(r'_ZN7randomxL\d+h_\w+ERNS_13CompilerStateE', f): it.hooks[f] = (lambda s, a: ncalls.__setitem__(0, ncalls[0] + 1))
        prog = it.mem.alloc(128 + 8 * 512, 'prog'); pcfg = it.mem.alloc(32, 'pcfg')
        for k in range(0, 128 + 8 * 512, 8): it.mem.store(Ptr('prog', k), 0, 8)
        for l in range(2): it.mem.store(Ptr('pcfg', 8 * l), V.emask_of(qm[l]), 8)
        for k in range(4): it.mem.store(Ptr('pcfg', 16 + 4 * k), rr[k], 4)
        if light: it.call('_ZN7randomx15JitCompilerRV6420generateProgramLightERNS_7ProgramERNS_20ProgramConfigurationEj', [J, prog, pcfg, dso32])
        else: it.call('_ZN7randomx15JitCompilerRV6415generateProgramERNS_7ProgramERNS_20ProgramConfigurationE', [J, prog, pcfg])
        def chk(c, what):
            q.n += 1; q.unsat += bool(c); q.sat += (not c)
            if not c: q.failed.append(('%s: %s' % (tag, what), {}))
        chk(ncalls[0] in (256, 384), 'an emitter is called for every instruction of the program (%d calls)' % ncalls[0])
        ENDPOS = concretize(it, it.mem.load(Ptr('J', oj[0] + L['codePos']), 4), 'end of the generated code'); SOFT_ENC = ENDPOS - sz('randomx_riscv64_softaes', 'randomx_riscv64_program_end'); SOFT_DEC = SOFT_ENC + sz('softaes_enc', 'softaes_dec')
        mem = it.mem; CODE = code.obj
        mem.mkarr('sp', P.L3); S0 = mem.objs['sp']['arr']; mem.mkarr('dataset', P.DATASET_BASE + P.DATASET_EXTRA); D0 = mem.objs['dataset']['arr']; mem.share('dataset'); mem.alloc(64, 'cachemem'); mem.share('cachemem')
        mem.alloc(256, 'regfile'); A = [[z3.BitVec('a%d_%d' % (i, l), 64) for l in range(2)] for i in range(4)]
        for k in range(0, 192, 8): mem.store(Ptr('regfile', k), z3.BitVec('rf_stale%d' % k, 64), 8)
        for i in range(4):
            for l in range(2): mem.store(Ptr('regfile', 192 + 16 * i + 8 * l), A[i][l], 8)
        mx0, ma0 = z3.BitVecs('mx_entry ma_entry', 32)
        mem.alloc(16, 'memregs'); mem.store(Ptr('memregs', 0), mx0, 4); mem.store(Ptr('memregs', 4), ma0, 4); mem.store(Ptr('memregs', 8), Ptr('cachemem', 0) if light else Ptr('dataset', dso), 8)
        STK = 1024; mem.alloc(STK + 64, 'stack')
        for k in range(0, STK + 64, 8): mem.store(Ptr('stack', k), z3.BitVec('stk%d' % k, 64), 8)
        m = Machine(mem, CODE, it); entry = {r: z3.BitVec('x%d_entry' % r, 64) for r in range(1, 32)}; fentry = {r: z3.BitVec('f%d_entry' % r, 64) for r in range(32)}
        for r in range(1, 32): m.x[r] = entry[r]
        for r in range(32): m.f[r] = fentry[r]
        iters = z3.BitVec('iterations', 64); fk['pc'] += [iters >= 1, iters < (1 << 31)]
        m.x[10] = Ptr('regfile', 0); m.x[11] = Ptr('memregs', 0); m.x[12] = Ptr('sp', 0); m.x[13] = iters; m.x[1] = Ptr('caller', 0); m.x[2] = Ptr('stack', STK)
        frm_e = z3.BitVec('frm_entry', 3); m.frm = frm_e
        # ---------------- phase 1: prologue -> loop top (4.6.1)
        try: r = m.run(ENTRY, stop={LOOPTOP}, max_steps=300)
        except (Fault, OOB) as e:
            chk(False, 'prologue does not execute: %s' % e); return
        chk(r == ('stop', LOOPTOP), 'prologue reaches the loop top (got %s)' % (r,))
        pc = fk['pc']
        for k in range(8): q.prove_eq(pc, m.x[16 + k], 0, '%s: 4.6.1: r%d = 0 at loop entry' % (tag, k), 64)
        for i in range(4):
            for l in range(2): q.prove_eq(pc, m.f[16 + 2 * i + l], A[i][l], '%s: group A register a%d[%d] loaded from the register file' % (tag, i, l), 64)
        q.prove_eq(pc, m.x[25], z3.Concat(ma0, mx0), '%s: x25 = (ma, mx)' % tag, 64)
        chk(isinstance(m.x[5], Ptr) and m.x[5].obj == 'sp' and m.x[5].off == 0, 'x5 = scratchpad')
        chk(isinstance(m.x[6], Ptr) and m.x[6].obj == ('cachemem' if light else 'dataset'), 'x6 = dataset / cache pointer'); x6_loop = m.x[6]
        chk(isinstance(m.x[3], Ptr) and m.x[3].obj == CODE and m.x[3].off == POOL, 'x3 = literal pool (buffer offset %d)' % POOL)
        for nm_, r_, a_ in (('spAddr0', 26, mx0), ('spAddr1', 27, ma0)):
            okp = isinstance(m.x[r_], Ptr) and m.x[r_].obj == 'sp'; chk(okp, '%s register points into the scratchpad' % nm_)
            if okp: q.prove_eq(pc, bv(m.x[r_].off, 64), z64(a_ & L3M), '%s: 4.6.1: %s = %s (masked)' % (tag, nm_, 'mx' if r_ == 26 else 'ma'), 64)
        if not light:
            okp = isinstance(m.x[7], Ptr) and m.x[7].obj == 'dataset'; chk(okp, 'x7 = address of the first dataset read')
            if okp: q.prove_eq(pc, bv(m.x[7].off, 64), dso + z64(ma0 & DM), '%s: x7 = dataset + (ma mod dataset size, line aligned)' % tag, 64)
        q.prove_eq(pc, m.x[24], iters, '%s: x24 = iteration count' % tag, 64)
        # mask / literal registers as V1 assumes them
        lit = lambda off, n: mem.load(Ptr(CODE, POOL + off), n)
        q.prove_eq(pc, m.x[10], z64(bv(lit(80, 4), 32)), '%s: x10 = L1 mask' % tag, 64); q.prove_eq(pc, m.x[11], z64(bv(lit(84, 4), 32)), '%s: x11 = L2 mask' % tag, 64)
        q.prove_eq(pc, m.x[1], z64(bv(lit(88, 4), 32)) + 56, '%s: x1 = L3 mask + 56' % tag, 64)
        q.prove_eq(pc, m.x[12], lit(96, 8), '%s: x12 = FSCAL mask' % tag, 64); q.prove_eq(pc, m.x[13], lit(104, 8), '%s: x13 = E clear mask' % tag, 64)
        for l in range(2): q.prove_eq(pc, m.x[14 + l], V.emask_of(qm[l]), '%s: x%d = E or-mask of this program (emitted into the literal pool)' % (tag, 14 + l), 64)
        got = [lit(80, 4), lit(84, 4), lit(88, 4), lit(92, 4), lit(96, 8)]; want = [(P.L1 - 1) & ~7, (P.L2 - 1) & ~7, L3M, DM, 0x80F0000000000000]      # (the E clear mask is checked semantically: step 3 / FDIV_M equal the specification conversion)
        chk(got == want, 'literal pool holds the masks of the specification (L1/L2/L3/dataset/FSCAL): %s vs %s' % ([hex(g) if is_c(g) else '?' for g in got], [hex(w_) for w_ in want]))
        rm_tab = [lit(64 + 4 * k, 4) for k in range(4)]; chk(rm_tab == [0, 2, 3, 1], 'rounding-mode table maps RandomX modes 0-3 to frm values RNE, RDN, RUP, RTZ (%s)' % rm_tab)
        q.prove_eq(pc, bv(m.frm, 3), frm_e, '%s: prologue leaves frm alone' % tag, 3)
        FRAME = m.x[2].off if isinstance(m.x[2], Ptr) else None; chk(FRAME is not None and FRAME < STK and FRAME % 16 == 0, 'sp = 16-byte aligned frame base')
        # ---------------- phase 2: one iteration from an arbitrary loop state (4.6.2)
        R0 = [z3.BitVec('r%d' % i, 64) for i in range(8)]; ma, mx = z3.BitVecs('ma mx', 32); ic = z3.BitVec('ic', 64); fk['pc'] += [ic >= 1, ic < (1 << 31)]
        for k in range(8): m.x[16 + k] = R0[k]
        mix = R0[rr[0]] ^ R0[rr[1]]; A0 = z3.Extract(31, 0, mix) & L3M; A1 = z3.Extract(63, 32, mix) & L3M
        m.x[26] = Ptr('sp', z64(A0)); m.x[27] = Ptr('sp', z64(A1)); m.x[25] = z3.Concat(ma, mx); m.x[24] = ic; m.x[7] = z3.BitVec('x7_h', 64) if light else Ptr('dataset', dso + z64(ma & DM))
        for r_ in (8, 9, 28, 29, 30, 31): m.x[r_] = z3.BitVec('x%d_h' % r_, 64)
        for r_ in list(range(0, 16)) + [24, 25]: m.f[r_] = z3.BitVec('f%d_h' % r_, 64)
        frm_l = z3.BitVec('frm_loop', 3); m.frm = frm_l
        st = {}
        def program(mach):
            st['pre'] = dict(r=[mach.x[16 + k] for k in range(8)], f=[[mach.f[2 * k + l] for l in range(2)] for k in range(4)], e=[[mach.f[8 + 2 * k + l] for l in range(2)] for k in range(4)], sp=mach.mem.objs['sp']['arr'],
                             rcp=[mach.x[28 + k] for k in range(4)])
            st['r2'] = [z3.BitVec('r2_%d' % i, 64) for i in range(8)]
            st['f2'] = [[z3.BitVec('f2_%d_%d' % (i, l), 64) for l in range(2)] for i in range(4)]; st['e2'] = [[z3.BitVec('e2_%d_%d' % (i, l), 64) for l in range(2)] for i in range(4)]
            for k in range(8): mach.x[16 + k] = st['r2'][k]
            for k in range(4):
                for l in range(2): mach.f[2 * k + l] = st['f2'][k][l]; mach.f[8 + 2 * k + l] = st['e2'][k][l]
            mach.mem.objs['sp']['arr'] = z3.Array('sp_after_program', z3.BitVecSort(64), z3.BitVecSort(8)); st['sp2'] = mach.mem.objs['sp']['arr']
            for r_ in (8, 9): mach.x[r_] = z3.BitVec('x%d_after_program' % r_, 64)          # V1: an instruction may clobber x8, x9, f24, f25 and change frm (CFROUND)
            for r_ in (24, 25): mach.f[r_] = z3.BitVec('f%d_after_program' % r_, 64)
            st['frm2'] = z3.BitVec('frm_after_program', 3); mach.frm = st['frm2']
        ssh = {}
        def ssh_routine(mach):      # contract of the generated SuperscalarHash routine (V5): x7 = item number, x6 = cache memory -> item words in x8-x15; x1 = return address; x7, x28-x31 scratch
            ssh['item'] = mach.x[7]; ssh['x6'] = mach.x[6]
            for k in range(8): mach.x[8 + k] = DSI[k](bv(mach.x[7], 64))
            for r_ in (7, 28, 29, 30, 31): mach.x[r_] = z3.BitVec('x%d_clobbered_by_ssh' % r_, 64)
            ra = mach.x[1]
            if not (isinstance(ra, Ptr) and ra.obj == mach.code and is_c(ra.off)): raise Fault('SuperscalarHash routine: bad return address')
            mach.pc = ra.off
        nsoft = [0]
        def soft_round(mach, enc):      # contract of the software-AES round routines (V4): (t5,t6) := round((t5,t6), key (s0,a0)); the literal pool must hold the table pointers; clobbers x8-x15
            lp = [mach.mem.load(Ptr(CODE, POOL + (syms['randomx_riscv64_literals_end'] - syms['randomx_riscv64_literals']) + 16 + 8 * k), 8) for k in range(2)]
            if not (isinstance(lp[0], Ptr) and lp[0].obj == 'lut_enc' and lp[0].off == 2048 and isinstance(lp[1], Ptr) and lp[1].obj == 'lut_dec' and lp[1].off == 2048): raise Fault('software AES routine called without the table pointers in the literal pool')
            if not (isinstance(mach.x[3], Ptr) and mach.x[3].obj == CODE and mach.x[3].off == POOL): raise Fault('software AES routine called with a wrong literal-pool pointer')
            mach.x[30], mach.x[31] = spec_aes(enc, [mach.x[30], mach.x[31]], [mach.x[8], mach.x[10]]); nsoft[0] += 1
            for r_ in range(8, 16): mach.x[r_] = z3.BitVec('x%d_clobbered_by_softaes_%d' % (r_, nsoft[0]), 64)
            ra = mach.x[1]
            if not (isinstance(ra, Ptr) and ra.obj == mach.code and is_c(ra.off)): raise Fault('software AES routine: bad return address')
            mach.pc = ra.off
        kind = None
        try:
            m.pc = LOOPTOP; steps = 0; del m.accesses[:]
            while True:
                if m.pc == PROG and 'pre' not in st: program(m)
                if light and m.pc == SSH: ssh_routine(m); continue
                if v2 and m.pc in (SOFT_ENC, SOFT_DEC): soft_round(m, m.pc == SOFT_ENC); continue
                rr_ = m.step(); steps += 1
                if steps > 1500: raise Fault('step bound exceeded (unwinding assertion)')
                if rr_ is None: pass
                elif rr_[0] == 'ret': kind = 'ret'; retv = rr_[1]; break
                elif rr_[0] == 'jmp':
                    if isinstance(rr_[1], tuple): raise Fault('symbolic jump target in the frame')
                    m.pc = rr_[1]
                elif rr_[0] == 'jcc':
                    if m.decide(rr_[1]):
                        if isinstance(rr_[2], tuple): raise Fault('symbolic branch target in the frame')
                        m.pc = rr_[2]
                if m.pc == LOOPTOP: kind = 'backedge'; break
        except (Fault, OOB) as e:
            chk(False, 'loop body does not execute: %s (pc %#x)' % (e, m.pc)); return
        npaths[0] += 1; pc = fk['pc']; phase_seen.add(kind)
        if 'pre' not in st: chk(False, 'program area not reached'); return
        if v2: chk(nsoft[0] == 16, 'v2: sixteen software-AES rounds in the F/E mix (%d)' % nsoft[0])
        # ---- steps 1-3
        r1 = [R0[i] ^ ld(S0, z64(A0) + 8 * i) for i in range(8)]
        for i in range(8): q.prove_eq(pc, st['pre']['r'][i], r1[i], '%s: step 2: r%d ^= scratchpad[spAddr0 + %d]' % (tag, i, 8 * i), 64)
        for i in range(4):
            f_ = V.conv_F(ld(S0, z64(A1) + 8 * i)); e_ = V.conv_E(ld(S0, z64(A1) + 8 * (4 + i)), qm)
            for l in range(2):
                q.prove_eq(pc, st['pre']['f'][i][l], f_[l], '%s: step 3: f%d[%d]' % (tag, i, l), 64)
                q.prove_eq(pc + [z3.Extract(21, 0, i2d(z3.Extract(31 + 32 * l, 32 * l, ld(S0, z64(A1) + 8 * (4 + i))))) == 0], st['pre']['e'][i][l], e_[l], '%s: step 3: e%d[%d] (4.3.2)' % (tag, i, l), 64)
        chk(st['pre']['sp'].eq(S0), 'scratchpad untouched before the program runs')
        for k in range(4): q.prove_eq(pc, st['pre']['rcp'][k], mem.load(Ptr(CODE, POOL + 144 + 8 * k), 8), '%s: x%d = reciprocal literal %d at program start (V1 assumption)' % (tag, 28 + k, k), 64)
        # ---- steps 5-8 (v1)
        r2, f2, e2 = st['r2'], st['f2'], st['e2']
        mpn = z3.Extract(31, 0, r2[rr[2]] ^ r2[rr[3]]); mp_new = (ma ^ mpn) if v2 else (mx ^ mpn); new_ma = mx if v2 else mp_new; new_mx = mp_new if v2 else ma
        if light:
            chk('item' in ssh, 'light mode: the SuperscalarHash routine is called')
            if 'item' not in ssh: return
            q.prove_eq(pc, ssh['item'], z3.LShR(dso + z64(ma & DM), 6), '%s: step 7 (light): item number = (datasetOffset + ma %% BASE)/64' % tag, 64)
            chk(isinstance(ssh['x6'], Ptr) and ssh['x6'].obj == 'cachemem' and ssh['x6'].off == 0, 'light mode: x6 = cache memory at the call')
            dsw = [DSI[k](z3.LShR(dso + z64(ma & DM), 6)) for k in range(8)]
        else: dsw = [ld(D0, dso + z64(ma & DM) + 8 * k) for k in range(8)]
        r3 = [r2[i] ^ dsw[i] for i in range(8)]
        if v2:
            fnew = [list(f2[i]) for i in range(4)]
            for i in range(4): fnew = [spec_aes(True, fnew[0], e2[i]), spec_aes(False, fnew[1], e2[i]), spec_aes(True, fnew[2], e2[i]), spec_aes(False, fnew[3], e2[i])]
        else: fnew = [[f2[i][0] ^ e2[i][0], f2[i][1] ^ e2[i][1]] for i in range(4)]
        exp = st['sp2']
        for i in range(8):
            for k in range(8): exp = z3.Store(exp, z64(A1) + 8 * i + k, z3.Extract(8 * k + 7, 8 * k, r3[i]))
        for i in range(4):
            for l in range(2):
                for k in range(8): exp = z3.Store(exp, z64(A0) + 16 * i + 8 * l + k, z3.Extract(8 * k + 7, 8 * k, bv(fnew[i][l], 64)))
        q.prove_array_eq(pc, mem.objs['sp']['arr'], exp, '%s: steps 9-11: whole scratchpad after the iteration' % tag)
        if kind == 'backedge':      # (on the exit path the epilogue has already restored the caller's callee-saved FP registers; the values are checked in the register file)
            for i in range(4):
                for l in range(2):
                    q.prove_eq(pc, m.f[2 * i + l], fnew[i][l], '%s: step 10: f%d[%d] after the F/E mix' % (tag, i, l), 64)
                    q.prove_eq(pc, m.f[8 + 2 * i + l], e2[i][l], '%s: e%d[%d] unchanged by the loop tail' % (tag, i, l), 64)
                    q.prove_eq(pc, m.f[16 + 2 * i + l], A[i][l], '%s: a%d[%d] unchanged' % (tag, i, l), 64)
        q.prove_eq(pc, bv(m.frm, 3), st['frm2'], '%s: loop tail leaves the rounding mode of the program in force' % tag, 3)
        if kind == 'backedge':
            for i in range(8): q.prove_eq(pc, m.x[16 + i], r3[i], '%s: step 7: r%d after the dataset XOR' % (tag, i), 64)
            nmix = r3[rr[0]] ^ r3[rr[1]]
            for nm_, r_, hi in (('spAddr0', 26, False), ('spAddr1', 27, True)):
                okp = isinstance(m.x[r_], Ptr) and m.x[r_].obj == 'sp'; chk(okp, 'next %s points into the scratchpad' % nm_)
                if okp: q.prove_eq(pc, bv(m.x[r_].off, 64), z64((z3.Extract(63, 32, nmix) if hi else z3.Extract(31, 0, nmix)) & L3M), '%s: steps 12,1: next %s' % (tag, nm_), 64)
            q.prove(pc, z3.Extract(31, 0, bv(m.x[24], 64)) == z3.Extract(31, 0, ic) - 1, '%s: step 13: counter decremented' % tag)
            nb = bv(m.x[25], 64)
            q.prove(pc, z3.And(z3.Extract(63, 32, nb) & DM == new_ma & DM, z3.Extract(31, 0, nb) & DM == new_mx & DM), '%s: steps 5,8: ma/mx for the next iteration (address-relevant bits)' % tag)
            if not light:
                okp = isinstance(m.x[7], Ptr) and m.x[7].obj == 'dataset'; chk(okp, 'x7 = address of the next dataset read')
                if okp: q.prove_eq(pc, bv(m.x[7].off, 64), dso + z64(new_ma & DM), '%s: steps 5-6: next dataset line = dataset[new ma]' % tag, 64)
            chk(isinstance(m.x[2], Ptr) and m.x[2].off == FRAME and isinstance(m.x[5], Ptr) and m.x[5].obj == 'sp' and m.x[5].off == 0 and isinstance(m.x[3], Ptr) and m.x[3].off == POOL, 'frame registers sp/x5/x3 intact at the back edge')
            q.prove_eq(pc, m.x[1], z64(bv(lit(88, 4), 32)) + 56, '%s: x1 = L3 mask + 56 again at the back edge' % tag, 64)
            for r_, (off, szz) in POOL_X.items():
                if r_ >= 28: continue
                q.prove_eq(pc, m.x[r_], mem.load(Ptr(CODE, POOL + off), szz) if szz == 8 else z64(bv(mem.load(Ptr(CODE, POOL + off), 4), 32)), '%s: mask register %s intact at the back edge' % (tag, XN[r_]), 64)
        else:
            q.prove(pc, z3.Extract(31, 0, ic) == 1, '%s: the loop is left exactly when the counter reaches zero' % tag) if False else q.prove(pc, ic == 1, '%s: the loop is left exactly when the counter reaches zero' % tag)
            chk(isinstance(retv, Ptr) and retv.obj == 'caller', 'returns to the caller')
            for i in range(8): q.prove_eq(pc, mem.load(Ptr('regfile', 8 * i), 8), r3[i], '%s: register file r%d on exit' % (tag, i), 64)
            for i in range(4):
                for l in range(2):
                    q.prove_eq(pc, mem.load(Ptr('regfile', 64 + 16 * i + 8 * l), 8), fnew[i][l], '%s: register file f%d[%d] on exit' % (tag, i, l), 64)
                    q.prove_eq(pc, mem.load(Ptr('regfile', 128 + 16 * i + 8 * l), 8), e2[i][l], '%s: register file e%d[%d] on exit' % (tag, i, l), 64)
                    q.prove_eq(pc, mem.load(Ptr('regfile', 192 + 16 * i + 8 * l), 8), A[i][l], '%s: register file a%d[%d] untouched' % (tag, i, l), 64)
            for r_ in (3, 8, 9, 18, 19, 20, 21, 22, 23, 24, 25, 26, 27): q.prove_eq(pc, m.x[r_], entry[r_], '%s: callee-saved %s restored' % (tag, XN[r_]), 64)
            for r_ in (8, 9, 18, 19, 20, 21, 22, 23, 24, 25, 26, 27): q.prove_eq(pc, m.f[r_], fentry[r_], '%s: callee-saved %s restored' % (tag, FN[r_]), 64)
            chk(isinstance(m.x[2], Ptr) and m.x[2].obj == 'stack' and m.x[2].off == STK, 'stack pointer restored')
        for (kd, obj, off, nb) in m.accesses:
            low = m.min_sp if getattr(m, 'min_sp', None) is not None else FRAME
            if obj == 'stack' and is_c(off): chk(min(low, FRAME) <= off and off + nb <= STK, 'stack access between the lowest stack pointer of the call and the entry stack pointer: %s at %d' % (kd, off))
            elif obj == 'dataset' and kd == 'store': chk(False, 'store into the dataset')
            elif obj == CODE and kd == 'store': chk(False, 'store into the code buffer')
        extent_checks(q, pc, mem, tag)
    res, nq = explore(one, limit=16); q.n += nq
    ok = phase_seen >= {'backedge', 'ret'}; q.n += 1; q.unsat += ok; q.sat += (not ok)
    if not ok: q.failed.append((tag + ': loop-body extraction reached %s (expected back edge and return)' % sorted(phase_seen), {}))
    return result('V3', tag, q, paths=npaths[0], detail='%d paths: %s' % (npaths[0], sorted(phase_seen)))

def jobs_V3(ctx): return [dict(rr=r, light=l, v2=v) for v in (False, True) for l in (False, True) for r in (((0, 15, 5) if not v else (0, 10)) if ctx['tier'] == 'quick' else range(16))]

LEMMAS = {'V3': dict(jobs=jobs_V3, run=run_V3, units=['rv64'], rv64=True,
    functions=['JitCompilerRV64::JitCompilerRV64', 'generateProgram / emitProgramPrefix / emitProgramSuffix / emitJump (stitching and patch points)', 'assembled runtime: randomx_riscv64_prologue, loop_begin, data_read (+v2 tweak slot), spad_store, loop_end, epilogue'],
    doc='the frame the real generator stitches around the program, executed under the RV64 model: the prologue establishes 4.6.1 and the register conventions V1 assumes (masks, literal pool pointer, reciprocal registers, rounding-mode table); one iteration from an arbitrary loop state == spec 4.6.2 (same oracle as I8/J3/N3) for v1 and v2 (software-AES F/E mix, the round routines being abstract calls with the contract V4 proves) in full and in light mode (the SuperscalarHash routine is an abstract call with the contract V5 proves); exit writes the register file, restores callee-saved registers and sp and returns; dataset accesses in bounds',
    bound='one loop iteration from an arbitrary state + entry + exit; program body abstracted (arbitrary effect on r/f/e, scratchpad, x8, x9, f24, f25, frm: what V1 allows an instruction to do); readReg choices {0,15,5} (quick) / all 16',
    symbolic='registers, scratchpad, dataset, ma/mx, E masks, datasetOffset, iteration counter, callee-saved registers, stack content, frm',
    stubs=['h_* emitters := no bytes (V1)', 'allocMemoryPages := fresh buffer; Cpu::hasRVV := false (scalar back-end)', 'RV64 semantics: engine/rv64sem.py', 'ld.lld resolves the pc-relative references of the runtime'],
    outside='the vector back-end')}
UNITS = UNITS

# ------------------------------------------------------------------------------------------------ V6: randomx_riscv64_data_init (the loop around the SuperscalarHash routine)
def run_V6(ctx, case):
    """randomx_riscv64_data_init(cache, dataset, startItem, endItem) as the constructor places and patches it: one call of the SuperscalarHash routine per item,
    x8-x15 stored at dataset + 64*(item - startItem); callee-saved registers and sp restored; the routine is an abstract call with the contract V5 proves"""
    q = Q(60); mod = Module(ctx['ll']['rv64']); L = state_layout(mod); npaths = [0]; syms, text = rv64_linked(ctx['tag'] + '-v6-%d' % os.getpid())
    tj = resolve(NamedT('class.randomx::JitCompilerRV64', mod)); oj = tj.layout()[0]; tag = 'randomx_riscv64_data_init'
    DSI = [z3.Function('DSI%d' % k, z3.BitVecSort(64), z3.BitVecSort(64)) for k in range(8)]
    src_ = open(os.path.join(build.REPO, 'src', 'jit_compiler_rv64.cpp')).read()
    def const(nm):
        mm = re.search(r'constexpr\s+\w+\s+%s\s*=\s*(\d+)\s*;' % nm, src_); return int(mm.group(1))
    align = const('CodeAlign'); SSH = ((align + align + const('MaxRandomXInstrCodeSize') * build.config_constants().get('RANDOMX_PROGRAM_MAX_SIZE', 384)) + align - 1) // align * align + P.CACHE_ACCESSES * align
    start = z3.BitVec('startItem', 64); count = z3.BitVec('itemCount', 64)
    def one(fk):
        it = Interp(mod); it.fork = fk; fk['pc'] += [z3.UGE(count, 1), z3.ULE(count, 3), z3.ULT(start, 1 << 32)]
        H = life.Heap(it, fail=False); cxxlib.install(it, H)
        it.mem.alloc(len(text) + 64, 'text'); it.mem.objs['text']['addr'] = 0x10000000
        for k, b in enumerate(text): it.mem.objs['text']['bytes'][k] = b
        it.extern = {nm: Ptr('text', off) for nm, off in syms.items()}; life.run_ctors(it, mod)
        def alloc_pages(s_, a):
            n = a[0] if is_c(a[0]) else z3.simplify(a[0]).as_long(); return s_.mem.alloc(n, 'codebuf')
        it.hooks['allocMemoryPages'] = alloc_pages
        for f in mod.funcs:
            if f.endswith('Cpu6hasRVVEv'): it.hooks[f] = lambda s_, a: 0
        J = it.mem.alloc(tj.size(), 'J')
        for k in range(0, tj.size() - tj.size() % 8, 8): it.mem.store(Ptr('J', k), 0, 8)
        it.call('_ZN7randomx15JitCompilerRV64C2Ev', [J]); code = it.mem.load(Ptr('J', oj[0] + L['code']), 8); CODE = code.obj
        entryDI = [it.mem.load(Ptr('J', oj[k]), 8) for k in range(5, 9)]
        mem = it.mem; mem.mkarr('dataset', P.DATASET_BASE + P.DATASET_EXTRA); D0 = mem.objs['dataset']['arr']; mem.alloc(64, 'cacheobj'); mem.alloc(64, 'cachemem'); mem.store(Ptr('cacheobj', 0), Ptr('cachemem', 0), 8); mem.share('cacheobj', 'cachemem')
        STK = 128; mem.alloc(STK + 16, 'stack')
        for k in range(0, STK + 16, 8): mem.store(Ptr('stack', k), z3.BitVec('stk%d' % k, 64), 8)
        m = Machine(mem, CODE, it); entry = {r: z3.BitVec('x%d_entry' % r, 64) for r in range(1, 32)}
        for r in range(1, 32): m.x[r] = entry[r]
        for r in range(32): m.f[r] = z3.BitVec('f%d_entry' % r, 64)
        dsoff = z3.BitVec('dataset_off', 64); fk['pc'] += [z3.ULE(dsoff, P.DATASET_BASE + P.DATASET_EXTRA), z3.ULE(dsoff + 64 * count, P.DATASET_BASE + P.DATASET_EXTRA)]
        m.x[10] = Ptr('cacheobj', 0); m.x[11] = Ptr('dataset', dsoff); m.x[12] = start; m.x[13] = start + count; m.x[1] = Ptr('caller', 0); m.x[2] = Ptr('stack', STK); m.frm = z3.BitVec('frm', 3)
        calls = []
        def chk(c, what):
            q.n += 1; q.unsat += bool(c); q.sat += (not c)
            if not c: q.failed.append(('%s: %s' % (tag, what), {}))
        chk(any(isinstance(e, Ptr) and e.obj == CODE and e.off == 4096 for e in entryDI), 'the constructor records the entry point of the initialiser at buffer offset 4096')
        try:
            m.pc = 4096; steps = 0
            while True:
                if m.pc == SSH:
                    calls.append((m.x[6], m.x[7], m.x[3]))
                    for k in range(8): m.x[8 + k] = DSI[k](bv(m.x[7], 64))
                    for r_ in (7, 28, 29, 30, 31): m.x[r_] = z3.BitVec('x%d_clobbered_%d' % (r_, len(calls)), 64)
                    m.pc = m.x[1].off; continue
                r = m.step(); steps += 1
                if steps > 300: raise Fault('step bound exceeded (unwinding assertion)')
                if r is None: continue
                if r[0] == 'ret': retv = r[1]; break
                if r[0] == 'jmp':
                    if isinstance(r[1], tuple): raise Fault('symbolic jump')
                    m.pc = r[1]
                elif r[0] == 'jcc':
                    if m.decide(r[1]): m.pc = r[2]
        except (Fault, OOB) as e:
            chk(False, 'does not execute: %s' % e); return
        npaths[0] += 1; pc = fk['pc']
        sol = z3.Solver(); sol.add(*pc); sol.check(); n = sol.model().eval(count, model_completion=True).as_long()
        q.prove(pc, count == n, '%s: this path initialises exactly %d item(s)' % (tag, n))
        chk(len(calls) == n, 'one call of the SuperscalarHash routine per item (%d calls for %d items)' % (len(calls), n))
        exp = D0
        for k_, (c0, itm, gp) in enumerate(calls[:n]):
            chk(isinstance(c0, Ptr) and c0.obj == 'cachemem' and c0.off == 0, 'call %d: x6 = cache memory' % k_)
            chk(isinstance(gp, Ptr) and gp.obj == CODE and gp.off == POOL, 'call %d: x3 = literal pool' % k_)
            q.prove_eq(pc, itm, start + k_, '%s: call %d: item number = startItem + %d' % (tag, k_, k_), 64)
            for w in range(8):
                for b_ in range(8): exp = z3.Store(exp, dsoff + 64 * k_ + 8 * w + b_, z3.Extract(8 * b_ + 7, 8 * b_, DSI[w](start + k_)))
        q.prove_array_eq(pc, mem.objs['dataset']['arr'], exp, '%s: dataset after the call == the items at memory + 64*(item - startItem), nothing else written' % tag)
        chk(isinstance(retv, Ptr) and retv.obj == 'caller', 'returns to the caller')
        for r_ in (3, 8, 9): q.prove_eq(pc, m.x[r_], entry[r_], '%s: callee-saved %s restored' % (tag, XN[r_]), 64)
        chk(isinstance(m.x[2], Ptr) and m.x[2].obj == 'stack' and m.x[2].off == STK, 'stack pointer restored')
        extent_checks(q, pc, mem, tag)
    res, nq = explore(one, limit=8); q.n += nq
    ok = npaths[0] == 3; q.n += 1; q.unsat += ok; q.sat += (not ok)
    if not ok: q.failed.append(('%s: expected the 1-, 2- and 3-item paths, got %d' % (tag, npaths[0]), {}))
    return result('V6', tag, q, paths=npaths[0])

LEMMAS['V6'] = dict(jobs=lambda ctx: ['data_init'], run=run_V6, units=['rv64'], rv64=True, functions=['JitCompilerRV64::JitCompilerRV64 (placement, call patch via emitJump)', 'assembled runtime: randomx_riscv64_data_init'],
    doc='the dataset initialiser of the scalar RISC-V runtime as the constructor places and patches it: one call of the SuperscalarHash routine per item of [startItem, endItem) with the right item number, cache and literal-pool pointers; x8-x15 stored at dataset + 64*(item - startItem); exactly the requested bytes written; callee-saved registers and sp restored',
    bound='1 to 3 items (loop body identical for every item), symbolic start and dataset address', symbolic='startItem, itemCount, dataset offset, entry registers, stack content', stubs=['SuperscalarHash routine := abstract call with the contract V5 proves'])

# ------------------------------------------------------------------------------------------------ V4: the software-AES round routines of the runtime
def _b2l(bs):
    def cat(b8):
        if all(is_c(b) for b in b8): return sum(b << (8 * k) for k, b in enumerate(b8))
        return z3.simplify(z3.Concat(*[bv(b, 8) for b in reversed(b8)]))
    return [cat(bs[:8]), cat(bs[8:])]
def _l2b(v):
    out = []
    for l in range(2):
        for k in range(8): out.append(((v[l] >> (8 * k)) & 0xff) if is_c(v[l]) else z3.Extract(8 * k + 7, 8 * k, v[l]))
    return out
def spec_aes(enc, st2, key2):
    from spec import aes_ref
    return _b2l((aes_ref.aesenc if enc else aes_ref.aesdec)(_l2b(st2), _l2b(key2)))

def run_V4(ctx, case):
    """softaes_enc / softaes_dec of jit_compiler_rv64_static.S under the RV64 model: (t5,t6) := one FIPS-197 (inverse) round of the state (t5,t6) with round key (s0,a0);
    table loads summarised by A1 over the S-box as an uninterpreted function; the table pointer comes from the literal-pool slot the emitter fills"""
    from lemmas import aes as AES
    from spec import aes_ref
    inv = case == 'dec'; q = Q(60); syms, text = rv64_linked(ctx['tag'] + '-v4-%d' % os.getpid())
    modA = Module(ctx['ll']['soft_aes']); it0 = Interp(modA); tn = 'randomx_aes_lut_dec' if inv else 'randomx_aes_lut_enc'
    forms = AES.table_forms(Q(60), AES.table_from_ir(it0, tn), inv, tn)
    if any(c is None for r in forms for c in r):
        q.failed.append(('table form (A1) does not hold', {})); q.sat += 1; q.n += 1; return result('V4', case, q, paths=1)
    a = syms['softaes_dec' if inv else 'softaes_enc']
    mem = Mem(); mem.alloc(len(text), 'code')
    for k, b in enumerate(text): mem.objs['code']['bytes'][k] = b
    mem.alloc(4096, 'lut'); mem.symload['lut'] = AES.lut_handler(None, q, tn, forms, inv); mem.alloc(4096, 'otherlut')
    LITN = syms['randomx_riscv64_literals_end'] - syms['randomx_riscv64_literals']        # emitProgramPrefix: eMask at +sizeLiterals, then &lut_enc[2][0], &lut_dec[2][0]
    mem.alloc(4096, 'pool'); mem.store(Ptr('pool', 2048 + LITN + 16), Ptr('otherlut' if inv else 'lut', 2048), 8); mem.store(Ptr('pool', 2048 + LITN + 24), Ptr('lut' if inv else 'otherlut', 2048), 8)
    m = Machine(mem, 'code'); entry = {r: z3.BitVec('x%d_entry' % r, 64) for r in range(1, 32)}
    for r in range(1, 32): m.x[r] = entry[r]
    for r in range(32): m.f[r] = z3.BitVec('f%d_entry' % r, 64)
    st = [z3.BitVec('st%d' % i, 64) for i in range(2)]; ky = [z3.BitVec('key%d' % i, 64) for i in range(2)]
    m.x[30], m.x[31] = st; m.x[8], m.x[10] = ky; m.x[3] = Ptr('pool', 2048); m.x[1] = Ptr('caller', 0); m.x[2] = Ptr('stack', 0); m.frm = z3.BitVec('frm', 3)
    try: r = m.run(a, max_steps=300)
    except (Fault, OOB) as e:
        q.n += 1; q.sat += 1; q.failed.append(('softaes_%s does not execute: %s' % (case, e), {})); return result('V4', case, q, paths=1)
    ok = r[0] == 'ret' and isinstance(r[1], Ptr) and r[1].obj == 'caller'; q.n += 1; q.unsat += ok; q.sat += (not ok)
    if not ok: q.failed.append(('routine does not return to its caller', {}))
    got = _l2b([m.x[30], m.x[31]]); exp = (aes_ref.aesdec if inv else aes_ref.aesenc)(_l2b(st), _l2b(ky))
    for i in range(16):
        g = z3.simplify(bv(got[i], 8) != bv(exp[i], 8))
        if z3.is_false(g): q.n += 1; q.unsat += 1
        else: q.check([], g, 'softaes_%s (RV64 assembly): state byte %d == FIPS-197 %sround' % (case, i, 'inverse ' if inv else ''))
    bad = sorted(XN[x] for x in m.written_x if x not in (8, 9, 10, 11, 12, 13, 14, 15, 30, 31)); q.n += 1; q.unsat += (not bad); q.sat += bool(bad)
    if bad: q.failed.append(('routine clobbers %s beyond x8-x15 (reloaded by the caller) and the state registers' % bad, {}))
    for (kd, obj, off, nb) in m.accesses:
        if obj not in ('lut', 'otherlut', 'code', 'pool'): q.n += 1; q.sat += 1; q.failed.append(('access to %s' % obj, {}))
        if obj == 'otherlut': q.n += 1; q.sat += 1; q.failed.append(('routine reads the table of the other direction', {}))
    extent_checks(q, [], mem, 'softaes_%s' % case)
    return result('V4', case, q, paths=1, detail='%d RV64 instructions' % len(m.disasm))

from lemmas.aes import UNITS as _AESU
UNITS = dict(UNITS); UNITS['soft_aes'] = _AESU['soft_aes']
LEMMAS['V4'] = dict(jobs=lambda ctx: ['enc', 'dec'], run=run_V4, units=['soft_aes'], rv64=True, functions=['assembled runtime: softaes_enc, softaes_dec', 'randomx_aes_lut_enc/dec (tables, via A1)'],
    doc='the software-AES round routines of the RISC-V runtime: (t5,t6) := FIPS-197 round / inverse round of (t5,t6) with round key (s0,a0) (AESENC / AESDEC data flow); they read only their own table through the literal-pool pointer, clobber only x8-x15',
    bound='all 2^256 (state, key) pairs per routine', symbolic='state, key, all registers', stubs=['table loads := columns c*S(x) of the S-box (justified by A1 on the real tables of the current tree)'])
