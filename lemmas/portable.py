# Portable (non-SIMD, no int128, fenv) code path lemmas P1, P3, P4 (C17): the same sources lowered with the x86 feature macros undefined
import z3, time, re, os
from lemmas.common import *
from engine.irsym import Module, Interp, Ptr, is_c, bv, resolve, NamedT, explore, fpop
from lemmas import isa, api
from spec import params as P, vm_ref as V

UNITS = {
    'vmcore_port': dict(link=[dict(src='src/bytecode_machine.cpp', inline=False, portable=True), dict(src='src/instructions_portable.cpp', inline=False, portable=True)]),
    'api_port': dict(link=[dict(src='src/randomx.cpp', inline=False, portable=True), dict(src='src/virtual_machine.cpp', inline=False, portable=True), dict(src='src/instructions_portable.cpp', inline=False, portable=True)]),
}
FE = {0: 0, 0x400: 1, 0x800: 2, 0xc00: 3}       # <fenv.h> on x86-64/glibc: FE_TONEAREST, FE_DOWNWARD, FE_UPWARD, FE_TOWARDZERO -> spec fprc (table 4.3.1)

def port_hooks(it, ref_mul=True):
    def fesetround(s, a):
        m = a[0]
        rc = FE[m] if is_c(m) else z3.Extract(1, 0, z3.LShR(bv(m, 32), 10))
        if not is_c(m): s.fe_checks = getattr(s, 'fe_checks', []) + [z3.Or([bv(m, 32) == k for k in FE])]
        cur = s.mxcsr
        s.mxcsr = ((cur & ~0x6000) | (rc << 13)) if is_c(cur) and is_c(rc) else ((bv(cur, 32) & z3.BitVecVal(0xffff9fff, 32)) | (z3.ZeroExt(30, bv(rc, 2)) << 13))
        s.trace.append(('fesetround', m)); return 0
    it.hooks['fesetround'] = fesetround
    it.hooks['fegetround'] = lambda s, a: (z3.ZeroExt(30, s.rm()) << 10) if not is_c(s.mxcsr) else (((s.mxcsr >> 13) & 3) << 10)
    it.hooks['sqrt'] = lambda s, a: fpop('fsqrt', s.rm(), a[0])
    if ref_mul:      # justified by P1: portable mulh/smulh == high half of the 128-bit product
        it.hooks['_Z4mulhmm'] = lambda s, a: z3.Extract(127, 64, z3.ZeroExt(64, bv(a[0], 64)) * z3.ZeroExt(64, bv(a[1], 64)))
        it.hooks['_Z5smulhll'] = lambda s, a: z3.Extract(127, 64, z3.SignExt(64, bv(a[0], 64)) * z3.SignExt(64, bv(a[1], 64)))

def run_P4(ctx, case):
    ctx2 = dict(ctx); ctx2['ll'] = dict(ctx['ll']); ctx2['ll']['vmcore'] = ctx['ll']['vmcore_port']
    isa.EXTRA_BIND = port_hooks
    try: r = isa.run_I1(ctx2, case)
    finally: isa.EXTRA_BIND = None
    r['lemma'] = 'P4'; return r

def run_P1(ctx, case):
    q = Q(120); mod = Module(ctx['ll']['vmcore_port']); a, b = z3.BitVecs('a b', 64)
    if case in ('mulh', 'smulh'):
        # operands as 32-bit limbs; the four partial products are shared opaque terms (schoolbook identity = trusted rewrite), only carries are decided
        ah, al, bh, bl = z3.BitVecs('ah al bh bl', 32); A = z3.Concat(ah, al); B = z3.Concat(bh, bl)
        it = Interp(mod); T = z3.BitVec('unsigned_product_128', 128)
        if case == 'smulh': it.hooks['_Z4mulhmm'] = lambda s, a_: z3.Extract(127, 64, T)       # the unsigned high half is decided by the mulh case; here only the sign correction
        r = it.call('_Z4mulhmm' if case == 'mulh' else '_Z5smulhll', [A, B])
        Z = lambda v, w=128: z3.ZeroExt(w - v.size(), v)
        p = lambda x, y: z3.ZeroExt(32, x) * z3.ZeroExt(32, y)
        full = (Z(p(ah, bh)) << 64) + (Z(p(ah, bl)) << 32) + (Z(p(al, bh)) << 32) + Z(p(al, bl))       # = zext(A) * zext(B)
        if case == 'mulh': spec = z3.Extract(127, 64, full)
        else:
            zero = z3.BitVecVal(0, 128)
            prod = T - z3.If(A < 0, Z(B) << 64, zero) - z3.If(B < 0, Z(A) << 64, zero)                     # sext(A)*sext(B) = zext(A)*zext(B) - [A<0]*2^64*B - [B<0]*2^64*A  (mod 2^128)
            spec = z3.Extract(127, 64, prod)
        q.check([], bv(r, 64) != spec, 'portable %s(a,b) == high 64 bits of the %s 128-bit product (limb level)' % (case, 'signed' if case == 'smulh' else 'unsigned'))
    else:
        c = z3.BitVec('c', 32); it = Interp(mod); r = it.call('_Z4rotrmj' if case == 'rotr' else '_Z4rotlmj', [a, c])
        cc = z3.ZeroExt(32, c) & 63
        spec = z3.RotateRight(a, cc) if case == 'rotr' else z3.RotateLeft(a, cc)
        q.check([z3.ULT(c, 64)], bv(r, 64) != spec, 'portable %s(a, c) == rotation by c for every count 0..63' % case, abstract=False)
    return result('P1', case, q, paths=1)

def run_P3(ctx, case):
    """fenv branch: rounding-mode mapping (table 4.3.1) and restoration of the caller's environment by the single-call hash"""
    q = Q(60); mod = Module(ctx['ll']['api_port'])
    if case == 'mapping':
        for mode in range(4):
            it = Interp(mod); port_hooks(it); it.mxcsr = z3.BitVec('mx', 32)
            it.call(mod.find('_Z20rx_set_rounding_modej'), [mode])
            q.prove_eq([], z3.Extract(14, 13, bv(it.mxcsr, 32)), mode, 'rx_set_rounding_mode(%d) selects IEEE mode %d of table 4.3.1' % (mode, mode), 2)
        it = Interp(mod); port_hooks(it); it.mxcsr = z3.BitVec('mx', 32); m = z3.BitVec('mode', 32); it.fork['pc'] = []
        def one(fk):
            it = Interp(mod); it.fork = fk; port_hooks(it); it.mxcsr = z3.BitVec('mx', 32); fk['pc'].append(z3.ULT(m, 4))
            it.call(mod.find('_Z20rx_set_rounding_modej'), [m])
            q.prove_eq(fk['pc'], z3.Extract(14, 13, bv(it.mxcsr, 32)), z3.Extract(1, 0, m), 'rx_set_rounding_mode(mode) for symbolic mode', 2)
            g = [f for f in mod.funcs if 'rx_get_rounding_mode' in f]
            if g:
                v = it.call(g[0], []); q.prove_eq(fk['pc'], v, m, 'rx_get_rounding_mode() returns the mode that was set', 32)
        res, nq = explore(one, limit=16); q.n += nq
        it = Interp(mod); port_hooks(it); it.mxcsr = z3.BitVec('mx', 32); it.call(mod.find('_Z20rx_reset_float_statev'), [])
        q.prove_eq([], z3.Extract(14, 13, bv(it.mxcsr, 32)), 0, 'rx_reset_float_state selects round-to-nearest', 2)
        return result('P3', case, q, paths=5)
    # calculate_hash with the environment as ghost state
    it = Interp(mod); port_hooks(it); ev = []; envs = {}
    def fegetenv(s, a): envs['saved_ptr'] = a[0]; envs['saved'] = s.mxcsr; ev.append('fegetenv'); return 0
    def fesetenv(s, a): ev.append(('fesetenv', a[0])); s.mxcsr = envs.get('saved') if (isinstance(a[0], Ptr) and a[0].obj == envs['saved_ptr'].obj) else z3.BitVec('garbage_env', 32); return 0
    it.hooks['fegetenv'] = fegetenv; it.hooks['fesetenv'] = fesetenv
    it.snap = lambda a: [None for _ in a[1:]]
    it.hooks['randomx_blake2b'] = lambda s, a: 0
    vm, L = api.stub_vm(it, mod, ev)
    def runstub(s, a): ev.append(('run', None, None)); s.mxcsr = z3.BitVec('mode_left_by_program%d' % len(ev), 32); return None
    it.hooks['STUB_run'] = runstub
    inp = it.mem.alloc(16, 'input'); out = it.mem.alloc(32, 'output'); e0 = z3.BitVec('caller_env', 32); it.mxcsr = e0
    it.call('randomx_calculate_hash', [vm, inp, 16, out])
    q.prove_eq([], it.mxcsr, e0, 'single-call hash (fenv build): caller environment on return == on entry', 32)
    names = [e if isinstance(e, str) else e[0] for e in ev]
    ok = names and names[0] == 'fegetenv' and names[-1] == 'fesetenv'; q.n += 1; q.unsat += bool(ok); q.sat += (not ok)
    if not ok: q.failed.append(('environment saved first and restored last: %s' % names[:3] + names[-2:], {}))
    first_run = names.index('run') if 'run' in names else -1
    resets = [t for t in it.trace if t[0] == 'fesetround']
    ok = bool(resets); q.n += 1; q.unsat += ok; q.sat += (not ok)
    if not ok: q.failed.append(('rounding mode not reset before the first program (fenv build)', {}))
    return result('P3', case, q, paths=1)

LEMMAS = {
    'P1': dict(jobs=lambda ctx: ['mulh', 'smulh', 'rotr', 'rotl'], run=run_P1, units=['vmcore_port'], functions=['mulh (32x32 schoolbook)', 'smulh', 'rotr', 'rotl (shift variants)'],
               doc='portable mulh/smulh == high half of the 128-bit product (partial products shared as opaque terms, carries decided); portable rotr/rotl == rotation for counts 0..63',
               bound='all 64-bit operands', symbolic='operands', stubs=['schoolbook decomposition of the 128-bit product (trusted identity)']),
    'P3': dict(jobs=lambda ctx: ['mapping', 'hash'], run=run_P3, units=['api_port'], functions=['rx_set_rounding_mode', 'rx_reset_float_state', 'rx_get_rounding_mode (fenv variants)', 'randomx_calculate_hash (fenv branch)'],
               doc='fenv build: rounding-mode numbers map to the IEEE modes of table 4.3.1, reset selects nearest, the single-call hash restores the caller environment', bound='all modes, any caller environment', symbolic='mode, caller environment',
               stubs=['fesetround/fegetround/fegetenv/fesetenv := ghost environment']),
    'P4': dict(jobs=lambda ctx: [dict(dst=d, src=s_) for d, s_ in ((0, 0), (0, 1), (5, 5), (5, 2), (3, 7), (4, 4), (7, 6), (2, 5))] if ctx['tier'] == 'quick' else [dict(dst=d, src=s_) for d in range(8) for s_ in range(8)],
               run=run_P4, units=['vmcore_port'], functions=['BytecodeMachine::compileInstruction / executeInstruction and the generic rx_vec_* struct primitives of intrin_portable.h (portable lowering)'],
               doc='lemma I1 re-run on the portable lowering (generic rx_vec_f128 structs, scalar FP ops, fenv rounding): every instruction word == spec step, hence == the default build (I1)',
               bound='as I1; 8 register pairs (quick) / 64', symbolic='as I1', stubs=['mulh/smulh := reference formula (P1)', 'sqrt := uninterpreted fsqrt', 'fesetround := ghost rounding mode']),
}
