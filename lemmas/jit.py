# x86-64 JIT lemmas J1.. (C04, C06, C07, C01): bytes emitted by the real JitCompilerX86 (executed in irsym),
# run under the x86 semantics of engine/x86sem.py, vs the spec step function (which I1 ties to the interpreter)
import z3, time, re, os
from lemmas.common import *
from lemmas.isa import VMState, flag_v2, i2d_facts, max_program_size
from engine.irsym import Module, Interp, Ptr, is_c, bv, resolve, NamedT, explore, i2d, OOB, Mem
from engine import build, x86sem
from engine.x86sem import Machine, Undecodable, Fault
from spec import params as P, vm_ref as V

UNITS = {
    'jit': dict(src='src/jit_compiler_x86.cpp', inline=False),
}
GENCODE = '_ZN7randomx14JitCompilerX8612generateCodeERNS_11InstructionEi'
CODE_SIZE = 1 << 17

def jit_layout(mod):
    t = resolve(NamedT('class.randomx::JitCompilerX86', mod)); o = t.layout()[0]
    return dict(vec=o[0], usage=o[1], code=o[2], codePos=o[3], flags=o[4], size=t.size())

def new_jit(it, mod, L, usage, offs_vals, codepos, vmflags, code_size=CODE_SIZE):
    """JitCompilerX86 object with instructionOffsets = offs_vals (capacity for one more), given registerUsage and flags"""
    J = it.mem.alloc(L['size'], 'J'); code = it.mem.alloc(code_size, 'code')
    n = len(offs_vals); offs = it.mem.alloc(4 * (n + 8), 'offs')
    for k, v in enumerate(offs_vals): it.mem.store(Ptr('offs', 4 * k), v, 4)
    it.mem.store(Ptr('J', L['vec']), Ptr('offs', 0), 8); it.mem.store(Ptr('J', L['vec'] + 8), Ptr('offs', 4 * n), 8); it.mem.store(Ptr('J', L['vec'] + 16), Ptr('offs', 4 * (n + 8)), 8)
    for k in range(8): it.mem.store(Ptr('J', L['usage'] + 4 * k), usage[k], 4)
    it.mem.store(Ptr('J', L['code']), code, 8); it.mem.store(Ptr('J', L['codePos']), codepos, 4); it.mem.store(Ptr('J', L['flags']), vmflags, 4)
    return J

def machine_for(S, code_bytes, base, fork_it, extra_objs=None):
    """x86 machine in the JIT's register allocation (jit_compiler_x86.cpp header comment) holding VM state S"""
    mem = Mem(); mem.alloc(base + len(code_bytes) + 64, 'xcode')
    for k, b in enumerate(code_bytes): mem.store(Ptr('xcode', base + k), b, 1)
    mem.mkarr('sp', P.L3); mem.objs['sp']['arr'] = S.sp
    mem.alloc(512, 'stack')
    for k in range(0, 512, 8): mem.store(Ptr('stack', k), z3.BitVec('stk%d' % k, 64), 8)
    m = Machine(mem, 'xcode', fork_it)
    for k in range(8): m.gpr[8 + k] = S.r[k]
    for k in range(4): m.xmm[k] = list(S.f[k]); m.xmm[4 + k] = list(S.e[k]); m.xmm[8 + k] = list(S.a[k])
    m.xmm[12] = [z3.BitVec('xmm12_%d' % l, 64) for l in range(2)]
    m.xmm[13] = [(1 << 56) - 1] * 2
    m.xmm[14] = [V.emask_of(S.q[l]) for l in range(2)]
    m.xmm[15] = [0x80F0000000000000] * 2
    m.gpr[0] = z3.BitVec('rax0', 64); m.gpr[1] = z3.BitVec('rcx0', 64); m.gpr[2] = z3.BitVec('rdx0', 64)
    m.gpr[3] = z3.BitVec('rbx0', 64); m.gpr[5] = z3.BitVec('rbp0', 64); m.gpr[7] = Ptr('dataset', 0)
    m.gpr[6] = Ptr('sp', 0); m.gpr[4] = Ptr('stack', 0)
    m.mxcsr = S.mxcsr
    return m

FRAME_REGS = (3, 4, 5, 6, 7)      # rbx rsp rbp rsi rdi must survive every instruction
def same_val(a, b):
    if isinstance(a, Ptr) or isinstance(b, Ptr):
        return isinstance(a, Ptr) and isinstance(b, Ptr) and a.obj == b.obj and is_c(a.off) and is_c(b.off) and a.off == b.off
    return None

def run_J1(ctx, case):
    opcode, dst3, src3 = case['opcode'], case['dst'], case['src']
    q = Q(60 if ctx['tier'] == 'quick' else 240); mod = Module(ctx['ll']['jit']); L = jit_layout(mod); V2 = flag_v2()
    kind = [k for k in P.ORDER if P.RANGE[k][0] <= opcode < P.RANGE[k][1]][0]
    W = dict(opcode=z3.BitVecVal(opcode, 8), dst=z3.BitVecVal(dst3, 8), src=z3.BitVecVal(src3, 8), mod=z3.BitVec('mod', 8), imm32=z3.BitVec('imm32', 32))
    S = VMState(); BASE = 4096; NOFF = 6
    i = z3.BitVecVal(NOFF, 32) if kind == 'CBRANCH' else z3.BitVec('i', 32)
    hardaes = z3.BitVec('flag_other', 32); v2bit = z3.BitVec('v2', 1)
    vmflags = (hardaes & ~z3.BitVecVal(V2, 32)) | z3.If(v2bit == 1, z3.BitVecVal(V2, 32), z3.BitVecVal(0, 32))
    offs_vals = [z3.BitVec('ioff%d' % k, 32) for k in range(NOFF)]       # code offsets of instructions 0..i-1 (arbitrary)
    base_pc = [i >= 0, i < max_program_size()] + [z3.And(u >= -1, u < i) for u in S.usage]
    npaths = [0]; lens = []
    def one(fk):
        it = Interp(mod); it.fork = fk; fk['pc'] += base_pc
        it.hooks['randomx_reciprocal_fast'] = lambda s, a: V.RCP(bv(a[0], 32) if not is_c(a[0]) else z3.BitVecVal(a[0], 32))
        J = new_jit(it, mod, L, S.usage, offs_vals, BASE, vmflags)
        ins = it.mem.alloc(8, 'ins')
        for k, nm in enumerate(('opcode', 'dst', 'src', 'mod')): it.mem.store(Ptr('ins', k), opcode if nm == 'opcode' else (dst3 if nm == 'dst' else (src3 if nm == 'src' else W['mod'])), 1)
        it.mem.store(Ptr('ins', 4), W['imm32'], 4)
        tag = '%s(op %d) d%d s%d' % (kind, opcode, dst3, src3)
        try:
            it.call(GENCODE, [J, ins, i])
        except OOB as e:
            q.n += 1; q.sat += 1; q.failed.append((tag + ': emitter out-of-bounds access: %s' % e, {})); return
        end = it.mem.load(Ptr('J', L['codePos']), 4)
        if not is_c(end): raise Exception('symbolic code length')
        n = end - BASE; lens.append(n)
        q.n += 1
        if n > 32: q.sat += 1; q.failed.append((tag + ': emitted %d bytes > MaxRandomXInstrCodeSize' % n, {}))
        else: q.unsat += 1
        # the new instruction offset was recorded
        vend = it.mem.load(Ptr('J', L['vec'] + 8), 8)
        ok = isinstance(vend, Ptr) and vend.obj == 'offs' and vend.off == 4 * (NOFF + 1) and it.mem.load(Ptr('offs', 4 * NOFF), 4) == BASE
        q.n += 1; q.unsat += bool(ok); q.sat += (not ok)
        if not ok: q.failed.append((tag + ': instructionOffsets did not gain exactly this instruction\'s start', {}))
        code = [it.mem.load(Ptr('code', BASE + k), 1) for k in range(n)]
        jusage = [it.mem.load(Ptr('J', L['usage'] + 4 * k), 4) for k in range(8)]
        # ---- run the emitted bytes
        m = machine_for(S, code, BASE, it)
        frame0 = {r: m.gpr[r] for r in FRAME_REGS}
        try:
            r = m.run(BASE, stop={BASE + n}, max_steps=64)
        except Undecodable as e:      # limitation of the x86 model, not a property violation: the job ends INCONCLUSIVE
            raise Exception('x86 model cannot decode the emitted bytes (%s) [%s]' % (e, ' '.join('%02x' % b if is_c(b) else '??' for b in code)))
        except (Fault, OOB) as e:
            q.n += 1; q.sat += 1; q.failed.append((tag + ': emitted code faults: %s [%s]' % (e, ' '.join('%02x' % b if is_c(b) else '??' for b in code)), {})); return
        pc = fk['pc']; npaths[0] += 1
        v2 = v2bit == 1
        st = dict(r=S.r, f=S.f, e=S.e, a=S.a, sp=S.sp, fprc=z3.Extract(14, 13, S.mxcsr), q=S.q, usage=S.usage)
        sp_ = V.step(kind, W, st, i, v2)
        facts = i2d_facts([bv(x, 64) for k in range(4, 8) for x in m.xmm[k]]) if kind == 'FDIV_M' else []
        pcx = pc + facts
        for k in range(8):
            q.prove_eq(pcx, m.gpr[8 + k], sp_['r'][k], '%s: r%d' % (tag, k), 64)
            q.prove_eq(pcx, jusage[k], sp_['usage'][k], '%s: JIT last-writer[%d]' % (tag, k), 32)
        for k in range(4):
            for l in range(2):
                q.prove_eq(pcx, m.xmm[k][l], sp_['f'][k][l], '%s: f%d[%d]' % (tag, k, l), 64)
                q.prove_eq(pcx, m.xmm[4 + k][l], sp_['e'][k][l], '%s: e%d[%d]' % (tag, k, l), 64)
                q.prove_eq(pcx, m.xmm[8 + k][l], S.a[k][l], '%s: a%d[%d] preserved' % (tag, k, l), 64)
        q.prove_array_eq(pcx, m.mem.objs['sp']['arr'], sp_['sp'], '%s: scratchpad' % tag)
        q.prove_eq(pcx, z3.Extract(14, 13, bv(m.mxcsr, 32)), sp_['fprc'], '%s: fprc' % tag, 2)
        if kind == 'CFROUND':    # the whole control word written is default | rc<<13 (or untouched)
            q.prove(pcx, z3.Or(bv(m.mxcsr, 32) == S.mxcsr, bv(m.mxcsr, 32) == (z3.BitVecVal(0x9FC0, 32) | (z3.ZeroExt(30, sp_['fprc']) << 13))), '%s: MXCSR written is 0x9FC0|rc<<13' % tag)
        # control flow
        if r[0] == 'stop': q.prove_eq(pcx, sp_['next'], i + 1, '%s: falls through => spec continues with i+1' % tag, 32)
        elif r[0] == 'leave':
            _, pnext, disp = r[1]; tgt = z3.Extract(31, 0, bv(pnext, 64) + bv(disp, 64))
            exp = z3.BitVecVal(BASE, 32)     # offset of instruction index `next` : offs_vals[next] for next<=i-1, this instruction's own start for next==i
            for k in range(NOFF - 1, -1, -1): exp = z3.If(sp_['next'] == k, offs_vals[k], exp)
            q.prove_eq(pcx, tgt, exp, '%s: taken branch lands on instructionOffsets[spec next]' % tag, 32)
            q.prove(pcx, z3.And(sp_['next'] >= 0, sp_['next'] <= i), '%s: branch target index in [0,i]' % tag)
        else:
            q.n += 1; q.sat += 1; q.failed.append((tag + ': emitted fragment ended with %s' % (r,), {}))
        # frame registers, stack discipline, clobbers
        for rr in FRAME_REGS:
            sv = same_val(m.gpr[rr], frame0[rr])
            if sv is None: q.prove_eq(pcx, m.gpr[rr], frame0[rr], '%s: register %d preserved' % (tag, rr), 64)
            else:
                q.n += 1; q.unsat += sv; q.sat += (not sv)
                if not sv: q.failed.append(('%s: frame register %d changed' % (tag, rr), {}))
        bad = [x for x in m.written_xmm if x >= 8 and x != 12] + [x for x in m.written_gpr if x in FRAME_REGS]
        q.n += 1; q.unsat += (not bad); q.sat += bool(bad)
        if bad: q.failed.append(('%s: writes reserved registers %s' % (tag, bad), {}))
        for (kd, obj, off, nb) in m.accesses:
            if obj == 'stack':
                ok = is_c(off) and 0 <= off and off + nb <= 8; q.n += 1; q.unsat += ok; q.sat += (not ok)
                if not ok: q.failed.append(('%s: touches stack frame beyond the scratch slot [rsp,rsp+8): %s %s' % (tag, kd, off), {}))
            elif obj not in ('sp', 'xcode'):
                q.n += 1; q.sat += 1; q.failed.append(('%s: accesses object %s' % (tag, obj), {}))
        extent_checks(q, pcx, m.mem, 'extent(jit code) ' + tag)
        for (rip, a, al) in m.align_checks:
            q.prove(pcx, (bv(a.off, 64) & (al - 1)) == 0, '%s: %d-byte aligned SSE memory operand' % (tag, al))
    res, nq = explore(one, limit=64); q.n += nq
    return result('J1', '%s op=%d dst=%d src=%d' % (kind, opcode, dst3, src3), q, paths=npaths[0], detail='%d paths, emitted lengths %s' % (npaths[0], sorted(set(lens))))

def jobs_J1(ctx):
    J = []
    for k in P.ORDER:
        lo, hi = P.RANGE[k]
        ops = sorted({lo, hi - 1}) if ctx['tier'] == 'quick' else list(range(lo, hi))
        for op in ops: J.append(dict(opcodes=[op]))
    return J

def run_J1_group(ctx, case):
    out = []
    for op in case['opcodes']:
        for d in range(8):
            for s_ in range(8): out.append(run_J1(ctx, dict(opcode=op, dst=d, src=s_)))
    # fold into one record per opcode
    agg = out[0].copy()
    for k in ('queries', 'unsat', 'sat', 'unknown', 'obligations', 'paths'): agg[k] = sum(o.get(k, 0) for o in out)
    agg['solver_s'] = round(sum(o['solver_s'] for o in out), 2)
    agg['failed'] = [f for o in out for f in o['failed']][:6]; agg['inconclusive'] = [f for o in out for f in o['inconclusive']][:6]
    agg['status'] = 'violated' if agg['failed'] else ('inconclusive' if agg['inconclusive'] else 'proved')
    agg['case'] = 'opcode %s x 64 register pairs' % case['opcodes']
    return agg

LEMMAS = {
    'J1': dict(jobs=jobs_J1, run=run_J1_group, units=['jit'], functions=['JitCompilerX86::generateCode', 'engine[256]', 'h_* (30 emitters)', 'genAddressReg', 'genAddressRegDst', 'genAddressImm', 'genSIB', 'emit*', 'std::vector<int>::push_back'],
               doc='per-instruction translation validation: bytes emitted for an instruction word, executed under the x86 semantics from an arbitrary machine state, give the spec step (= interpreter step by I1): r0-r7, f, e, whole scratchpad, fprc/MXCSR, branch target = instructionOffsets[next], last-writer table; a0-a3, rbx/rbp/rsp/rsi/rdi, xmm13-15 preserved; only [rsp,rsp+8) of the frame touched; length <= 32; every access in bounds',
               bound='opcode: first and last of each of the 29 ranges (quick) / all 256 (thorough); all 64 (dst,src) pairs; mod and imm32 symbolic; any register file, scratchpad, last-writer table and instruction offsets; both versions',
               symbolic='mod, imm32, r0-r7, f/e/a, scratchpad, E masks, MXCSR, rax/rcx/rdx/rbx/rbp, stack content, instruction index, last-writer table, earlier instruction offsets, vmFlags',
               stubs=['FP ops := uninterpreted functions of (rounding mode, operands), shared with the spec', 'randomx_reciprocal_fast := uninterpreted rcp (R1/R2)', 'x86 semantics: engine/x86sem.py (validated natively)'],
               outside='the CPU\'s IEEE arithmetic; x86sem model correctness beyond its native validation'),
}

# ------------------------------------------------------------------------------------------------ X0: native validation of the x86 model
def run_X0(ctx, case):
    """the bytes the real emitter produces for concrete instruction words, executed on the host CPU and by x86sem (concrete mode) from the same
    random state: every register, MXCSR control bits and the scratchpad must agree.  Differential test of the *model* (trusted base), not of RandomX."""
    import random
    from engine import x86native
    q = Q(10); mod = Module(ctx['ll']['jit']); L = jit_layout(mod); rnd = random.Random(ctx.get('seed', 0) * 1000 + case['opcode']); ar = x86native.Arena(ctx.get('seed', 0))
    opcode = case['opcode']; kind = [k for k in P.ORDER if P.RANGE[k][0] <= opcode < P.RANGE[k][1]][0]; runs = 0; samples = []
    for (d, s_) in case['pairs']:
        for t in range(case['states']):
            imm = rnd.choice([rnd.getrandbits(32), rnd.getrandbits(8), 0xffffff00 | rnd.getrandbits(8), 1 << rnd.randint(0, 31), 0])
            if kind == 'IMUL_RCP' and imm & (imm - 1) == 0: imm = 3 + 2 * rnd.getrandbits(20)
            modb = rnd.getrandbits(8); v2 = rnd.getrandbits(1)
            it = Interp(mod)
            def rcp(s, a):
                dv = a[0]; x = (1 << 63) // dv; r_ = (1 << 63) % dv; sh = dv.bit_length(); return ((x << sh) + ((r_ << sh) // dv)) & ((1 << 64) - 1)
            it.hooks['randomx_reciprocal_fast'] = rcp
            BASE = 0
            J = new_jit(it, mod, L, [0xffffffff] * 8, [], BASE, flag_v2() if v2 else 0, code_size=4096)
            ins = it.mem.alloc(8, 'ins')
            for k, v in enumerate((opcode, d, s_, modb)): it.mem.store(Ptr('ins', k), v, 1)
            it.mem.store(Ptr('ins', 4), imm, 4)
            it.call(GENCODE, [J, ins, 0])
            end = it.mem.load(Ptr('J', L['codePos']), 4); code = [it.mem.load(Ptr('code', k), 1) for k in range(end)]
            if not all(is_c(b) for b in code): raise Exception('symbolic byte from concrete instruction')
            st0 = x86native.random_state(ar, rnd)
            if kind == 'CBRANCH': pass
            diffs = x86native.compare(ar, code, st0) + ['(symbolic mode) ' + x for x in x86native.compare_symbolic(ar, code, st0)]; runs += 2
            q.n += 1; q.unsat += (not diffs); q.sat += bool(diffs)
            if diffs: q.failed.append(('x86sem disagrees with the host CPU on %s dst=%d src=%d imm32=%#x mod=%#x [%s]: %s' % (kind, d, s_, imm, modb, ' '.join('%02x' % b for b in code), diffs[:3]), {}))
            if len(samples) < 2: samples.append(' '.join('%02x' % b for b in code))
    r = result('X0', '%s (opcode %d)' % (kind, opcode), q, paths=runs, detail='%d native/model runs agree; e.g. %s' % (runs, samples))
    if q.failed: r['status'] = 'error'; r['error'] = 'x86 model validation failed (engine defect, not a property violation): ' + str(q.failed[0][0])[:400]
    return r

def jobs_X0(ctx):
    pairs = [(0, 1), (4, 4), (5, 3), (7, 4), (3, 5)] if ctx['tier'] == 'quick' else [(d, s_) for d in range(8) for s_ in range(8)]
    return [dict(opcode=P.RANGE[k][0], pairs=pairs, states=3 if ctx['tier'] == 'quick' else 5) for k in P.ORDER]

LEMMAS['X0'] = dict(jobs=jobs_X0, run=run_X0, units=['jit'], functions=['engine/x86sem.py (the model)', 'JitCompilerX86::generateCode (source of the byte sequences)'],
    doc='validation of the trusted x86 model: code emitted for concrete instruction words runs on the host CPU and in x86sem (concrete mode) from the same random state; registers, MXCSR and scratchpad agree',
    bound='29 instruction kinds x 5 register pairs x 3 random states (quick) / 64 pairs x 5', symbolic='(none: concrete differential test of the model)', stubs=[])

# ------------------------------------------------------------------------------------------------ X1: whole program function, host CPU vs model
def run_X1(ctx, case):
    """the real JIT (native build of the current tree) compiles a random program; its program function runs on the host CPU and in x86sem (concrete
    mode) from the same state: exercises prologue, loop templates, dataset read, every emitted fragment, hardware-AES store (v2), epilogue"""
    from engine import x86native, nreplay
    from lemmas import life
    q = Q(10); F = life.flagvals()
    shim = nreplay.load_shim(ctx['shim'])
    flags_of = lambda v2: (F['V2'] if v2 else 0) | F['HARD_AES'] | F['JIT'] | F['FULL_MEM']
    diffs, nlines = x86native.program_compare(shim, case['seed'] + 1000 * ctx.get('seed', 0), case['v2'], case['iters'], flags_of)
    q.n += 1; q.unsat += (not diffs); q.sat += bool(diffs)
    r = result('X1', 'program seed %d %s %d iterations' % (case['seed'], 'v2' if case['v2'] else 'v1', case['iters']), q, paths=1, detail='register file and scratchpad agree after %d iterations (%d dataset lines read)' % (case['iters'], nlines))
    if diffs: r['status'] = 'error'; r['error'] = 'x86 model validation failed (engine defect, not a property violation): ' + str(diffs[:3])[:400]
    return r

def jobs_X1(ctx):
    n = 4 if ctx['tier'] == 'quick' else 24
    return [dict(seed=k, v2=bool(v), iters=16 if ctx['tier'] == 'quick' else 64) for k in range(n) for v in (0, 1)]

LEMMAS['X1'] = dict(jobs=jobs_X1, run=run_X1, units=[], native=True, functions=['engine/x86sem.py (the model)', 'JitCompilerX86::generateProgram (native, source of the code)'],
    doc='validation of the trusted x86 model on whole program functions: the natively compiled program runs on the host CPU and in x86sem (concrete mode); register file and scratchpad agree',
    bound='4 random programs x {v1,v2} x 16 iterations (quick) / 24 x 2 x 64 (thorough); full mode, hardware AES', symbolic='(none: concrete differential test of the model)', stubs=[])
