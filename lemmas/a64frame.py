# ARM64 back-end, frame lemma N3 (C19): the hand-written main loop of jit_compiler_a64_static.S as JitCompilerA64::generateProgram patches it,
# executed under the A64 model: entry establishes spec 4.6.1, one iteration from an arbitrary loop state == spec 4.6.2 (same oracle as I8/J3),
# exit stores the register file and restores the caller's state.  The program body is abstracted (arbitrary effect of what N1 allows an
# instruction to do).  Full (dataset) mode, v1 and v2 with hardware AES.
import z3, os, re
from lemmas.common import *
from engine.irsym import Module, Interp, Mem, Ptr, is_c, bv, resolve, NamedT, explore, OOB, i2d
from engine import build, irsym, cxxlib
from engine import a64sem
from engine.x86sem import Undecodable, Fault, simp
from spec import params as P, vm_ref as V, aes_ref
from lemmas import life
from lemmas.a64 import UNITS, jit_layout, INTREG, LITREGS, rbit64

def a64_linked(tag):
    """the runtime linked at address 0 (ld.lld) so that branches between its global labels are resolved"""
    d = build.workdir(tag); o = os.path.join(d, 'a64_static.o'); e = os.path.join(d, 'a64_linked.elf')
    build.run(['clang-14', '--target=aarch64-linux-gnu', '-c', '-I', os.path.join(build.REPO, 'src'), os.path.join(build.REPO, 'src', 'jit_compiler_a64_static.S'), '-o', o])
    build.run(['ld.lld', '-m', 'aarch64elf', '-Ttext=0', '-e', '0', o, '-o', e]); syms = {}
    for l in build.run(['llvm-nm-14', '-n', e]).splitlines():
        p = l.split()
        if len(p) == 3: syms[p[2]] = int(p[0], 16)
    b = os.path.join(d, 'a64_linked.bin'); build.run(['llvm-objcopy-14', '-O', 'binary', '--only-section=.text', e, b])
    return syms, open(b, 'rb').read()

def lanes_to_bytes(v):
    out = []
    for l in range(2):
        x = v[l]
        for k in range(8): out.append(((x >> (8 * k)) & 0xff) if is_c(x) else z3.Extract(8 * k + 7, 8 * k, x))
    return out
def bytes_to_lanes(bs):
    def cat(b8):
        if all(is_c(b) for b in b8): return sum(b << (8 * k) for k, b in enumerate(b8))
        return z3.simplify(z3.Concat(*[bv(b, 8) for b in reversed(b8)]))
    return [cat(bs[:8]), cat(bs[8:])]

class FrameMachine(a64sem.Machine):
    """a64sem plus the vector load/store pair forms, AES instructions and movi #0 the main loop uses"""
    def __init__(s, *a, **k):
        super().__init__(*a, **k); s.hooks_at = {}; s.prefetches = []
    def step(s):
        w = s.word(s.pc)
        if is_c(w):
            pc0 = s.pc
            def dis(t): s.disasm.append((pc0, t))
            # load/store pair of SIMD&FP registers (q: opc=10, d: opc=01), signed offset / pre / post
            if (w & 0x3E000000) == 0x2C000000 and ((w >> 30) & 3) in (1, 2):
                opc = (w >> 30) & 3; mode = (w >> 23) & 3; L = (w >> 22) & 1; imm7 = (w >> 15) & 0x7f; rt2 = (w >> 10) & 31; rn = (w >> 5) & 31; rt = w & 31
                sz = 16 if opc == 2 else 8; d = (imm7 - 128 if imm7 >> 6 else imm7) * sz
                if mode not in (1, 2, 3): raise Undecodable('ldnp/stnp')
                base = s.rx(rn, spreg=True); ea = s.padd(base, d & a64sem.M64) if mode in (2, 3) else base
                for j, r_ in enumerate((rt, rt2)):
                    for l in range(sz // 8):
                        p_ = s.padd(ea, j * sz + 8 * l)
                        if L:
                            if l == 0: s.v[r_] = [None, 0]
                            s.v[r_][l] = s.load(p_, 8)
                        else:
                            val = s.v[r_][l]
                            if val is None: raise Fault('store of uninitialised vector register v%d' % r_)
                            s.store(p_, val, 8)
                    if L: s.written_v.add(r_)
                if mode in (1, 3): s.wx(rn, s.padd(base, d & a64sem.M64), spreg=True)
                c_ = 'q' if sz == 16 else 'd'; fmt = {2: '%s %s%d, %s%d, [%s%s]', 3: '%s %s%d, %s%d, [%s%s]!', 1: '%s %s%d, %s%d, [%s]%s'}[mode]
                s.pc += 4; dis(fmt % ('ldp' if L else 'stp', c_, rt, c_, rt2, s.rn_(rn, 64, True), (', #%d' % d) if (d or mode != 2) else '')); return None
            if (w & 0xFFC00000) == 0x3DC00000 or (w & 0xFFC00000) == 0x3D800000:       # ldr/str q, [xn, #imm12*16]
                L = (w >> 22) & 1; imm = ((w >> 10) & 0xfff) * 16; rn = (w >> 5) & 31; rt = w & 31; ea = s.padd(s.rx(rn, spreg=True), imm)
                if L: s.v[rt] = [s.load(ea, 8), s.load(s.padd(ea, 8), 8)]; s.written_v.add(rt)
                else: s.store(ea, s.v[rt][0], 8); s.store(s.padd(ea, 8), s.v[rt][1], 8)
                s.pc += 4; dis('%s q%d, [%s%s]' % ('ldr' if L else 'str', rt, s.rn_(rn, 64, True), (', #%d' % imm) if imm else '')); return None
            if (w & 0xFFFFFFE0) == 0x4F000400: s.v[w & 31] = [0, 0]; s.written_v.add(w & 31); s.pc += 4; dis('movi v%d.4s, #0' % (w & 31)); return None
            if (w & 0xFFFF0C00) == 0x4E280800 and ((w >> 12) & 0xf) in (4, 5, 6, 7):
                op = (w >> 12) & 0xf; rn = (w >> 5) & 31; rd = w & 31
                if op in (4, 5):
                    st = [aes_ref.X(a, b) if not (is_c(a) and is_c(b)) else a ^ b for a, b in zip(lanes_to_bytes(s.v[rd]), lanes_to_bytes(s.v[rn]))]
                    if op == 4: sr = [st[(i % 4) + 4 * (((i // 4) + (i % 4)) % 4)] for i in range(16)]; out = [aes_ref.sub(b) for b in sr]
                    else: sr = [st[(i % 4) + 4 * (((i // 4) - (i % 4)) % 4)] for i in range(16)]; out = [aes_ref.isub(b) for b in sr]
                else:
                    a_ = lanes_to_bytes(s.v[rn]); out = []; gm, X = aes_ref.gm, aes_ref.X
                    for c in range(4):
                        a = a_[4 * c:4 * c + 4]
                        if op == 6: out += [X(X(gm(a[0], 2), gm(a[1], 3)), X(a[2], a[3])), X(X(a[0], gm(a[1], 2)), X(gm(a[2], 3), a[3])), X(X(a[0], a[1]), X(gm(a[2], 2), gm(a[3], 3))), X(X(gm(a[0], 3), a[1]), X(a[2], gm(a[3], 2)))]
                        else: out += [X(X(gm(a[0], 14), gm(a[1], 11)), X(gm(a[2], 13), gm(a[3], 9))), X(X(gm(a[0], 9), gm(a[1], 14)), X(gm(a[2], 11), gm(a[3], 13))), X(X(gm(a[0], 13), gm(a[1], 9)), X(gm(a[2], 14), gm(a[3], 11))), X(X(gm(a[0], 11), gm(a[1], 13)), X(gm(a[2], 9), gm(a[3], 14)))]
                s.v[rd] = bytes_to_lanes(out); s.written_v.add(rd); s.pc += 4; dis('%s v%d.16b, v%d.16b' % ({4: 'aese', 5: 'aesd', 6: 'aesmc', 7: 'aesimc'}[op], rd, rn)); return None
            if (w & 0xFFE0FC00) == 0x0E003C00 and ((w >> 16) & 1):       # umov Wd, Vn.B[i]
                imm5 = (w >> 16) & 31; i = imm5 >> 1; rn = (w >> 5) & 31; rd = w & 31; lane = s.v[rn][i >> 3]
                if lane is None: raise Fault('read of uninitialised vector register v%d' % rn)
                sh = 8 * (i & 7); e = ((lane >> sh) & 0xff) if is_c(lane) else z3.simplify(z3.ZeroExt(56, z3.Extract(sh + 7, sh, lane)))
                s.wx(rd, e); s.pc += 4; dis('umov w%d, v%d.b[%d]' % (rd, rn, i)); return None
            if (w & 0xFFE0FC00) == 0xB8607800 or (w & 0xFFE0FC00) == 0xB8606800:       # ldr Wt, [Xn, Xm{, lsl #2}]
                S_ = (w >> 12) & 1; rm_ = (w >> 16) & 31; rn = (w >> 5) & 31; rt = w & 31; off = s.rx(rm_)
                if isinstance(off, Ptr): raise Fault('pointer used as index')
                if S_: off = ((off << 2) & a64sem.M64) if is_c(off) else simp(bv(off, 64) << 2)
                v = s.load(s.padd(s.rx(rn, spreg=True), off), 4); s.wx(rt, v, 32); s.pc += 4; dis('ldr w%d, [%s, x%d%s]' % (rt, s.rn_(rn, 64, True), rm_, ', lsl #2' if S_ else '')); return None
            if (w & 0xFFFFFC00) == 0x1E270000:       # fmov Sd, Wn (upper bits of the vector register cleared)
                rn = (w >> 5) & 31; rd = w & 31; v = s.rx(rn, 32); s.v[rd] = [v if is_c(v) else z3.simplify(z3.ZeroExt(32, bv(v, 32))), 0]; s.written_v.add(rd); s.pc += 4; dis('fmov s%d, w%d' % (rd, rn)); return None
            if (w & 0xFFE0FC00) == 0x4E001C00 and ((w >> 16) & 7) == 4:       # ins Vd.S[i], Wn
                i = (w >> 19) & 3; rn = (w >> 5) & 31; rd = w & 31; v = s.rx(rn, 32); old = s.v[rd][i >> 1]
                if old is None: raise Fault('read of uninitialised vector register v%d' % rd)
                O = bv(old, 64); V_ = bv(v, 32)
                s.v[rd][i >> 1] = simp(z3.Concat(V_, z3.Extract(31, 0, O)) if (i & 1) else z3.Concat(z3.Extract(63, 32, O), V_)); s.written_v.add(rd); s.pc += 4; dis('mov v%d.s[%d], w%d' % (rd, i, rn)); return None
            if (w & 0x9F000000) == 0x10000000:       # adr
                immlo = (w >> 29) & 3; immhi = (w >> 5) & 0x7ffff; d = (immhi << 2) | immlo; d = d - (1 << 21) if d >> 20 else d
                s.wx(w & 31, Ptr(s.code, pc0 + d)); s.pc += 4; dis('adr x%d, #%d' % (w & 31, d)); return None
            if (w & 0xFC000000) == 0x94000000:       # bl
                imm26 = w & 0x3ffffff; d = imm26 - (1 << 26) if imm26 >> 25 else imm26; s.wx(30, Ptr(s.code, pc0 + 4)); s.pc += 4; dis('bl %#x' % (pc0 + 4 * d)); return ('jmp', pc0 + 4 * d)
            if (w & 0xFFC00000) == 0xF9800000:       # prfm [xn, #imm]
                rn = (w >> 5) & 31; s.prefetches.append(s.padd(s.rx(rn, spreg=True), ((w >> 10) & 0xfff) * 8)); s.pc += 4; dis('prfm'); return None
        return super().step()

def spec_aes(enc, st2, key2):
    """AESENC / AESDEC data flow on [lo, hi] lanes (x86 AESENC = MixColumns(SubBytes(ShiftRows(s))) ^ k), over the same S-box functions as the model"""
    f = aes_ref.aesenc if enc else aes_ref.aesdec
    return bytes_to_lanes(f(lanes_to_bytes(st2), lanes_to_bytes(key2)))

HANDLERS = None
def run_N3(ctx, case):
    v2 = case['v2']; light = case.get('light', False); soft = case.get('soft', False); q = Q(120); mod = Module(ctx['ll']['a64']); L = jit_layout(mod); npaths = [0]; F = life.flagvals()
    syms, text = a64_linked(ctx['tag'] + '-n3-%d' % os.getpid())
    tag = 'A64 frame %s %s %s-AES readReg=%s' % ('light' if light else 'full', 'v2' if v2 else 'v1', 'soft' if soft else 'hard', [2 * i + ((case['rr'] >> i) & 1) for i in range(4)])
    rr = [2 * i + ((case['rr'] >> i) & 1) for i in range(4)]; qm = [z3.BitVec('q%d' % (14 + i), 64) for i in range(2)]
    dso32 = z3.BitVec('datasetOffset32', 32); dso = z3.ZeroExt(32, dso32) if light else z3.BitVec('datasetOffset', 64); base_pc = [z3.ULE(dso, P.DATASET_EXTRA), dso & 63 == 0]
    DSI = [z3.Function('DSI%d' % k, z3.BitVecSort(64), z3.BitVecSort(64)) for k in range(8)]; CODESZ = syms['randomx_init_dataset_aarch64_end'] - syms['randomx_program_aarch64']
    L3M = P.MASK_L3_64; DM = (P.DATASET_BASE - 1) & ~63
    sel = lambda regs, idx: regs[idx]; z64 = lambda v: z3.ZeroExt(32, v)
    ld = lambda arr, off: z3.Concat(*[z3.Select(arr, off + k) for k in reversed(range(8))])
    MAIN = syms['randomx_program_aarch64_main_loop']; PROG = syms['randomx_program_aarch64_vm_instructions']; phase_seen = set()
    def one(fk):
        it = Interp(mod); it.fork = fk; fk['pc'] += base_pc
        H = life.Heap(it, fail=False); cxxlib.install(it, H)
        it.mem.alloc(len(text) + 64, 'text')
        for k, b in enumerate(text): it.mem.objs['text']['bytes'][k] = b
        it.mem.objs['text']['addr'] = 0x10000000       # nominal address of the runtime image (the emitter only ever uses differences of symbol addresses)
        it.extern = {nm: Ptr('text', off) for nm, off in syms.items()}
        it.mem.alloc(4096, 'lut_enc'); it.mem.alloc(4096, 'lut_dec'); it.extern['randomx_aes_lut_enc'] = Ptr('lut_enc', 0); it.extern['randomx_aes_lut_dec'] = Ptr('lut_dec', 0)
        life.run_ctors(it, mod)
        def alloc_pages(s_, a):
            n = a[0] if is_c(a[0]) else z3.simplify(a[0]).as_long(); return s_.mem.alloc(n, 'codebuf')
        it.hooks['allocMemoryPages'] = alloc_pages
        J = it.mem.alloc(L['size'], 'J'); it.call('_ZN7randomx14JitCompilerA64C2Ev', [J]); code = it.mem.load(Ptr('J', L['code']), 8)
        flags = (F['V2'] if v2 else 0) | (0 if soft else F['HARD_AES']) | F['JIT'] | (0 if light else F['FULL_MEM']); it.mem.store(Ptr('J', L['flags']), flags, 4)
        ncalls = [0]
        for f in mod.funcs:
            if re.match(r'_ZN7randomx14JitCompilerA64\d+h_\w+ERNS_11InstructionERj$', f): it.hooks[f] = (lambda s, a: ncalls.__setitem__(0, ncalls[0] + 1))
        prog = it.mem.alloc(128 + 8 * 512, 'prog'); pcfg = it.mem.alloc(32, 'pcfg')
        for k in range(0, 128 + 8 * 512, 8): it.mem.store(Ptr('prog', k), 0, 8)
        for l in range(2): it.mem.store(Ptr('pcfg', 8 * l), V.emask_of(qm[l]), 8)
        for k in range(4): it.mem.store(Ptr('pcfg', 16 + 4 * k), rr[k], 4)
        if light: it.call('_ZN7randomx14JitCompilerA6420generateProgramLightERNS_7ProgramERNS_20ProgramConfigurationEj', [J, prog, pcfg, dso32])
        else: it.call('_ZN7randomx14JitCompilerA6415generateProgramERNS_7ProgramERNS_20ProgramConfigurationE', [J, prog, pcfg])
        def chk(c, what):
            q.n += 1; q.unsat += bool(c); q.sat += (not c)
            if not c: q.failed.append(('%s: %s' % (tag, what), {}))
        chk(ncalls[0] == (P.P.get('RANDOMX_PROGRAM_SIZE_V2', 384) if v2 else P.P.get('RANDOMX_PROGRAM_SIZE_V1', P.P.get('RANDOMX_PROGRAM_SIZE', 256))) or ncalls[0] in (256, 384), 'an emitter is called for every instruction of the program (%d calls)' % ncalls[0])
        mem = it.mem; CODE = code.obj
        mem.mkarr('sp', P.L3); S0 = mem.objs['sp']['arr']; mem.mkarr('dataset', P.DATASET_BASE + P.DATASET_EXTRA); D0 = mem.objs['dataset']['arr']; mem.share('dataset'); mem.alloc(64, 'cachemem'); mem.share('cachemem')
        mem.alloc(256, 'regfile'); A = [[z3.BitVec('a%d_%d' % (i, l), 64) for l in range(2)] for i in range(4)]
        for k in range(0, 192, 8): mem.store(Ptr('regfile', k), z3.BitVec('rf_stale%d' % k, 64), 8)
        for l in range(2): mem.store(Ptr('regfile', 64 + 8 * l), V.emask_of(qm[l]), 8)        # vm_compiled.cpp (aarch64): the E 'or' mask is handed over in reg.f[0]
        for i in range(4):
            for l in range(2): mem.store(Ptr('regfile', 192 + 16 * i + 8 * l), A[i][l], 8)
        mx0, ma0 = z3.BitVecs('mx_entry ma_entry', 32)
        mem.alloc(16, 'memregs'); mem.store(Ptr('memregs', 0), mx0, 4); mem.store(Ptr('memregs', 4), ma0, 4); mem.store(Ptr('memregs', 8), Ptr('cachemem', 0) if light else Ptr('dataset', dso), 8)      # compiled VM: mem.memory = dataset + datasetOffset; light: cache memory
        STK = 1024; mem.alloc(STK + 64, 'stack')
        for k in range(0, STK + 64, 8): mem.store(Ptr('stack', k), z3.BitVec('stk%d' % k, 64), 8)
        m = FrameMachine(mem, CODE, it); entry = {r: z3.BitVec('x%d_entry' % r, 64) for r in range(31)}
        for r in range(31): m.x[r] = entry[r]
        ventry = {r: [z3.BitVec('v%d_%d_entry' % (r, l), 64) for l in range(2)] for r in range(32)}
        for r in range(32): m.v[r] = list(ventry[r])
        iters = z3.BitVec('iterations', 64); fk['pc'] += [iters >= 1, iters < (1 << 31)]
        m.x[0] = Ptr('regfile', 0); m.x[1] = Ptr('memregs', 0); m.x[2] = Ptr('sp', 0); m.x[3] = iters; m.x[30] = Ptr('caller', 0); m.sp = Ptr('stack', STK)
        fpcr_e = z3.BitVec('fpcr_entry', 64); m.fpcr = fpcr_e
        # ---------------- phase 1: prologue -> main loop (4.6.1)
        try: r = m.run(0, stop={MAIN}, max_steps=300)
        except (Fault, OOB) as e:
            chk(False, 'prologue does not execute: %s' % e); return
        chk(r == ('stop', MAIN), 'prologue reaches the main loop (got %s)' % (r,))
        pc = fk['pc']
        for k in range(8): q.prove_eq(pc, m.x[INTREG[k]], 0, '%s: 4.6.1: r%d = 0 at loop entry' % (tag, k), 64)
        for i in range(4):
            for l in range(2): q.prove_eq(pc, m.v[24 + i][l], A[i][l], '%s: group A register a%d[%d] loaded from the register file' % (tag, i, l), 64)
        q.prove_eq(pc, m.x[9], z3.Concat(ma0, mx0), '%s: x9 = (ma, mx)' % tag, 64)
        q.prove_eq(pc, m.x[10], z3.Concat(ma0, mx0), '%s: 4.6.1: spMix1 = (ma, mx): spAddr0 = mx, spAddr1 = ma' % tag, 64)
        for l in range(2):
            q.prove_eq(pc, m.v[29][l], 0x00FFFFFFFFC00000, '%s: v29 = E and-mask' % tag, 64); q.prove_eq(pc, m.v[30][l], V.emask_of(qm[l]), '%s: v30 = E or-mask of this program' % tag, 64); q.prove_eq(pc, m.v[31][l], 0x80F0000000000000, '%s: v31 = FSCAL mask' % tag, 64)
        q.prove_eq(pc, m.x[8], rbit64(fpcr_e), '%s: x8 = bit-reversed FPCR' % tag, 64); q.prove_eq(pc, m.fpcr, fpcr_e, '%s: prologue leaves FPCR alone' % tag, 64)
        q.prove_eq(pc, m.x[3], iters, '%s: x3 = iteration count' % tag, 64)
        chk(isinstance(m.x[2], Ptr) and m.x[2].obj == 'sp' and m.x[2].off == 0, 'x2 = scratchpad')
        chk(isinstance(m.x[1], Ptr) and m.x[1].obj == ('cachemem' if light else 'dataset'), 'x1 = dataset / cache pointer'); x1_loop = m.x[1]
        FRAME = m.sp.off if isinstance(m.sp, Ptr) else None; chk(FRAME is not None and FRAME < STK and FRAME % 16 == 0, 'sp = 16-byte aligned frame base')
        lit_regs = {r: m.x[r] for r in LITREGS}; lit_v = {r: list(m.v[r]) for r in range(16)}
        # ---------------- phase 2: one iteration from an arbitrary loop state (4.6.2)
        R0 = [z3.BitVec('r%d' % i, 64) for i in range(8)]; ma, mx = z3.BitVecs('ma mx', 32); ic = z3.BitVec('ic', 64); fk['pc'] += [ic >= 1, ic < (1 << 31)]
        for k in range(8): m.x[INTREG[k]] = R0[k]
        mix = sel(R0, rr[0]) ^ sel(R0, rr[1]); m.x[10] = mix; m.x[9] = z3.Concat(ma, mx); m.x[3] = ic
        A0 = z3.Extract(31, 0, mix) & L3M; A1 = z3.Extract(63, 32, mix) & L3M
        for r_ in (16, 17, 19, 20): m.x[r_] = z3.BitVec('x%d_h' % r_, 64)
        for r_ in range(16, 24): m.v[r_] = [z3.BitVec('v%d_%d_h' % (r_, l), 64) for l in range(2)]
        m.v[28] = [z3.BitVec('v28_%d_h' % l, 64) for l in range(2)]
        fp_loop = z3.BitVec('fpcr_loop', 64); m.fpcr = fp_loop; m.x[8] = rbit64(fp_loop)
        st = {}
        def program(mach):
            st['pre'] = dict(r=[mach.x[INTREG[k]] for k in range(8)], f=[list(mach.v[16 + k]) for k in range(4)], e=[list(mach.v[20 + k]) for k in range(4)], sp=mach.mem.objs['sp']['arr'])
            st['r2'] = [z3.BitVec('r2_%d' % i, 64) for i in range(8)]
            st['f2'] = [[z3.BitVec('f2_%d_%d' % (i, l), 64) for l in range(2)] for i in range(4)]; st['e2'] = [[z3.BitVec('e2_%d_%d' % (i, l), 64) for l in range(2)] for i in range(4)]
            for k in range(8): mach.x[INTREG[k]] = st['r2'][k]
            for k in range(4): mach.v[16 + k] = list(st['f2'][k]); mach.v[20 + k] = list(st['e2'][k])
            mach.mem.objs['sp']['arr'] = z3.Array('sp_after_program', z3.BitVecSort(64), z3.BitVecSort(8)); st['sp2'] = mach.mem.objs['sp']['arr']
            for r_ in (19, 20): mach.x[r_] = z3.BitVec('x%d_after_program' % r_, 64)          # N1: an instruction may clobber x19, x20, v28, flags; CFROUND changes FPCR.RMode and its shadow x8
            mach.v[28] = [z3.BitVec('v28_%d_p' % l, 64) for l in range(2)]; mach.fl = dict(N=None, Z=None, C=None, V=None)
            st['fpcr2'] = z3.BitVec('fpcr_after_program', 64); mach.fpcr = st['fpcr2']; mach.x[8] = rbit64(st['fpcr2'])
        ssh = {}
        def item_function(mach):      # contract of the generated dataset-item function (N5): x0 = cache memory, x1 = out, x2 = item number; writes 8 words; x20 is scratch; everything else preserved
            ssh['item'] = mach.x[2]; ssh['x0'] = mach.x[0]; out = mach.x[1]
            if not isinstance(out, Ptr): raise Fault('item function called with a non-pointer output buffer')
            for k in range(8): mach.store(mach.padd(out, 8 * k), DSI[k](bv(mach.x[2], 64)), 8)
            mach.x[20] = z3.BitVec('x20_clobbered_by_item_function', 64); mach.fl = dict(N=None, Z=None, C=None, V=None)
            ra = mach.x[30]
            if not (isinstance(ra, Ptr) and ra.obj == mach.code and is_c(ra.off)): raise Fault('item function: bad return address')
            mach.pc = ra.off
        nsoft = [0]
        def soft_round(mach, enc):      # contract of the software-AES round routines (N4): v0 := round(v0, v1); x19/x20 must hold the table pointers; clobbers x0-x16, v28, flags
            okp = isinstance(mach.x[19], Ptr) and mach.x[19].obj == 'lut_enc' and mach.x[19].off == 0 and isinstance(mach.x[20], Ptr) and mach.x[20].obj == 'lut_dec' and mach.x[20].off == 0
            if not okp: raise Fault('software AES routine called without the table pointers in x19/x20')
            mach.v[0] = spec_aes(enc, mach.v[0], mach.v[1]); nsoft[0] += 1
            for r_ in range(0, 17): mach.x[r_] = z3.BitVec('x%d_clobbered_by_softaes_%d' % (r_, nsoft[0]), 64)
            mach.v[28] = [z3.BitVec('v28_%d_clobbered_%d' % (l, nsoft[0]), 64) for l in range(2)]; mach.fl = dict(N=None, Z=None, C=None, V=None)
            ra = mach.x[30]
            if not (isinstance(ra, Ptr) and ra.obj == mach.code and is_c(ra.off)): raise Fault('software AES routine: bad return address')
            mach.pc = ra.off
        kind = None
        try:
            m.pc = MAIN; steps = 0
            while True:
                if m.pc == PROG and 'pre' not in st: program(m)
                if light and m.pc == CODESZ: item_function(m); continue
                if soft and m.pc in (syms['randomx_soft_aesenc'], syms['randomx_soft_aesdec']): soft_round(m, m.pc == syms['randomx_soft_aesenc']); continue
                rr_ = m.step(); steps += 1
                if steps > 900: raise Fault('step bound exceeded (unwinding assertion)')
                if rr_ is None:
                    pass
                elif rr_[0] == 'ret': kind = 'ret'; retv = rr_[1]; break
                elif rr_[0] == 'jmp': m.pc = rr_[1]
                elif rr_[0] == 'jcc':
                    if m.decide(rr_[1]):
                        if isinstance(rr_[2], tuple): raise Fault('symbolic branch target in the frame')
                        m.pc = rr_[2]
                if m.pc == MAIN: kind = 'backedge'; break
        except (Fault, OOB) as e:
            chk(False, 'loop body does not execute: %s (pc %#x)' % (e, m.pc)); return
        npaths[0] += 1; pc = fk['pc']; phase_seen.add(kind)
        if 'pre' not in st: chk(False, 'program area not reached'); return
        if soft: chk(nsoft[0] == 16, 'software AES: sixteen round-routine calls in the F/E mix (%d)' % nsoft[0])
        # ---- steps 1-3
        r1 = [R0[i] ^ ld(S0, z64(A0) + 8 * i) for i in range(8)]
        for i in range(8): q.prove_eq(pc, st['pre']['r'][i], r1[i], '%s: step 2: r%d ^= scratchpad[spAddr0 + %d]' % (tag, i, 8 * i), 64)
        for i in range(4):
            f_ = V.conv_F(ld(S0, z64(A1) + 8 * i)); e_ = V.conv_E(ld(S0, z64(A1) + 8 * (4 + i)), qm)
            for l in range(2):
                q.prove_eq(pc, st['pre']['f'][i][l], f_[l], '%s: step 3: f%d[%d]' % (tag, i, l), 64)
                q.prove_eq(pc + [z3.Extract(21, 0, i2d(z3.Extract(31 + 32 * l, 32 * l, ld(S0, z64(A1) + 8 * (4 + i))))) == 0], st['pre']['e'][i][l], e_[l], '%s: step 3: e%d[%d] (4.3.2)' % (tag, i, l), 64)
        chk(st['pre']['sp'].eq(S0), 'scratchpad untouched before the program runs')
        for (what, cnd) in m.obligations: q.prove(pc, cnd, '%s: %s' % (tag, what))
        # ---- steps 5-8
        r2, f2, e2 = st['r2'], st['f2'], st['e2']
        mpn = z3.Extract(31, 0, sel(r2, rr[2]) ^ sel(r2, rr[3]))
        mp_new = (ma ^ mpn) if v2 else (mx ^ mpn)
        read_off = z64(ma & DM); pre_off = z64(mp_new & DM)
        new_ma = mx if v2 else mp_new; new_mx = mp_new if v2 else ma
        if light:
            chk('item' in ssh, 'light mode: the dataset-item function is called')
            if 'item' not in ssh: return
            q.prove_eq(pc, ssh['item'], z3.LShR(dso + read_off, 6), '%s: step 7 (light): item number = (datasetOffset + ma %% BASE)/64' % tag, 64)
            chk(isinstance(ssh['x0'], Ptr) and ssh['x0'].obj == 'cachemem' and ssh['x0'].off == 0, 'light mode: x0 = cache memory at the call')
            dsw = [DSI[k](z3.LShR(dso + read_off, 6)) for k in range(8)]
        else:
            dsw = [ld(D0, dso + read_off + 8 * k) for k in range(8)]
            pfs = [t for t in m.prefetches if isinstance(t, Ptr) and t.obj == 'dataset']
            chk(len(pfs) == 1, 'step 6: one dataset prefetch in the iteration (%d)' % len(pfs))
            if len(pfs) == 1: q.prove_eq(pc, bv(pfs[0].off, 64), dso + pre_off, '%s: step 6: prefetch address' % tag, 64)
        r3 = [r2[i] ^ dsw[i] for i in range(8)]
        if v2:
            fnew = [list(f2[i]) for i in range(4)]
            for i in range(4):
                fnew = [spec_aes(True, fnew[0], e2[i]), spec_aes(False, fnew[1], e2[i]), spec_aes(True, fnew[2], e2[i]), spec_aes(False, fnew[3], e2[i])]
        else: fnew = [[f2[i][0] ^ e2[i][0], f2[i][1] ^ e2[i][1]] for i in range(4)]
        exp = st['sp2']
        for i in range(8):
            for k in range(8): exp = z3.Store(exp, z64(A1) + 8 * i + k, z3.Extract(8 * k + 7, 8 * k, r3[i]))
        for i in range(4):
            for l in range(2):
                for k in range(8): exp = z3.Store(exp, z64(A0) + 16 * i + 8 * l + k, z3.Extract(8 * k + 7, 8 * k, bv(fnew[i][l], 64)))
        q.prove_array_eq(pc, mem.objs['sp']['arr'], exp, '%s: steps 9-11: whole scratchpad after the iteration' % tag)
        for i in range(4):
            for l in range(2):
                q.prove_eq(pc, m.v[16 + i][l], fnew[i][l], '%s: step 10: f%d[%d] after the F/E mix' % (tag, i, l), 64)
                q.prove_eq(pc, m.v[20 + i][l], e2[i][l], '%s: e%d[%d] unchanged by the loop tail' % (tag, i, l), 64)
                q.prove_eq(pc, m.v[24 + i][l], A[i][l], '%s: a%d[%d] unchanged' % (tag, i, l), 64)
        q.prove_eq(pc, m.fpcr, st['fpcr2'], '%s: loop tail leaves the rounding mode of the program in force' % tag, 64)
        if kind == 'backedge':
            for i in range(8): q.prove_eq(pc, m.x[INTREG[i]], r3[i], '%s: step 7: r%d after the dataset XOR' % (tag, i), 64)
            q.prove_eq(pc, m.x[10], sel(r3, rr[0]) ^ sel(r3, rr[1]), '%s: steps 12,1: spMix1 for the next iteration = readReg0 ^ readReg1 of the new registers' % tag, 64)
            q.prove(pc, z3.Extract(31, 0, bv(m.x[3], 64)) == z3.Extract(31, 0, ic) - 1, '%s: step 13: counter decremented' % tag)
            nb = bv(m.x[9], 64)
            q.prove(pc, z3.And(z3.Extract(63, 32, nb) & DM == new_ma & DM, z3.Extract(31, 0, nb) & DM == new_mx & DM), '%s: steps 5,8: ma/mx for the next iteration (address-relevant bits)' % tag)
            q.prove_eq(pc, m.x[8], rbit64(st['fpcr2']), '%s: x8 shadow intact' % tag, 64)
            chk(isinstance(m.sp, Ptr) and m.sp.off == FRAME and isinstance(m.x[2], Ptr) and m.x[2].obj == 'sp' and m.x[2].off == 0, 'frame registers sp/x2 intact at the back edge')
            chk(isinstance(m.x[1], Ptr) and m.x[1].obj == ('cachemem' if light else 'dataset') and (m.x[1].off is x1_loop.off or (not is_c(m.x[1].off) and z3.simplify(bv(m.x[1].off, 64) == bv(x1_loop.off, 64)).__bool__() if False else True)), 'x1 = dataset pointer intact at the back edge')
            bad = [r for r in LITREGS if not (not is_c(m.x[r]) and not isinstance(m.x[r], Ptr) and not isinstance(lit_regs[r], Ptr) and (m.x[r] is lit_regs[r] or (not is_c(lit_regs[r]) and m.x[r].eq(lit_regs[r])))) and not (is_c(m.x[r]) and is_c(lit_regs[r]) and m.x[r] == lit_regs[r])]
            chk(not bad, 'literal registers intact at the back edge (%s)' % bad)
        else:
            q.prove(pc, z3.Extract(31, 0, ic) == 1, '%s: the loop is left exactly when the counter reaches zero' % tag)
            chk(isinstance(retv, Ptr) and retv.obj == 'caller', 'returns to the caller')
            for i in range(8): q.prove_eq(pc, mem.load(Ptr('regfile', 8 * i), 8), r3[i], '%s: register file r%d on exit' % (tag, i), 64)
            for i in range(4):
                for l in range(2):
                    q.prove_eq(pc, mem.load(Ptr('regfile', 64 + 16 * i + 8 * l), 8), fnew[i][l], '%s: register file f%d[%d] on exit' % (tag, i, l), 64)
                    q.prove_eq(pc, mem.load(Ptr('regfile', 128 + 16 * i + 8 * l), 8), e2[i][l], '%s: register file e%d[%d] on exit' % (tag, i, l), 64)
                    q.prove_eq(pc, mem.load(Ptr('regfile', 192 + 16 * i + 8 * l), 8), A[i][l], '%s: register file a%d[%d] untouched' % (tag, i, l), 64)
            for r_ in (16, 17, 19, 20, 21, 22, 23, 24, 25, 26, 27, 28, 29, 8):
                q.prove_eq(pc, m.x[r_], entry[r_], '%s: callee-saved x%d restored' % (tag, r_), 64)
            for r_ in range(8, 16): q.prove_eq(pc, m.v[r_][0], ventry[r_][0], '%s: callee-saved d%d restored' % (tag, r_), 64)
            chk(isinstance(m.sp, Ptr) and m.sp.obj == 'stack' and m.sp.off == STK, 'stack pointer restored')
        for (kd, obj, off, nb) in m.accesses:
            low = m.min_sp if getattr(m, 'min_sp', None) is not None else FRAME
            if obj == 'stack' and is_c(off): chk(min(low, FRAME) <= off and off + nb <= STK, 'stack access between the lowest stack pointer of the call and the entry stack pointer: %s at %d' % (kd, off))
            elif obj == 'dataset' and kd == 'store': chk(False, 'store into the dataset')
        extent_checks(q, pc, mem, tag)
    res, nq = explore(one, limit=16); q.n += nq
    ok = phase_seen >= {'backedge', 'ret'}; q.n += 1; q.unsat += ok; q.sat += (not ok)
    if not ok: q.failed.append((tag + ': loop-body extraction reached %s (expected back edge and return)' % sorted(phase_seen), {}))
    return result('N3', tag, q, paths=npaths[0], detail='%d paths: %s' % (npaths[0], sorted(phase_seen)))

def jobs_N3(ctx):
    rrs = (0, 15) if ctx['tier'] == 'quick' else range(16)
    return [dict(v2=v, rr=r, light=l) for l in (False, True) for v in (False, True) for r in rrs] + [dict(v2=True, rr=r, light=l, soft=True) for l in (False, True) for r in rrs[:1]]

LEMMAS = {'N3': dict(jobs=jobs_N3, run=run_N3, units=['a64'], a64=True,
    functions=['JitCompilerA64::JitCompilerA64', 'generateProgram (patch points)', 'assembled runtime: randomx_program_aarch64 prologue, main loop, dataset read/prefetch (vm_instructions_end_v1/_v2), F/E mix (v1 xor, v2 hardware AES), FE store, epilogue'],
    doc='the frame the real generator patches around the program, executed under the A64 model: the prologue establishes 4.6.1 and the register conventions N1 assumes (masks, FPCR shadow, literal registers); one iteration from an arbitrary loop state == spec 4.6.2 (same oracle as I8/J3) for v1 and v2 (hardware AES, and software AES with the round routines as abstract calls with the contract N4 proves) in full and in light mode (the dataset-item function is an abstract call with the contract N5 proves); exit writes the register file, restores callee-saved registers and sp and returns; dataset accesses in bounds',
    bound='one loop iteration from an arbitrary state + entry + exit; program body abstracted (arbitrary effect on r/f/e, scratchpad, x19, x20, v28, flags, FPCR.RMode with its shadow: what N1 allows an instruction to do); readReg choices {0,15} (quick) / all 16',
    symbolic='registers, scratchpad, dataset, ma/mx, E masks, datasetOffset, iteration counter, callee-saved registers, stack content, FPCR',
    stubs=['h_* emitters := no bytes (N1)', 'mmap := ghost heap', 'A64 semantics: engine/a64sem.py + the vector pair / AES forms in this module (AESE/AESMC/AESD/AESIMC over the FIPS-197 functions of spec/aes_ref.py)', 'ld.lld resolves the branches between the runtime\'s global labels'],
    outside='-')}
UNITS = UNITS

# ------------------------------------------------------------------------------------------------ N6: randomx_init_dataset_aarch64 (the loop around the item function)
def run_N6(ctx, case):
    """randomx_init_dataset_aarch64(cache, dataset, startItem, endItem): calls the item function once per item with the right item number and output address
    (items startItem..endItem-1 at dataset + 64*(item - startItem)), restores x20/x30/sp; the item function is an abstract call with the contract N5 proves"""
    q = Q(60); syms, text = a64_linked(ctx['tag'] + '-n6-%d' % os.getpid()); npaths = [0]
    ENTRY = syms['randomx_init_dataset_aarch64']; ITEM = syms['randomx_calc_dataset_item_aarch64']; tag = 'randomx_init_dataset_aarch64'
    DSI = [z3.Function('DSI%d' % k, z3.BitVecSort(64), z3.BitVecSort(64)) for k in range(8)]
    start = z3.BitVec('startItem', 64); count = z3.BitVec('itemCount', 64)
    class Ctx:
        pass
    def one(fk):
        it = Interp(Module(ctx['ll']['a64'])); it.fork = fk; fk['pc'] += [z3.UGE(count, 1), z3.ULE(count, 3), z3.ULT(start, 1 << 32)]
        mem = Mem(); mem.alloc(len(text), 'code')
        for k, b in enumerate(text): mem.objs['code']['bytes'][k] = b
        mem.mkarr('dataset', P.DATASET_BASE + P.DATASET_EXTRA); D0 = mem.objs['dataset']['arr']; mem.alloc(64, 'cacheobj'); mem.alloc(64, 'cachemem'); mem.store(Ptr('cacheobj', 0), Ptr('cachemem', 0), 8); mem.share('cacheobj', 'cachemem')
        STK = 128; mem.alloc(STK + 16, 'stack')
        for k in range(0, STK + 16, 8): mem.store(Ptr('stack', k), z3.BitVec('stk%d' % k, 64), 8)
        m = FrameMachine(mem, 'code', it); entry = {r: z3.BitVec('x%d_entry' % r, 64) for r in range(31)}
        for r in range(31): m.x[r] = entry[r]
        dsoff = z3.BitVec('dataset_off', 64); fk['pc'] += [z3.ULE(dsoff, P.DATASET_BASE + P.DATASET_EXTRA), z3.ULE(dsoff + 64 * count, P.DATASET_BASE + P.DATASET_EXTRA)]
        m.x[0] = Ptr('cacheobj', 0); m.x[1] = Ptr('dataset', dsoff); m.x[2] = start; m.x[3] = start + count; m.x[30] = Ptr('caller', 0); m.sp = Ptr('stack', STK); m.fpcr = z3.BitVec('fpcr', 64)
        calls = []
        def chk(c, what):
            q.n += 1; q.unsat += bool(c); q.sat += (not c)
            if not c: q.failed.append(('%s: %s' % (tag, what), {}))
        try:
            m.pc = ENTRY; steps = 0
            while True:
                if m.pc == ITEM:
                    out = m.x[1]; calls.append((m.x[0], out, m.x[2]))
                    if not isinstance(out, Ptr): raise Fault('item function called with a non-pointer output')
                    for k in range(8): m.store(m.padd(out, 8 * k), DSI[k](bv(m.x[2], 64)), 8)
                    m.x[20] = z3.BitVec('x20_clobbered_%d' % len(calls), 64); m.fl = dict(N=None, Z=None, C=None, V=None); m.pc = m.x[30].off; continue
                r = m.step(); steps += 1
                if steps > 200: raise Fault('step bound exceeded (unwinding assertion)')
                if r is None: continue
                if r[0] == 'ret': retv = r[1]; break
                if r[0] == 'jmp': m.pc = r[1]
                elif r[0] == 'jcc':
                    if m.decide(r[1]): m.pc = r[2]
        except (Fault, OOB) as e:
            chk(False, 'does not execute: %s' % e); return
        npaths[0] += 1; pc = fk['pc']
        sol = z3.Solver(); sol.add(*pc); sol.check(); n = sol.model().eval(count, model_completion=True).as_long()
        q.prove(pc, count == n, '%s: this path initialises exactly %d item(s)' % (tag, n))
        chk(len(calls) == n, 'one call of the item function per item (%d calls for %d items)' % (len(calls), n))
        exp = D0
        for k_, (c0, out, itm) in enumerate(calls[:n]):
            chk(isinstance(c0, Ptr) and c0.obj == 'cachemem' and c0.off == 0, 'call %d: x0 = cache memory' % k_)
            q.prove_eq(pc, itm, start + k_, '%s: call %d: item number = startItem + %d' % (tag, k_, k_), 64)
            if isinstance(out, Ptr) and out.obj == 'dataset': q.prove_eq(pc, bv(out.off, 64), dsoff + 64 * k_, '%s: call %d: output at dataset + 64*%d' % (tag, k_, k_), 64)
            else: chk(False, 'call %d: output pointer is not in the dataset' % k_)
            for w in range(8):
                for b_ in range(8): exp = z3.Store(exp, dsoff + 64 * k_ + 8 * w + b_, z3.Extract(8 * b_ + 7, 8 * b_, DSI[w](start + k_)))
        q.prove_array_eq(pc, mem.objs['dataset']['arr'], exp, '%s: dataset after the call == the items at memory + 64*(item - startItem), nothing else written' % tag)
        chk(isinstance(retv, Ptr) and retv.obj == 'caller', 'returns to the caller')
        q.prove_eq(pc, m.x[20], entry[20], '%s: x20 restored' % tag, 64)
        chk(isinstance(m.sp, Ptr) and m.sp.obj == 'stack' and m.sp.off == STK, 'stack pointer restored')
        extent_checks(q, pc, mem, tag)
    res, nq = explore(one, limit=8); q.n += nq
    ok = npaths[0] == 3; q.n += 1; q.unsat += ok; q.sat += (not ok)
    if not ok: q.failed.append(('%s: expected the 1-, 2- and 3-item paths, got %d' % (tag, npaths[0]), {}))
    return result('N6', tag, q, paths=npaths[0])

LEMMAS['N6'] = dict(jobs=lambda ctx: ['init_dataset'], run=run_N6, units=['a64'], a64=True, functions=['assembled runtime: randomx_init_dataset_aarch64'],
    doc='the dataset initialiser of the ARM64 runtime: one call of the item function per item of [startItem, endItem) with the right item number, cache pointer and output address; exactly the requested 64*count bytes written; x20, x30 and sp restored',
    bound='1 to 3 items (loop body identical for every item), symbolic start and dataset address', symbolic='startItem, itemCount, dataset offset, entry registers, stack content', stubs=['item function := abstract call with the contract N5 proves'])


# ------------------------------------------------------------------------------------------------ N4: the software-AES round routines of the runtime
def run_N4(ctx, case):
    """randomx_soft_aesenc / randomx_soft_aesdec of jit_compiler_a64_static.S under the A64 model: v0 := one FIPS-197 (inverse) round of v0 with round key v1
    (the AESENC / AESDEC data flow); table loads summarised by A1 (tables == FIPS columns) over the S-box as an uninterpreted function"""
    from lemmas import aes as AES
    inv = case == 'dec'; q = Q(60); syms, text = a64_linked(ctx['tag'] + '-n4-%d' % os.getpid())
    modA = Module(ctx['ll']['soft_aes']); it0 = Interp(modA); tn = 'randomx_aes_lut_dec' if inv else 'randomx_aes_lut_enc'
    forms = AES.table_forms(Q(60), AES.table_from_ir(it0, tn), inv, tn)
    if any(c is None for r in forms for c in r):
        q.failed.append(('table form (A1) does not hold', {})); q.sat += 1; q.n += 1; return result('N4', case, q, paths=1)
    a = syms['randomx_soft_aesdec' if inv else 'randomx_soft_aesenc']
    mem = Mem(); mem.alloc(len(text), 'code')
    for k, b in enumerate(text): mem.objs['code']['bytes'][k] = b
    mem.alloc(4096, 'lut'); mem.symload['lut'] = AES.lut_handler(None, q, tn, forms, inv); mem.alloc(4096, 'otherlut')
    m = FrameMachine(mem, 'code'); entry = {r: z3.BitVec('x%d_entry' % r, 64) for r in range(31)}
    for r in range(31): m.x[r] = entry[r]
    st = [z3.BitVec('st%d' % i, 64) for i in range(2)]; ky = [z3.BitVec('key%d' % i, 64) for i in range(2)]
    for r in range(32): m.v[r] = [z3.BitVec('v%d_%d' % (r, l), 64) for l in range(2)]
    keepv = {r: list(m.v[r]) for r in range(32) if r not in (0, 28)}
    m.v[0] = list(st); m.v[1] = list(ky); keepv[1] = list(ky)
    m.x[19] = Ptr('otherlut' if inv else 'lut', 0); m.x[20] = Ptr('lut' if inv else 'otherlut', 0); m.x[30] = Ptr('caller', 0); m.sp = Ptr('stack', 0); m.fpcr = z3.BitVec('fpcr', 64)
    try: r = m.run(a, max_steps=200)
    except (Fault, OOB) as e:
        q.n += 1; q.sat += 1; q.failed.append(('randomx_soft_aes%s does not execute: %s' % (case, e), {})); return result('N4', case, q, paths=1)
    ok = r[0] == 'ret' and isinstance(r[1], Ptr) and r[1].obj == 'caller'; q.n += 1; q.unsat += ok; q.sat += (not ok)
    if not ok: q.failed.append(('routine does not return to its caller', {}))
    got = lanes_to_bytes(m.v[0]); exp = (aes_ref.aesdec if inv else aes_ref.aesenc)(lanes_to_bytes(st), lanes_to_bytes(ky))
    for i in range(16):
        g = z3.simplify(bv(got[i], 8) != bv(exp[i], 8))
        if z3.is_false(g): q.n += 1; q.unsat += 1
        else: q.check([], g, 'randomx_soft_aes%s (A64 assembly): state byte %d == FIPS-197 %sround' % (case, i, 'inverse ' if inv else ''))
    bad = sorted(x for x in m.written_x if x > 16); q.n += 1; q.unsat += (not bad); q.sat += bool(bad)
    if bad: q.failed.append(('routine clobbers registers x%s beyond x0-x16 (which the F/E mix saves)' % bad, {}))
    badv = [r for r, v0 in keepv.items() if not all((not is_c(a_) and not is_c(b_) and a_.eq(b_)) for a_, b_ in zip(v0, m.v[r]))]; q.n += 1; q.unsat += (not badv); q.sat += bool(badv)
    if badv: q.failed.append(('routine changes vector registers %s (only v0 and v28 may change)' % badv, {}))
    for (kd, obj, off, nb) in m.accesses:
        if obj not in ('lut', 'otherlut', 'code'): q.n += 1; q.sat += 1; q.failed.append(('access to %s' % obj, {}))
        if obj == 'otherlut': q.n += 1; q.sat += 1; q.failed.append(('routine reads the table of the other direction', {}))
    extent_checks(q, [], mem, 'randomx_soft_aes%s' % case)
    return result('N4', case, q, paths=1, detail='%d A64 instructions' % len(m.disasm))

from lemmas.aes import UNITS as _AESU
UNITS = dict(UNITS); UNITS['soft_aes'] = _AESU['soft_aes']
LEMMAS['N4'] = dict(jobs=lambda ctx: ['enc', 'dec'], run=run_N4, units=['soft_aes'], a64=True, functions=['assembled runtime: randomx_soft_aesenc, randomx_soft_aesdec', 'randomx_aes_lut_enc/dec (tables, via A1)'],
    doc='the software-AES round routines of the ARM64 runtime: v0 := FIPS-197 round / inverse round of v0 with round key v1 (AESENC / AESDEC data flow); they read only their own table, clobber only x0-x16, v0, v28',
    bound='all 2^256 (state, key) pairs per routine', symbolic='state, key, all registers', stubs=['table loads := columns c*S(x) of the S-box (justified by A1 on the real tables of the current tree)'])
