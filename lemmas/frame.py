# J3: the JIT loop frame (hand-written templates stitched by the real generateProgram / generateProgramLight) under x86sem vs spec 4.6;
# J4: code-buffer budget.  (C04 C01 C06)
import z3, time, re, os
from lemmas.common import *
from lemmas.isa import flag_v2, max_program_size
from lemmas import life
from engine.irsym import Module, Interp, Ptr, is_c, bv, resolve, NamedT, explore, OOB, i2d, Unsupported, Thrown
from engine import build, cxxlib, x86sem
from engine.x86sem import Machine, Undecodable, Fault
from spec import params as P, vm_ref as V

UNITS = {'jitlib': dict(link=[dict(src='src/jit_compiler_x86.cpp', inline=False), dict(src='src/virtual_memory.c', inline=False)])}
AENC = x86sem.AESENC; ADEC = x86sem.AESDEC
DSI = [z3.Function('item_word%d' % k, z3.BitVecSort(64), z3.BitVecSort(64)) for k in range(8)]
def v128(x): return z3.Concat(bv(x[1], 64), bv(x[0], 64))

def flagbits():
    return life.flagvals()

def make_code(ctx, mod, it, light, v2, hard, S):
    """real JitCompilerX86 ctor + generateProgram[Light] with the per-instruction generator stubbed out (J1 covers it); returns layout info"""
    F = flagbits(); H = life.Heap(it, fail=False); cxxlib.install(it, H); life.bind_templates(it, ctx); life.run_ctors(it, mod)
    tj = resolve(NamedT('class.randomx::JitCompilerX86', mod)); oj = tj.layout()[0]
    J = it.mem.alloc(tj.size(), 'J')
    it.call('_ZN7randomx14JitCompilerX86C2Ev', [J])
    code = it.mem.load(Ptr('J', oj[2]), 8)
    flags = (F['V2'] if v2 else 0) | (F['HARD_AES'] if hard else 0) | F['JIT'] | (0 if light else F['FULL_MEM'])
    it.mem.store(Ptr('J', oj[4]), flags, 4)
    gen = []
    it.hooks['_ZN7randomx14JitCompilerX8612generateCodeERNS_11InstructionEi'] = lambda s, a: gen.append(s.mem.load(Ptr('J', oj[3]), 4)) and None
    prog = it.mem.alloc(128 + 8 * 512, 'prog')
    pcfg = it.mem.alloc(32, 'pcfg')
    for l in range(2): it.mem.store(Ptr('pcfg', 8 * l), V.emask_of(S['q'][l]), 8)
    for k in range(4): it.mem.store(Ptr('pcfg', 16 + 4 * k), S['rr'][k], 4)
    if light: it.call('_ZN7randomx14JitCompilerX8620generateProgramLightERNS_7ProgramERNS_20ProgramConfigurationEj', [J, prog, pcfg, S['dso32']])
    else: it.call('_ZN7randomx14JitCompilerX8615generateProgramERNS_7ProgramERNS_20ProgramConfigurationE', [J, prog, pcfg])
    end = it.mem.load(Ptr('J', oj[3]), 4)
    return dict(code=code.obj, size=H.live[code.obj][1], prog_at=gen[0] if gen else None, ngen=len(gen), end=end, heap=H, same_pos=len(set(gen)) <= 1)

def run_J3(ctx, case):
    light, v2, hard = case['light'], case['v2'], case['hard']; q = Q(120); mod = Module(ctx['ll']['jitlib']); npaths = [0]; F = flagbits()
    syms = ctx['asm']['syms']; tag = 'JIT frame %s %s %s-AES' % ('light' if light else 'full', 'v2' if v2 else 'v1', 'hard' if hard else 'soft')
    rr = [z3.BitVecVal(2 * i + ((case['rr'] >> i) & 1), 32) for i in range(4)]; qm = [z3.BitVec('q%d' % (14 + i), 64) for i in range(2)]      # address-register choice: structural (it selects ModRM bytes), one job per choice
    S = dict(q=qm, rr=rr, dso32=z3.BitVec('datasetOffset32', 32))
    dso = z3.ZeroExt(32, S['dso32']); base_pc = [z3.ULE(dso, P.DATASET_EXTRA), dso & 63 == 0]
    tag += ' readReg=%s' % [2 * i + ((case['rr'] >> i) & 1) for i in range(4)]
    if not light: dso = z3.BitVec('datasetOffset', 64); base_pc += [z3.ULE(dso, P.DATASET_EXTRA), dso & 63 == 0]
    L3M = P.MASK_L3_64; DM = (P.DATASET_BASE - 1) & ~63
    sel = lambda regs, idx: V.mux(idx, regs); z64 = lambda v: z3.ZeroExt(32, v)
    ld = lambda arr, off: z3.Concat(*[z3.Select(arr, off + k) for k in reversed(range(8))])
    phase_seen = set()
    def one(fk):
        it = Interp(mod); it.fork = fk; fk['pc'] += base_pc
        info = make_code(ctx, mod, it, light, v2, hard, S)
        exp_n = 384 if v2 else 256
        def chk(c, what):
            q.n += 1; q.unsat += bool(c); q.sat += (not c)
            if not c: q.failed.append(('%s: %s' % (tag, what), {}))
        chk(info['ngen'] == (max_program_size() if v2 else P.P['RANDOMX_PROGRAM_SIZE']), 'generateCode called for %d instructions (program size of this version)' % info['ngen'])
        PROG = info['prog_at']; END = info['end']; CODE = info['code']
        prologue_end = syms['randomx_program_loop_begin'] - syms['randomx_program_prologue']
        HEADER = prologue_end                                   # code + prologueSize: the jnz target = start of the loop-load template copy
        mem = it.mem
        mem.mkarr('sp', P.L3); S0 = mem.objs['sp']['arr']
        if light: mem.alloc(64, 'cachemem')
        else: mem.mkarr('dataset', P.DATASET_BASE + P.DATASET_EXTRA); D0 = mem.objs['dataset']['arr']
        mem.share('dataset', 'cachemem')
        mem.alloc(256, 'regfile'); A = [[z3.BitVec('a%d_%d' % (i, l), 64) for l in range(2)] for i in range(4)]
        for k in range(0, 192, 8): mem.store(Ptr('regfile', k), z3.BitVec('rf_stale%d' % k, 64), 8)
        for i in range(4):
            for l in range(2): mem.store(Ptr('regfile', 192 + 16 * i + 8 * l), A[i][l], 8)
        mx0, ma0 = z3.BitVecs('mx_entry ma_entry', 32)
        mem.alloc(16, 'memregs'); mem.store(Ptr('memregs', 0), mx0, 4); mem.store(Ptr('memregs', 4), ma0, 4)
        mem.store(Ptr('memregs', 8), Ptr('cachemem', 0) if light else Ptr('dataset', dso), 8)      # compiled VM: mem.memory = dataset + datasetOffset (vm_compiled.cpp); light: cache memory
        STK = 1032; mem.alloc(STK + 64, 'stack')          # System V ABI: rsp = 8 (mod 16) at function entry
        for k in range(0, STK + 64, 8): mem.store(Ptr('stack', k), z3.BitVec('stk%d' % k, 64), 8)
        mem.store(Ptr('stack', STK), Ptr('caller', 0), 8)
        m = Machine(mem, CODE, it)
        saved = {r: z3.BitVec('callee_saved_%d' % r, 64) for r in (3, 5, 12, 13, 14, 15)}
        for r in range(16): m.gpr[r] = z3.BitVec('g%d_entry' % r, 64)
        for r, v in saved.items(): m.gpr[r] = v
        iters = z3.BitVec('iterations', 64); fk['pc'] += [iters >= 1, iters < (1 << 31)]
        m.gpr[7] = Ptr('regfile', 0); m.gpr[6] = Ptr('memregs', 0); m.gpr[2] = Ptr('sp', 0); m.gpr[1] = iters; m.gpr[4] = Ptr('stack', STK)
        for x in range(16): m.xmm[x] = [z3.BitVec('xmm%d_%d_entry' % (x, l), 64) for l in range(2)]
        mx_entry_csr = z3.BitVec('mxcsr_entry', 32); m.mxcsr = mx_entry_csr
        # ---------------- phase 1: prologue -> loop header (4.6.1)
        try:
            r = m.run(0, stop={HEADER}, max_steps=400)
        except (Fault, OOB) as e:      # Undecodable = limitation of the x86 model: propagates, the job is INCONCLUSIVE (never a violation)
            chk(False, 'prologue does not execute: %s' % e); return
        chk(r == ('stop', HEADER), 'prologue reaches the loop header (got %s)' % (r,))
        pc = fk['pc']
        for k in range(8): q.prove_eq(pc, m.gpr[8 + k], 0, '%s: 4.6.1: r%d = 0 at loop entry' % (tag, k), 64)
        for i in range(4):
            for l in range(2): q.prove_eq(pc, m.xmm[8 + i][l], A[i][l], '%s: group A register a%d[%d] loaded from the register file' % (tag, i, l), 64)
        q.prove_eq(pc, trunc32(m.gpr[0]), mx0 & L3M, '%s: 4.6.1: spAddr0 = mx (masked)' % tag, 32)
        q.prove_eq(pc, trunc32(m.gpr[2]), ma0 & L3M, '%s: 4.6.1: spAddr1 = ma (masked)' % tag, 32)
        q.prove(pc, z3.And(bv(m.xmm[13][0], 64) == (1 << 56) - 1, bv(m.xmm[13][1], 64) == (1 << 56) - 1), '%s: xmm13 = E and-mask' % tag)
        q.prove(pc, z3.And(bv(m.xmm[14][0], 64) == V.emask_of(qm[0]), bv(m.xmm[14][1], 64) == V.emask_of(qm[1])), '%s: xmm14 = E or-mask of this program (eMask patched into the code)' % tag)
        q.prove(pc, z3.And(bv(m.xmm[15][0], 64) == 0x80F0000000000000, bv(m.xmm[15][1], 64) == 0x80F0000000000000), '%s: xmm15 = FSCAL mask' % tag)
        q.prove_eq(pc, m.gpr[3], iters, '%s: rbx = iteration count' % tag, 64)
        chk(isinstance(m.gpr[6], Ptr) and m.gpr[6].obj == 'sp' and m.gpr[6].off == 0, 'rsi = scratchpad')
        chk(isinstance(m.gpr[4], Ptr) and m.gpr[4].obj == 'stack' and is_c(m.gpr[4].off) and m.gpr[4].off < STK and m.gpr[4].off % 16 == 0, 'rsp = 16-byte aligned frame base below the return address')
        q.prove_eq(pc, m.mxcsr, mx_entry_csr, '%s: prologue leaves MXCSR alone' % tag, 32)
        FRAME = m.gpr[4].off if isinstance(m.gpr[4], Ptr) else STK - 456
        # ---------------- phase 2: one iteration from an arbitrary loop state (4.6.2), then back edge or exit
        R0 = [z3.BitVec('r%d' % i, 64) for i in range(8)]; ma, mx = z3.BitVecs('ma mx', 32); ic = z3.BitVec('ic', 64)
        fk['pc'] += [ic >= 1, ic < (1 << 31)]
        for k in range(8): m.gpr[8 + k] = R0[k]
        mix = sel(R0, rr[0]) ^ sel(R0, rr[1])
        A0 = z3.Extract(31, 0, mix) & L3M; A1 = z3.Extract(63, 32, mix) & L3M          # loop invariant of the JIT frame: eax/edx hold the masked address mix (spAddr = 0 after step 12)
        m.gpr[0] = z64(A0); m.gpr[2] = z64(A1); m.gpr[3] = ic; m.gpr[1] = z3.BitVec('rcx_h', 64)
        hdr_rbp = z3.Concat(mx, ma); m.gpr[5] = hdr_rbp           # frame invariant (established by the prologue: checked below): ebp = ma, upper half = mx
        for x in range(8): m.xmm[x] = [z3.BitVec('xmm%d_%d_h' % (x, l), 64) for l in range(2)]
        m.xmm[12] = [z3.BitVec('xmm12_%d_h' % l, 64) for l in range(2)]
        st = {}
        def program(mach):
            st['pre'] = dict(r=[mach.gpr[8 + k] for k in range(8)], f=[list(mach.xmm[k]) for k in range(4)], e=[list(mach.xmm[4 + k]) for k in range(4)], sp=mach.mem.objs['sp']['arr'],
                             rax=mach.gpr[0], frame=(mach.gpr[4], mach.gpr[6]), slots=[mach.mem.load(Ptr('stack', FRAME + 8), 8), mach.mem.load(Ptr('stack', FRAME + 16), 8)])
            st['r2'] = [z3.BitVec('r2_%d' % i, 64) for i in range(8)]
            st['f2'] = [[z3.BitVec('f2_%d_%d' % (i, l), 64) for l in range(2)] for i in range(4)]; st['e2'] = [[z3.BitVec('e2_%d_%d' % (i, l), 64) for l in range(2)] for i in range(4)]
            for k in range(8): mach.gpr[8 + k] = st['r2'][k]
            for k in range(4): mach.xmm[k] = list(st['f2'][k]); mach.xmm[4 + k] = list(st['e2'][k])
            mach.mem.objs['sp']['arr'] = z3.Array('sp_after_program', z3.BitVecSort(64), z3.BitVecSort(8)); st['sp2'] = mach.mem.objs['sp']['arr']
            for r_ in (0, 1, 2): mach.gpr[r_] = z3.BitVec('scratch%d_after_program' % r_, 64)       # J1: an instruction may clobber rax, rcx, rdx, xmm12 and [rsp,rsp+8)
            mach.xmm[12] = [z3.BitVec('xmm12_%d_p' % l, 64) for l in range(2)]
            mach.mem.store(Ptr('stack', FRAME), z3.BitVec('mxcsr_slot', 64), 8); mach.mxcsr = z3.BitVec('mxcsr_after_program', 32); st['mxcsr2'] = mach.mxcsr
            del mach.call_hooks[PROG]
        m.call_hooks[PROG] = program
        ssh = {}
        if light:
            def sshash(mach):       # SuperscalarHash routine (J5): item number in rbx, cache in rdi -> item words in r8-r15; clobbers rax, rbx, rdx
                ssh['item'] = mach.gpr[3]; ssh['rdi'] = mach.gpr[7]
                for k in range(8): mach.gpr[8 + k] = DSI[k](bv(mach.gpr[3], 64))
                for r_ in (0, 2, 3): mach.gpr[r_] = z3.BitVec('clobbered%d_by_sshash' % r_, 64)
                mach.undef_flags()
                sp_ = mach.rd(4); ra = mach.load(sp_, 8); mach.wr(4, mach.padd(sp_, 8)); mach.rip = ra.off
            m.call_hooks[syms_ssh(ctx, it, mod)] = sshash
        if v2 and not hard:
            base = END   # soft-AES routines are appended after the program (generateProgramEpilogue): enc first, then dec
        hooks_soft = {}
        if v2 and not hard:
            enc_off = None
        m.align_checks = []; del m.accesses[:]; m.trace = []
        try:
            r = run_iteration(m, HEADER, ctx, info, v2, hard)
        except (Fault, OOB) as e:      # Undecodable = limitation of the x86 model: propagates, the job is INCONCLUSIVE (never a violation)
            chk(False, 'loop body does not execute: %s' % e); return
        npaths[0] += 1; pc = fk['pc']; kind = r[0]; phase_seen.add(kind)
        if 'pre' not in st: chk(False, 'program area not reached'); return
        # ---- steps 1-3
        r1 = [R0[i] ^ ld(S0, z64(A0) + 8 * i) for i in range(8)]
        for i in range(8): q.prove_eq(pc, st['pre']['r'][i], r1[i], '%s: step 2: r%d ^= scratchpad[spAddr0 + %d]' % (tag, i, 8 * i), 64)
        for i in range(4):
            f_ = V.conv_F(ld(S0, z64(A1) + 8 * i)); e_ = V.conv_E(ld(S0, z64(A1) + 8 * (4 + i)), qm)
            for l in range(2):
                q.prove_eq(pc, st['pre']['f'][i][l], f_[l], '%s: step 3: f%d[%d]' % (tag, i, l), 64)
                q.prove_eq(pc + [z3.Extract(21, 0, i2d(z3.Extract(31 + 32 * l, 32 * l, ld(S0, z64(A1) + 8 * (4 + i))))) == 0], st['pre']['e'][i][l], e_[l], '%s: step 3: e%d[%d] (4.3.2)' % (tag, i, l), 64)
        chk(st['pre']['sp'].eq(S0), 'scratchpad untouched before the program runs')
        # ---- steps 5-8
        r2, f2, e2 = st['r2'], st['f2'], st['e2']
        mpn = z3.Extract(31, 0, sel(r2, rr[2]) ^ sel(r2, rr[3]))
        mp_new = (ma ^ mpn) if v2 else (mx ^ mpn)
        read_off = z64(ma & DM); pre_off = z64(mp_new & DM)
        new_ma = mx if v2 else mp_new; new_mx = mp_new if v2 else ma
        if light:
            chk('item' in ssh, 'light mode: SuperscalarHash routine called')
            if 'item' in ssh:
                q.prove_eq(pc, ssh['item'], z3.LShR(dso + read_off, 6), '%s: step 7 (light): item number = (datasetOffset + ma %% BASE)/64' % tag, 64)
                chk(isinstance(ssh['rdi'], Ptr) and ssh['rdi'].obj == 'cachemem' and ssh['rdi'].off == 0, 'light mode: rdi = cache memory at the call')
                dsw = [DSI[k](z3.LShR(dso + read_off, 6)) for k in range(8)]
            else: return
        else:
            dsw = [ld(D0, dso + read_off + 8 * k) for k in range(8)]
            pfs = [t for t in m.trace if t[0] == 'prefetch' and isinstance(t[1], Ptr) and t[1].obj == 'dataset']
            chk(len(pfs) == 1, 'step 6: one dataset prefetch in the iteration')
            if len(pfs) == 1: q.prove_eq(pc, bv(pfs[0][1].off, 64), dso + pre_off, '%s: step 6: prefetch address' % tag, 64)
        r3 = [r2[i] ^ dsw[i] for i in range(8)]
        def mixfe():
            f1 = [v128(f2[i]) for i in range(4)]
            for i in range(4):
                k = v128(e2[i]); f1 = [AENC(f1[0], k), ADEC(f1[1], k), AENC(f1[2], k), ADEC(f1[3], k)]
            return f1
        fnew = mixfe() if v2 else [v128([f2[i][0] ^ e2[i][0], f2[i][1] ^ e2[i][1]]) for i in range(4)]
        exp = st['sp2']
        for i in range(8):
            for k in range(8): exp = z3.Store(exp, z64(A1) + 8 * i + k, z3.Extract(8 * k + 7, 8 * k, r3[i]))
        for i in range(4):
            for k in range(16): exp = z3.Store(exp, z64(A0) + 16 * i + k, z3.Extract(8 * k + 7, 8 * k, fnew[i]))
        q.prove_array_eq(pc, m.mem.objs['sp']['arr'], exp, '%s: steps 9-11: whole scratchpad after the iteration' % tag)
        for i in range(4): q.prove_eq(pc, v128(m.xmm[i]), fnew[i], '%s: step 10: f%d after the F/E mix' % (tag, i), 128)
        for i in range(4): q.prove_eq(pc, v128(m.xmm[4 + i]), v128(e2[i]), '%s: e%d unchanged by the loop tail' % (tag, i), 128)
        q.prove_eq(pc, m.mxcsr, st['mxcsr2'], '%s: loop tail leaves the rounding mode of the program in force' % tag, 32)
        if kind == 'backedge':
            for i in range(8): q.prove_eq(pc, m.gpr[8 + i], r3[i], '%s: step 7: r%d after the dataset XOR' % (tag, i), 64)
            nmix = sel(r3, rr[0]) ^ sel(r3, rr[1])
            q.prove_eq(pc, trunc32(m.gpr[0]), z3.Extract(31, 0, nmix) & L3M, '%s: steps 12,1: next spAddr0 = low mix of the new registers, masked' % tag, 32)
            q.prove_eq(pc, trunc32(m.gpr[2]), z3.Extract(63, 32, nmix) & L3M, '%s: steps 12,1: next spAddr1' % tag, 32)
            q.prove(pc, z3.Extract(31, 0, bv(m.gpr[3], 64)) == z3.Extract(31, 0, ic) - 1, '%s: step 13: counter decremented' % tag)
            nb = bv(m.gpr[5], 64)
            q.prove(pc, z3.And(z3.Extract(31, 0, nb) & DM == new_ma & DM, z3.Extract(63, 32, nb) & DM == new_mx & DM), '%s: steps 5,8: ma/mx for the next iteration (address-relevant bits)' % tag)
            chk(isinstance(m.gpr[4], Ptr) and m.gpr[4].off == FRAME and isinstance(m.gpr[6], Ptr) and m.gpr[6].obj == 'sp' and m.gpr[6].off == 0, 'frame registers rsp/rsi intact at the back edge')
            chk(isinstance(m.gpr[7], Ptr) and m.gpr[7].obj == ('cachemem' if light else 'dataset'), 'rdi = dataset/cache pointer intact at the back edge')
        else:
            q.prove(pc, z3.Extract(31, 0, ic) == 1, '%s: the loop is left exactly when the counter reaches zero' % tag)
            chk(kind == 'ret' and isinstance(r[1], Ptr) and r[1].obj == 'caller', 'returns to the caller')
            for i in range(8): q.prove_eq(pc, mem.load(Ptr('regfile', 8 * i), 8), r3[i], '%s: register file r%d on exit' % (tag, i), 64)
            for i in range(4):
                q.prove_eq(pc, v128([mem.load(Ptr('regfile', 64 + 16 * i + 8 * l), 8) for l in range(2)]), fnew[i], '%s: register file f%d on exit' % (tag, i), 128)
                q.prove_eq(pc, v128([mem.load(Ptr('regfile', 128 + 16 * i + 8 * l), 8) for l in range(2)]), v128(e2[i]), '%s: register file e%d on exit' % (tag, i), 128)
                q.prove_eq(pc, v128([mem.load(Ptr('regfile', 192 + 16 * i + 8 * l), 8) for l in range(2)]), v128(A[i]), '%s: register file a%d untouched' % (tag, i), 128)
            for r_, v in saved.items(): q.prove_eq(pc, m.gpr[r_], v, '%s: callee-saved register %d restored' % (tag, r_), 64)
            chk(isinstance(m.gpr[4], Ptr) and m.gpr[4].obj == 'stack' and m.gpr[4].off == STK + 8, 'stack pointer restored')
        for (kd, obj, off, nb) in m.accesses:
            low = min(FRAME, getattr(m, 'min_sp', None) if getattr(m, 'min_sp', None) is not None else FRAME)
            if obj == 'stack' and is_c(off): chk(low <= off and off + nb <= STK + 8, 'stack access between the lowest stack pointer of the call and the return address: %s at %d' % (kd, off - FRAME))
        extent_checks(q, pc, m.mem, tag)
        for (rip, a, al) in m.align_checks:
            q.prove(pc, (bv(a.off, 64) & (al - 1)) == 0, '%s: 16-byte aligned SSE operand at code offset %d' % (tag, rip))
    res, nq = explore(one, limit=64); q.n += nq
    ok = phase_seen >= {'backedge', 'ret'}; q.n += 1; q.unsat += ok; q.sat += (not ok)
    if not ok: q.failed.append((tag + ': loop-body extraction reached %s (expected back edge and return)' % sorted(phase_seen), {}))
    return result('J3', tag, q, paths=npaths[0], detail='%d paths: %s' % (npaths[0], sorted(phase_seen)))

def trunc32(v):
    if isinstance(v, Ptr): raise Fault('pointer where a 32-bit address is expected')
    return z3.Extract(31, 0, bv(v, 64))

def syms_ssh(ctx, it, mod):
    """code offset of the SuperscalarHash routine = superScalarHashOffset (read from the IR constant used by generateSuperscalarHash)"""
    g = [n for n in mod.funcs if 'generateSuperscalarHash' in n][0]
    txt = '\n'.join(l for b in mod.funcs[g].order for l in mod.funcs[g].blocks[b])
    mm = re.search(r'getelementptr inbounds i8, i8\* %\d+, i64 (\d+)', txt)
    if not mm: raise Unsupported('superScalarHashOffset not found')
    return int(mm.group(1))

def run_iteration(m, header, ctx, info, v2, hard):
    """run from the loop header until the header is reached again ('backedge') or the function returns"""
    syms = ctx['asm']['syms']
    if v2 and not hard:
        # soft-AES round routines appended after the program: abstract each call by one AES round on [rdi] with key [rsi] (lemma A4 decides the routine)
        rel_enc = 0; rel_dec = syms['soft_aes_dec'] - syms['soft_aes_enc']
        # their position: the call targets are discovered on the fly (first call instruction whose target lies beyond the program end)
        m.soft_base = None
    first = [True]
    m.rip = header
    for _ in range(4000):
        if m.rip == header and not first[0]: return ('backedge', header)
        first[0] = False
        if m.rip in m.call_hooks: m.call_hooks[m.rip](m); continue
        r = m.step()
        if r is None: continue
        if r[0] == 'ret': return ('ret', r[1])
        if r[0] == 'call':
            tgt = r[1]
            if tgt in m.call_hooks: m.rip = tgt; continue
            if v2 and not hard and tgt >= info['end'] - 4096:
                kind = soft_kind(m, tgt, ctx, info)
                if kind:
                    st_ = m.load(m.rd(7), 16); key = m.load(m.rd(6), 16)
                    f = x86sem.AESENC if kind == 'enc' else x86sem.AESDEC
                    r_ = f(z3.Concat(bv(st_[1], 64), bv(st_[0], 64)), z3.Concat(bv(key[1], 64), bv(key[0], 64)))
                    m.store(m.rd(7), [z3.Extract(63, 0, r_), z3.Extract(127, 64, r_)], 16)
                    for g in (0, 1, 2, 3, 5, 6): m.gpr[g] = z3.BitVec('clobbered_by_soft_aes_%d_%d' % (g, m.steps), 64)
                    m.undef_flags(); sp_ = m.rd(4); ra = m.load(sp_, 8); m.wr(4, m.padd(sp_, 8)); m.rip = ra.off; continue
            m.rip = tgt; continue
        if r[0] == 'jmp': m.rip = r[1]; continue
        if r[0] == 'jcc':
            if m.decide(r[1]): m.rip = r[2]
            continue
    raise Fault('step bound exceeded in the loop frame')

def soft_kind(m, tgt, ctx, info):
    """is `tgt` the start of the appended soft_aes_enc / soft_aes_dec routine? (compare the bytes with the assembled templates)"""
    syms, text = ctx['asm']['syms'], ctx['asm']['text']
    for kind, a, b in (('enc', syms['soft_aes_enc'], syms['soft_aes_dec']), ('dec', syms['soft_aes_dec'], syms['randomx_program_soft_aes_end'])):
        n = min(24, b - a)
        if all(m.mem.load(Ptr(m.code, tgt + k), 1) == text[a + k] for k in range(n)): return kind
    return None

def jobs_J3(ctx):
    rrs = (0b0101, 0b1010) if ctx['tier'] == 'quick' else range(16)
    return [dict(light=l, v2=v, hard=h, rr=r_) for l in (False, True) for v in (False, True) for h in (True, False) for r_ in rrs]

def run_J4(ctx, case):
    """code-buffer budget with the sizes of the current templates and the per-instruction maxima proved by J1 / S4"""
    q = Q(30); mod = Module(ctx['ll']['jitlib']); it = Interp(mod); syms = ctx['asm']['syms']
    rr = [2 * i for i in range(4)]; S = dict(q=[z3.BitVec('q14', 64), z3.BitVec('q15', 64)], rr=rr, dso32=z3.BitVec('dso', 32))
    worst = 0; facts = {}
    for light in (False, True):
        for v2 in (False, True):
            for hard in (False, True):
                it = Interp(mod); info = make_code(ctx, mod, it, light, v2, hard, S)
                n = max_program_size() if v2 else P.P['RANDOMX_PROGRAM_SIZE']
                frame = info['end'] - 0          # bytes used with an empty program body (prologue + loop load + tail [+ soft AES])
                need = frame + 32 * n + (16 if (v2 and not hard) else 0)
                worst = max(worst, need); facts[(light, v2, hard)] = (frame, n, need); size = info['size']
    SSH = syms_ssh(ctx, Interp(mod), mod)
    def chk(c, what):
        q.n += 1; q.unsat += bool(c); q.sat += (not c)
        if not c: q.failed.append((what, dict(facts={str(k): v for k, v in facts.items()}, superScalarHashOffset=SSH, code_size=size)))
    chk(worst <= SSH, 'the largest possible program (every instruction at the 32-byte maximum proved by J1) needs %d bytes but the SuperscalarHash routine starts at offset %d: it would be overwritten' % (worst, SSH))
    txt = open(os.path.join(build.REPO, 'src', 'superscalar_program.hpp')).read() + open(os.path.join(build.REPO, 'src', 'common.hpp')).read()
    mm = re.search(r'SuperscalarMaxSize\s*=\s*([^;]+);', txt); smax = None
    if mm:
        e = mm.group(1).replace('RANDOMX_SUPERSCALAR_LATENCY', str(P.SS_LATENCY))
        try: smax = int(eval(e, {}, {}))
        except Exception: smax = None
    chk(smax is not None, 'SuperscalarMaxSize readable from the sources')
    if smax:
        init = syms['randomx_program_end'] - syms['randomx_sshash_init'] if False else (syms['r0_mul'] - syms['randomx_sshash_init'] + 64)
        per = 14 * smax + (syms['randomx_sshash_prefetch'] - syms['randomx_sshash_load']) + 3 + (syms['randomx_sshash_end'] - syms['randomx_sshash_prefetch'])
        total = (syms['randomx_program_end'] - syms['randomx_sshash_init']) + P.CACHE_ACCESSES * per + 1
        epi = size - (syms['randomx_sshash_load'] - syms['randomx_program_epilogue'])
        chk(SSH + total <= epi, 'SuperscalarHash code for %d programs of %d maximal (14-byte, S4) instructions needs %d bytes from offset %d but the epilogue sits at offset %d' % (P.CACHE_ACCESSES, smax, total, SSH, epi))
        chk(size % 4096 == 0, 'code buffer size is a whole number of pages')
    # dataset-init routine calls the SuperscalarHash code at the same offset
    o = syms['call_offset']; disp = int.from_bytes(ctx['asm']['text'][o - 4:o], 'little', signed=True)
    chk((o - syms['randomx_dataset_init']) + disp == SSH, 'randomx_dataset_init calls offset %d, the JIT places the SuperscalarHash routine at %d' % ((o - syms['randomx_dataset_init']) + disp, SSH))
    return result('J4', 'budget', q, paths=8, detail='worst program %d <= sshash offset %d; buffer %d' % (worst, SSH, size))

LEMMAS = {
    'J3': dict(jobs=jobs_J3, run=run_J3, units=['jitlib'], asm=True,
               functions=['JitCompilerX86::JitCompilerX86', 'generateProgram', 'generateProgramLight', 'generateProgramPrologue', 'generateProgramEpilogue', 'assembled templates: prologue, loop_load, read_dataset(_v2), read_dataset_sshash_init(_v2)/fin, loop_store(_hard_aes/_soft_aes), prefetch_scratchpad, epilogue'],
               doc='the frame the real generator stitches around the program, executed under x86sem: prologue establishes 4.6.1; one iteration from an arbitrary loop state == spec 4.6.2 (same oracle as I8) for v1/v2, full/light, hard/soft AES; exit writes the register file and restores callee-saved registers, rsp and returns; stack accesses stay inside the frame; all memory accesses in bounds and aligned',
               bound='one loop iteration from an arbitrary state + entry + exit; program body abstracted (arbitrary effect on r/f/e, scratchpad, rax/rcx/rdx/xmm12/[rsp], MXCSR: what J1 allows an instruction to do)',
               symbolic='registers, scratchpad, dataset, ma/mx, readReg0-3, E masks, datasetOffset, iteration counter, callee-saved registers, stack content',
               stubs=['generateCode := no bytes (J1)', 'SuperscalarHash routine := uninterpreted item words, clobbers rax/rbx/rdx (J5/S4)', 'soft-AES round routines := one abstract AES round on [rdi] with key [rsi], clobbering rax,rbx,rcx,rdx,rbp,rsi (A4)', 'mmap := ghost heap']),
    'J4': dict(jobs=lambda ctx: ['budget'], run=run_J4, units=['jitlib'], asm=True, functions=['JitCompilerX86 ctor (buffer size)', 'generateProgram*', 'generateSuperscalarHash (offset)', 'randomx_dataset_init (call displacement)'],
               doc='code-buffer budget: frame + 32 bytes x maximal program size fits before the SuperscalarHash routine; 8 maximal SuperscalarHash programs fit before the epilogue; dataset-init calls the routine where the JIT puts it',
               bound='all programs (per-instruction maxima from J1/S4)', symbolic='-', stubs=['arithmetic on sizes extracted from the current build']),
}

# ------------------------------------------------------------------------------------------------ J5: compiled dataset initialiser
def run_J5(ctx, case):
    """randomx_dataset_init (assembly) + randomx_sshash_init + the code generateSuperscalarHash emits for a program list + the load/prefetch templates,
    executed under x86sem for a symbolic cache and symbolic item range, vs spec 7.3 with the instruction semantics of spec 6.1"""
    from lemmas.sshash import kind_numbers, spec_ss, KINDS
    q = Q(120); mod = Module(ctx['ll']['jitlib']); syms = ctx['asm']['syms']; KN = kind_numbers(); npaths = [0]; variant = case['variant']
    NP = P.CACHE_ACCESSES
    # program list of this variant: per program a short list of (kind, dst, src) with symbolic imm32/mod, and its address register
    plans = []
    for k in range(NP):
        ks = [KINDS[(variant * 5 + 3 * k + j) % len(KINDS)] for j in range(case['len'])]
        ins = []
        for j, kd in enumerate(ks):
            d = (k + 2 * j + variant) % 8; s_ = (d + 1 + j) % 8
            if kd == 'IADD_RS' and d == 5: d = 6; s_ = 7
            if s_ == d: s_ = (d + 1) % 8
            ins.append((kd, d, s_))
        plans.append((ins, (3 * k + variant) % 8))
    item0 = z3.BitVec('startItem', 32); count = z3.BitVec('itemCount', 32)
    def one(fk):
        it = Interp(mod); it.fork = fk; fk['pc'] += [z3.ULE(z3.ZeroExt(32, item0) + z3.ZeroExt(32, count), (P.DATASET_BASE + P.DATASET_EXTRA) // 64), z3.UGE(count, 1), z3.ULE(count, 2)]      # the range lies inside the dataset (D2 guarantees it for every call the library makes)
        F = flagbits(); H = life.Heap(it, fail=False); cxxlib.install(it, H); life.bind_templates(it, ctx); life.run_ctors(it, mod)
        tj = resolve(NamedT('class.randomx::JitCompilerX86', mod)); oj = tj.layout()[0]
        J = it.mem.alloc(tj.size(), 'J'); it.call('_ZN7randomx14JitCompilerX86C2Ev', [J]); code = it.mem.load(Ptr('J', oj[2]), 8)
        tp = resolve(NamedT('class.randomx::SuperscalarProgram', mod)); po = tp.layout()[0]
        progs = it.mem.alloc(NP * tp.size(), 'programs'); imms = {}; rcps = []
        for k, (ins, ar) in enumerate(plans):
            base = k * tp.size(); it.mem.store(Ptr('programs', base + po[1]), len(ins), 4); it.mem.store(Ptr('programs', base + po[2]), ar, 4)
            for j, (kd, d, s_) in enumerate(ins):
                imm = z3.BitVec('imm_%d_%d' % (k, j), 32); mo = z3.BitVec('mod_%d_%d' % (k, j), 8); imms[(k, j)] = (imm, mo)
                if kd == 'IMUL_RCP': rcps.append(z3.BitVec('rcp_%d_%d' % (k, j), 64)); immv = len(rcps) - 1
                else: immv = imm
                if kd == 'IROR_C': fk['pc'] += [z3.UGE(imm, 1), z3.ULE(imm, 63)]
                for b_, v in enumerate((KN[kd], d, s_, mo)): it.mem.store(Ptr('programs', base + 8 * j + b_), v, 1)
                it.mem.store(Ptr('programs', base + 8 * j + 4), immv, 4)
        it.mem.alloc(24, 'rcpvec'); it.mem.alloc(8 * max(1, len(rcps)), 'rcpbuf')
        for n_, v in enumerate(rcps): it.mem.store(Ptr('rcpbuf', 8 * n_), v, 8)
        it.mem.store(Ptr('rcpvec', 0), Ptr('rcpbuf', 0), 8); it.mem.store(Ptr('rcpvec', 8), Ptr('rcpbuf', 8 * len(rcps)), 8); it.mem.store(Ptr('rcpvec', 16), Ptr('rcpbuf', 8 * len(rcps)), 8)
        it.call('_ZN7randomx14JitCompilerX8623generateSuperscalarHashERSt5arrayINS_18SuperscalarProgramELm8EERSt6vectorImSaImEE', [J, progs, Ptr('rcpvec', 0)])
        it.call('_ZN7randomx14JitCompilerX8623generateDatasetInitCodeEv', [J])
        # ---- machine: randomx_dataset_init(cache*, dataset ptr, startItem, endItem)   (System V)
        mem = it.mem; CACHE = P.ARGON_MEMORY * 1024
        mem.mkarr('cachemem', CACHE); C0 = mem.objs['cachemem']['arr']; mem.alloc(64, 'cacheobj'); mem.store(Ptr('cacheobj', 0), Ptr('cachemem', 0), 8); mem.share('cachemem', 'cacheobj')
        loads = []
        def cache_load(off, nbytes):      # cut point: 8 bytes read from the read-only cache at a recorded address
            v = z3.BitVec('cacheword%d' % len(loads), 8 * nbytes); loads.append((bv(off, 64), nbytes, v)); return v
        mem.symload['cachemem'] = cache_load
        mem.watch['cachemem'] = lambda p_, n_: (_ for _ in ()).throw(Fault('the dataset initialiser writes to the cache'))
        DS = P.DATASET_BASE + P.DATASET_EXTRA; mem.mkarr('dataset', DS); D0 = mem.objs['dataset']['arr']
        STK = 520; mem.alloc(STK + 64, 'stack')
        for k in range(0, STK + 64, 8): mem.store(Ptr('stack', k), z3.BitVec('stk%d' % k, 64), 8)
        mem.store(Ptr('stack', STK), Ptr('caller', 0), 8)
        m = Machine(mem, code.obj, it); saved = {r_: z3.BitVec('callee_saved_%d' % r_, 64) for r_ in (3, 5, 12, 13, 14, 15)}
        for r_ in range(16): m.gpr[r_] = z3.BitVec('g%d_entry' % r_, 64)
        for r_, v in saved.items(): m.gpr[r_] = v
        dsoff = z3.ZeroExt(32, item0) * 64
        m.gpr[7] = Ptr('cacheobj', 0); m.gpr[6] = Ptr('dataset', dsoff); m.gpr[2] = z3.ZeroExt(32, item0); m.gpr[1] = z3.ZeroExt(32, item0 + count); m.gpr[4] = Ptr('stack', STK)
        tag = 'dataset_init variant %d' % variant
        def chk(c, what):
            q.n += 1; q.unsat += bool(c); q.sat += (not c)
            if not c: q.failed.append(('%s: %s' % (tag, what), {}))
        try:
            r = m.run(0, max_steps=4000)
        except (Fault, OOB) as e:      # Undecodable = limitation of the x86 model: propagates, the job is INCONCLUSIVE (never a violation)
            chk(False, 'compiled dataset initialiser does not execute: %s' % e); return
        npaths[0] += 1; pc = fk['pc']
        chk(r[0] == 'ret' and isinstance(r[1], Ptr) and r[1].obj == 'caller', 'returns to the caller')
        # ---- spec 7.3 for each item of the range (the number of items on this path is decided by the path condition)
        sol = z3.Solver(); sol.add(*pc); sol.check(); nitems = sol.model().eval(count, model_completion=True).as_long()
        q.prove(pc, count == nitems, '%s: this path initialises exactly %d item(s)' % (tag, nitems))
        consts = [6364136223846793005, 9298411001130361340, 12065312585734608966, 9306329213124626780, 5281919268842080866, 10536153434571861004, 3398623926847679864, 9549104520008361294]
        B = lambda v: z3.BitVecVal(v, 64); exp = D0; rc = iter(rcps)
        for n_ in range(nitems):
            itemno = z3.ZeroExt(32, item0) + n_
            rr = [(itemno + 1) * B(consts[0])]; rr += [rr[0] ^ B(c) for c in consts[1:]]; ci = itemno; rcl = list(rcps); ri = 0
            for k, (ins, ar) in enumerate(plans):
                off = (ci & (CACHE // 64 - 1)) * 64
                for j, (kd, d, s_) in enumerate(ins):
                    imm, mo = imms[(k, j)]
                    if kd == 'IMUL_RCP': rv = rcl[ri]; ri += 1
                    else: rv = None
                    rr = list(rr); rr[d] = spec_ss(kd, rr, d, s_, imm, mo, rv)
                mine = loads[8 * (n_ * NP + k):8 * (n_ * NP + k) + 8]
                okl = len(mine) == 8 and all(nb_ == 8 for (_, nb_, _) in mine); q.n += 1; q.unsat += okl; q.sat += (not okl)
                if not okl: q.failed.append(('%s: item %d, program %d: does not read 8 words of one cache line' % (tag, n_, k), {})); return
                for w, (aoff, nb_, sym) in enumerate(mine): q.prove_eq(pc, aoff, off + 8 * w, '%s: item %d program %d: cache word %d read at 64*(cacheIndex mod lines)+%d' % (tag, n_, k, w, 8 * w), 64)
                rr = [rr[w] ^ mine[w][2] for w in range(8)]
                ci = rr[ar]
            for w in range(8):
                for b_ in range(8): exp = z3.Store(exp, dsoff + 64 * n_ + 8 * w + b_, z3.Extract(8 * b_ + 7, 8 * b_, rr[w]))
        q.prove_array_eq(pc, mem.objs['dataset']['arr'], exp, '%s: dataset after the call == spec 7.3 items at memory+64*item, nothing else written' % tag)
        chk(len(loads) == 8 * NP * nitems, 'exactly %d cache words read' % (8 * NP * nitems))
        for r_, v in saved.items(): q.prove_eq(pc, m.gpr[r_], v, '%s: callee-saved register %d restored' % (tag, r_), 64)
        chk(isinstance(m.gpr[4], Ptr) and m.gpr[4].obj == 'stack' and m.gpr[4].off == STK + 8, 'stack pointer restored')
        extent_checks(q, pc, m.mem, tag)
    res, nq = explore(one, limit=16); q.n += nq
    ok = npaths[0] >= 2; q.n += 1; q.unsat += ok; q.sat += (not ok)
    if not ok: q.failed.append(('dataset_init: expected a 1-item and a 2-item path, got %d path(s)' % npaths[0], {}))
    return result('J5', 'variant %d, %d instructions per program' % (variant, case['len']), q, paths=npaths[0], detail='%d paths; programs %s' % (npaths[0], [[i_[0] for i_ in p_[0]] for p_ in plans][:3]))

LEMMAS['J5'] = dict(jobs=lambda ctx: [dict(variant=v, len=(2 if ctx['tier'] == 'quick' else 4)) for v in (range(3) if ctx['tier'] == 'quick' else range(14))], run=run_J5, units=['jitlib'], asm=True,
    functions=['randomx_dataset_init (assembly)', 'randomx_sshash_init + program_sshash_constants.inc', 'program_sshash_load / _prefetch', 'JitCompilerX86::generateSuperscalarHash', 'generateSuperscalarCode', 'generateDatasetInitCode'],
    doc='the compiled dataset initialiser end to end under x86sem: for a symbolic cache, symbolic start item and 1-2 items, the routine writes exactly the spec 7.3 items (constants, 8 x (program, XOR with cache line (register mod lines)), address register hand-over) at memory+64*item, nothing else; callee-saved registers and rsp restored',
    bound='8 programs of 2 (quick) / 4 instructions drawn round-robin from the 14 kinds (3 / 14 variants so that every kind and every address register occurs), imm32/mod/reciprocals symbolic; item ranges of 1 and 2 items (the loop body is range independent)',
    symbolic='cache contents, start item, immediates, mod bytes, reciprocal values, callee-saved registers, stack', stubs=['x86sem', 'mmap := ghost heap'],
    outside='programs longer than 4 instructions (S4 proves each instruction separately; the stitching per program is size independent)')
