# Argon2 lemmas G1..G6 (C10, C01, C02): real argon2_{ref,ssse3,avx2}.c / argon2_core.c IR vs RFC 9106
import z3, time
from lemmas.common import *
from engine.irsym import Module, Interp, Ptr, is_c, bv, resolve, NamedT, explore
from engine.nf import NF
from engine.equiv import equal_lists
from spec import argon2_ref as ref

UNITS = {
    'argon2_ref': dict(src='src/argon2_ref.c', inline=False),
    'argon2_ssse3': dict(src='src/argon2_ssse3.c', inline=False),
    'argon2_avx2': dict(src='src/argon2_avx2.c', inline=False),
    'argon2_core': dict(src='src/argon2_core.c', inline=False),
}

def sym_block(name): return [z3.BitVec('%s%d' % (name, i), 64) for i in range(128)]

def run_fill_block(ll, simd, with_xor, P, R, N):
    """returns (next block words, state words or None, steps)"""
    mod = Module(ll); it = Interp(mod)
    prev = it.mem.alloc(1024, 'prev'); rf = it.mem.alloc(1024, 'ref'); nxt = it.mem.alloc(1024, 'nxt')
    for i in range(128):
        it.mem.store(Ptr('prev', 8 * i), P[i], 8); it.mem.store(Ptr('ref', 8 * i), R[i], 8); it.mem.store(Ptr('nxt', 8 * i), N[i], 8)
    it.call(mod.find('fill_block'), [prev, rf, nxt, with_xor])
    out = [it.mem.load(Ptr('nxt', 8 * i), 8) for i in range(128)]
    st = [it.mem.load(Ptr('prev', 8 * i), 8) for i in range(128)] if simd else None
    return out, st, it.steps

def equal_blocks(q, nf, A, B, name):
    return equal_lists(q, [bv(v, 64) for v in A], [bv(v, 64) for v in B], name, nf)

def run_G(ctx, case):
    """G1 (ref == RFC 9106 G) and G2 (ref == SSSE3 == AVX2), one with_xor value per job"""
    wx = case['with_xor']; q = Q(90 if ctx['tier'] == 'quick' else 400)
    P, R, N = sym_block('p'), sym_block('r'), sym_block('n')
    a, _, s1 = run_fill_block(ctx['ll']['argon2_ref'], False, wx, P, R, N)
    steps = s1; nf = NF(); lem = case['lemma']
    if lem == 'G1':
        spec = ref.G(P, R, N if wx else None)
        equal_blocks(q, nf, a, spec, 'fill_block(ref, with_xor=%d) == RFC 9106 G' % wx)
    else:
        for nm in ('ssse3', 'avx2'):
            b, st, s2 = run_fill_block(ctx['ll']['argon2_' + nm], True, wx, P, R, N); steps += s2
            equal_blocks(q, nf, a, b, 'next block: ref == %s (with_xor=%d)' % (nm, wx))
            equal_blocks(q, nf, b, st, '%s: SIMD state afterwards == new block (with_xor=%d)' % (nm, wx))
    return result(lem, 'with_xor=%d' % wx, q, paths=1, steps=steps, detail='%d IR steps; all 3x1024 input bytes symbolic; normal-form pass + simplify' % steps)

LEMMAS = {
    'G1': dict(jobs=lambda ctx: [dict(lemma='G1', with_xor=w) for w in (0, 1)], run=run_G, units=['argon2_ref'], functions=['fill_block (argon2_ref.c)', 'fBlaMka', 'rotr64'],
               doc='reference fill_block == RFC 9106 compression G (BlaMka P on rows then columns), XOR-in variant for with_xor=1', bound='one call, all 3x1024 input bytes', symbolic='prev, ref, next blocks', stubs=[]),
    'G2': dict(jobs=lambda ctx: [dict(lemma='G2', with_xor=w) for w in (0, 1)], run=run_G, units=['argon2_ref', 'argon2_ssse3', 'argon2_avx2'],
               functions=['fill_block (argon2_ref.c)', 'fill_block (argon2_ssse3.c)', 'fill_block (argon2_avx2.c)'],
               doc='the three fill_block implementations produce identical blocks, and the SIMD running state equals the new block', bound='one call, all inputs', symbolic='prev/state, ref, next blocks', stubs=[]),
}

# ------------------------------------------------------------------------------------------ G3 index mapping, G4 segment walk
UNITS['argon2_ref_core'] = dict(link=[dict(src='src/argon2_ref.c', inline=False), dict(src='src/argon2_core.c', inline=False)])
UNITS['argon2_ssse3_core'] = dict(link=[dict(src='src/argon2_ssse3.c', inline=False), dict(src='src/argon2_core.c', inline=False)])
UNITS['argon2_avx2_core'] = dict(link=[dict(src='src/argon2_avx2.c', inline=False), dict(src='src/argon2_core.c', inline=False)])

def spec_index_alpha(pass_, slice_, index, seg, lane_length, J1):
    """RFC 9106 3.4.2, one lane, as z3 terms (pass/slice/index python ints, seg/lane_length ints or terms, J1 32-bit term) -> 64-bit index"""
    if pass_ == 0: W = slice_ * seg + index - 1
    else: W = lane_length - seg + index - 1
    J = z3.ZeroExt(32, J1); x = z3.LShR(J * J, 32); Wt = z3.BitVecVal(W, 64) if is_c(W) else W
    y = z3.LShR(Wt * x, 32); zz = Wt - 1 - y
    start = 0
    if pass_ != 0 and slice_ != 3: start = (slice_ + 1) * seg
    tot = zz + start
    return z3.URem(tot, z3.BitVecVal(lane_length, 64) if is_c(lane_length) else lane_length)

def run_G4(ctx, case):
    impl = case['impl']; seg = case['seg']; q = Q(60); mod = Module(ctx['ll']['argon2_%s_core' % impl]); simd = impl != 'ref'
    lane = 4 * seg; NB = lane; VERSION13 = 0x13; steps = 0; ncalls = 0
    ti = resolve(NamedT('struct.Argon2_instance_t', mod)); io = ti.layout()[0]
    fn_seg = 'randomx_argon2_fill_segment_' + impl
    for pass_ in range(case['passes']):
        for slice_ in range(4):
            it = Interp(mod); calls = []; cnt = [0]
            inst = it.mem.alloc(ti.size(), 'inst'); memo = it.mem.alloc(NB * 1024, 'memory')
            blocks = {k: [z3.BitVec('M%d_%d' % (k, w), 64) for w in range(128)] for k in range(NB)}
            for k in range(NB):
                for w in range(128): it.mem.store(Ptr('memory', 1024 * k + 8 * w), blocks[k][w], 8)
            for k_, v in enumerate((memo, VERSION13, case['passes'], NB, seg, lane, 1, 1, 0, 0)):
                it.mem.store(Ptr('inst', io[k_]), v, 8 if k_ == 0 else 4)
            def fb(s, a):
                p0, rf, cur, wx = a; cnt[0] += 1; n = cnt[0]
                new = [z3.BitVec('B%d_%d' % (n, w), 64) for w in range(128)]
                prev_content = [s.mem.load(Ptr(p0.obj, p0.off + 8 * w), 8) for w in range(128)] if simd else None
                calls.append(dict(prev=p0, ref=rf, cur=cur, wx=wx, prev_content=prev_content, new=new))
                for w in range(128):
                    s.mem.store(Ptr(cur.obj, cur.off + 8 * w), new[w], 8)
                    if simd: s.mem.store(Ptr(p0.obj, p0.off + 8 * w), new[w], 8)
                return None
            it.hooks[mod.find('fill_block')] = fb
            pos0 = pass_ | (0 << 32); pos1 = slice_ | (0 << 32)
            it.call(fn_seg, [inst, pos0, pos1]); steps += it.steps
            # ---- RFC walk
            start = 2 if (pass_ == 0 and slice_ == 0) else 0
            tag = 'fill_segment_%s(seg=%d, pass %d, slice %d)' % (impl, seg, pass_, slice_)
            exp_n = seg - start; ok = len(calls) == exp_n; q.n += 1; q.unsat += ok; q.sat += (not ok)
            if not ok: q.failed.append((tag + ': %d blocks built, RFC walk builds %d' % (len(calls), exp_n), {})); continue
            cur_mem = dict(blocks)
            for j, c in enumerate(calls):
                i = start + j; cur = slice_ * seg + i; prev = cur - 1 if cur % lane != 0 else cur + lane - 1
                def chk(cond, what):
                    q.n += 1; q.unsat += bool(cond); q.sat += (not cond)
                    if not cond: q.failed.append(('%s block %d: %s' % (tag, i, what), {}))
                chk(c['cur'].obj == 'memory' and c['cur'].off == 1024 * cur, 'current block is memory[%d]' % cur)
                chk(is_c(c['wx']) and c['wx'] == (1 if pass_ > 0 else 0), 'with_xor = %s (version 0x13: overwrite in pass 0, XOR afterwards)' % c['wx'])
                if simd:
                    same = all((not is_c(x)) and x.eq(y) for x, y in zip(c['prev_content'], cur_mem[prev]))
                    chk(same, 'SIMD running state holds the previous block memory[%d]' % prev)
                else: chk(c['prev'].obj == 'memory' and c['prev'].off == 1024 * prev, 'previous block is memory[%d]' % prev)
                J1 = z3.Extract(31, 0, cur_mem[prev][0])
                ref_idx = spec_index_alpha(pass_, slice_, i, seg, lane, J1)
                ro = c['ref']
                if ro.obj != 'memory': chk(False, 'reference block outside the memory array'); continue
                q.prove_eq([], bv(ro.off, 64), ref_idx * 1024, '%s block %d: reference block == RFC 9106 index mapping' % (tag, i), 64)
                cur_mem[cur] = c['new']; ncalls += 1
            extent_checks(q, [], it.mem, tag)
    return result('G4', '%s seg=%d' % (impl, seg), q, paths=4 * case['passes'], steps=steps, detail='%d fill_block calls compared with the RFC walk' % ncalls)

def jobs_G4(ctx):
    segs = [2, 3] if ctx['tier'] == 'quick' else [2, 3, 4, 6]
    return [dict(impl=i, seg=s_, passes=2 if ctx['tier'] == 'quick' else 3) for i in ('ref', 'ssse3', 'avx2') for s_ in segs]

LEMMAS['G4'] = dict(jobs=jobs_G4, run=run_G4, units=['argon2_ref_core', 'argon2_ssse3_core', 'argon2_avx2_core'],
    functions=['randomx_argon2_fill_segment_ref', 'randomx_argon2_fill_segment_ssse3', 'randomx_argon2_fill_segment_avx2', 'randomx_argon2_index_alpha'],
    doc='segment walk on reduced instances: the sequence (previous, reference, current, with_xor) of compression calls equals the RFC 9106 walk for every (pass, slice); pass 0 overwrites, later passes XOR; SIMD running state carries exactly the previous block; reference index == RFC index mapping',
    bound='lane_length = 4*segment_length, segment_length in {2,3} (quick) / {2,3,4,6}, passes 2 (quick) / 3, arbitrary memory contents', symbolic='all memory words (so every pseudo-random J1)', stubs=['fill_block := recorder producing fresh block symbols (G1/G2 decide the compression itself)'],
    outside='the full 262144-block instance as one run')
