# Argon2 lemmas G1..G6 (C10, C01, C02): real argon2_{ref,ssse3,avx2}.c / argon2_core.c IR vs RFC 9106
import z3, time
from lemmas.common import *
from engine.irsym import Module, Interp, Ptr, is_c, bv, resolve, NamedT, explore
from engine.nf import NF
from engine.equiv import equal_lists
from spec import argon2_ref as ref

UNITS = {
    'argon2_ref': dict(src='src/argon2_ref.c', inline=False),
    'argon2_ssse3': dict(src='src/argon2_ssse3.c', inline=False),
    'argon2_avx2': dict(src='src/argon2_avx2.c', inline=False),
    'argon2_core': dict(src='src/argon2_core.c', inline=False),
}

def sym_block(name): return [z3.BitVec('%s%d' % (name, i), 64) for i in range(128)]

def run_fill_block(ll, simd, with_xor, P, R, N):
    """returns (next block words, state words or None, steps)"""
    mod = Module(ll); it = Interp(mod)
    prev = it.mem.alloc(1024, 'prev'); rf = it.mem.alloc(1024, 'ref'); nxt = it.mem.alloc(1024, 'nxt')
    for i in range(128):
        it.mem.store(Ptr('prev', 8 * i), P[i], 8); it.mem.store(Ptr('ref', 8 * i), R[i], 8); it.mem.store(Ptr('nxt', 8 * i), N[i], 8)
    it.call(mod.find('fill_block'), [prev, rf, nxt, with_xor])
    out = [it.mem.load(Ptr('nxt', 8 * i), 8) for i in range(128)]
    st = [it.mem.load(Ptr('prev', 8 * i), 8) for i in range(128)] if simd else None
    return out, st, it.steps

def equal_blocks(q, nf, A, B, name):
    return equal_lists(q, [bv(v, 64) for v in A], [bv(v, 64) for v in B], name, nf)

def run_G(ctx, case):
    """G1 (ref == RFC 9106 G) and G2 (ref == SSSE3 == AVX2), one with_xor value per job"""
    wx = case['with_xor']; q = Q(90 if ctx['tier'] == 'quick' else 400)
    P, R, N = sym_block('p'), sym_block('r'), sym_block('n')
    a, _, s1 = run_fill_block(ctx['ll']['argon2_ref'], False, wx, P, R, N)
    steps = s1; nf = NF(); lem = case['lemma']
    if lem == 'G1':
        spec = ref.G(P, R, N if wx else None)
        equal_blocks(q, nf, a, spec, 'fill_block(ref, with_xor=%d) == RFC 9106 G' % wx)
    else:
        for nm in ('ssse3', 'avx2'):
            b, st, s2 = run_fill_block(ctx['ll']['argon2_' + nm], True, wx, P, R, N); steps += s2
            equal_blocks(q, nf, a, b, 'next block: ref == %s (with_xor=%d)' % (nm, wx))
            equal_blocks(q, nf, b, st, '%s: SIMD state afterwards == new block (with_xor=%d)' % (nm, wx))
    return result(lem, 'with_xor=%d' % wx, q, paths=1, steps=steps, detail='%d IR steps; all 3x1024 input bytes symbolic; normal-form pass + simplify' % steps)

LEMMAS = {
    'G1': dict(jobs=lambda ctx: [dict(lemma='G1', with_xor=w) for w in (0, 1)], run=run_G, units=['argon2_ref'], functions=['fill_block (argon2_ref.c)', 'fBlaMka', 'rotr64'],
               doc='reference fill_block == RFC 9106 compression G (BlaMka P on rows then columns), XOR-in variant for with_xor=1', bound='one call, all 3x1024 input bytes', symbolic='prev, ref, next blocks', stubs=[]),
    'G2': dict(jobs=lambda ctx: [dict(lemma='G2', with_xor=w) for w in (0, 1)], run=run_G, units=['argon2_ref', 'argon2_ssse3', 'argon2_avx2'],
               functions=['fill_block (argon2_ref.c)', 'fill_block (argon2_ssse3.c)', 'fill_block (argon2_avx2.c)'],
               doc='the three fill_block implementations produce identical blocks, and the SIMD running state equals the new block', bound='one call, all inputs', symbolic='prev/state, ref, next blocks', stubs=[]),
}
