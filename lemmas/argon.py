# Argon2 lemmas G1..G6 (C10, C01, C02): real argon2_{ref,ssse3,avx2}.c / argon2_core.c IR vs RFC 9106
import z3, time
from lemmas.common import *
from engine.irsym import Module, Interp, Ptr, is_c, bv, resolve, NamedT, explore
from engine.nf import NF
from engine.equiv import equal_lists
from spec import argon2_ref as ref

UNITS = {
    'argon2_ref': dict(src='src/argon2_ref.c', inline=False),
    'argon2_ssse3': dict(src='src/argon2_ssse3.c', inline=False),
    'argon2_avx2': dict(src='src/argon2_avx2.c', inline=False),
    'argon2_core': dict(src='src/argon2_core.c', inline=False),
}

def sym_block(name): return [z3.BitVec('%s%d' % (name, i), 64) for i in range(128)]

def run_fill_block(ll, simd, with_xor, P, R, N):
    """returns (next block words, state words or None, steps)"""
    mod = Module(ll); it = Interp(mod)
    prev = it.mem.alloc(1024, 'prev'); rf = it.mem.alloc(1024, 'ref'); nxt = it.mem.alloc(1024, 'nxt')
    for i in range(128):
        it.mem.store(Ptr('prev', 8 * i), P[i], 8); it.mem.store(Ptr('ref', 8 * i), R[i], 8); it.mem.store(Ptr('nxt', 8 * i), N[i], 8)
    it.call(mod.find('fill_block'), [prev, rf, nxt, with_xor])
    out = [it.mem.load(Ptr('nxt', 8 * i), 8) for i in range(128)]
    st = [it.mem.load(Ptr('prev', 8 * i), 8) for i in range(128)] if simd else None
    return out, st, it.steps

def equal_blocks(q, nf, A, B, name):
    return equal_lists(q, [bv(v, 64) for v in A], [bv(v, 64) for v in B], name, nf)

def run_G(ctx, case):
    """G1 (ref == RFC 9106 G) and G2 (ref == SSSE3 == AVX2), one with_xor value per job"""
    wx = case['with_xor']; q = Q(90 if ctx['tier'] == 'quick' else 400)
    P, R, N = sym_block('p'), sym_block('r'), sym_block('n')
    a, _, s1 = run_fill_block(ctx['ll']['argon2_ref'], False, wx, P, R, N)
    steps = s1; nf = NF(); lem = case['lemma']
    if lem == 'G1':
        spec = ref.G(P, R, N if wx else None)
        equal_blocks(q, nf, a, spec, 'fill_block(ref, with_xor=%d) == RFC 9106 G' % wx)
    else:
        for nm in ('ssse3', 'avx2'):
            b, st, s2 = run_fill_block(ctx['ll']['argon2_' + nm], True, wx, P, R, N); steps += s2
            equal_blocks(q, nf, a, b, 'next block: ref == %s (with_xor=%d)' % (nm, wx))
            equal_blocks(q, nf, b, st, '%s: SIMD state afterwards == new block (with_xor=%d)' % (nm, wx))
    return result(lem, 'with_xor=%d' % wx, q, paths=1, steps=steps, detail='%d IR steps; all 3x1024 input bytes symbolic; normal-form pass + simplify' % steps)

LEMMAS = {
    'G1': dict(jobs=lambda ctx: [dict(lemma='G1', with_xor=w) for w in (0, 1)], run=run_G, units=['argon2_ref'], functions=['fill_block (argon2_ref.c)', 'fBlaMka', 'rotr64'],
               doc='reference fill_block == RFC 9106 compression G (BlaMka P on rows then columns), XOR-in variant for with_xor=1', bound='one call, all 3x1024 input bytes', symbolic='prev, ref, next blocks', stubs=[]),
    'G2': dict(jobs=lambda ctx: [dict(lemma='G2', with_xor=w) for w in (0, 1)], run=run_G, units=['argon2_ref', 'argon2_ssse3', 'argon2_avx2'],
               functions=['fill_block (argon2_ref.c)', 'fill_block (argon2_ssse3.c)', 'fill_block (argon2_avx2.c)'],
               doc='the three fill_block implementations produce identical blocks, and the SIMD running state equals the new block', bound='one call, all inputs', symbolic='prev/state, ref, next blocks', stubs=[]),
}

# ------------------------------------------------------------------------------------------ G3 index mapping, G4 segment walk
UNITS['argon2_ref_core'] = dict(link=[dict(src='src/argon2_ref.c', inline=False), dict(src='src/argon2_core.c', inline=False)])
UNITS['argon2_ssse3_core'] = dict(link=[dict(src='src/argon2_ssse3.c', inline=False), dict(src='src/argon2_core.c', inline=False)])
UNITS['argon2_avx2_core'] = dict(link=[dict(src='src/argon2_avx2.c', inline=False), dict(src='src/argon2_core.c', inline=False)])

def spec_index_alpha(pass_, slice_, index, seg, lane_length, J1):
    """RFC 9106 3.4.2, one lane, as z3 terms (pass/slice/index python ints, seg/lane_length ints or terms, J1 32-bit term) -> 64-bit index"""
    if pass_ == 0: W = slice_ * seg + index - 1
    else: W = lane_length - seg + index - 1
    J = z3.ZeroExt(32, J1); x = z3.LShR(J * J, 32); Wt = z3.BitVecVal(W, 64) if is_c(W) else W
    y = z3.LShR(Wt * x, 32); zz = Wt - 1 - y
    start = 0
    if pass_ != 0 and slice_ != 3: start = (slice_ + 1) * seg
    tot = zz + start
    return z3.URem(tot, z3.BitVecVal(lane_length, 64) if is_c(lane_length) else lane_length)

def run_G4(ctx, case):
    impl = case['impl']; seg = case['seg']; q = Q(60); mod = Module(ctx['ll']['argon2_%s_core' % impl]); simd = impl != 'ref'
    lane = 4 * seg; NB = lane; VERSION13 = 0x13; steps = 0; ncalls = 0
    ti = resolve(NamedT('struct.Argon2_instance_t', mod)); io = ti.layout()[0]
    fn_seg = 'randomx_argon2_fill_segment_' + impl
    for pass_ in range(case['passes']):
        for slice_ in range(4):
            it = Interp(mod); calls = []; cnt = [0]
            inst = it.mem.alloc(ti.size(), 'inst'); memo = it.mem.alloc(NB * 1024, 'memory')
            blocks = {k: [z3.BitVec('M%d_%d' % (k, w), 64) for w in range(128)] for k in range(NB)}
            for k in range(NB):
                for w in range(128): it.mem.store(Ptr('memory', 1024 * k + 8 * w), blocks[k][w], 8)
            for k_, v in enumerate((memo, VERSION13, case['passes'], NB, seg, lane, 1, 1, 0, 0)):
                it.mem.store(Ptr('inst', io[k_]), v, 8 if k_ == 0 else 4)
            def fb(s, a):
                p0, rf, cur, wx = a; cnt[0] += 1; n = cnt[0]
                new = [z3.BitVec('B%d_%d' % (n, w), 64) for w in range(128)]
                prev_content = [s.mem.load(Ptr(p0.obj, p0.off + 8 * w), 8) for w in range(128)] if simd else None
                calls.append(dict(prev=p0, ref=rf, cur=cur, wx=wx, prev_content=prev_content, new=new))
                for w in range(128):
                    s.mem.store(Ptr(cur.obj, cur.off + 8 * w), new[w], 8)
                    if simd: s.mem.store(Ptr(p0.obj, p0.off + 8 * w), new[w], 8)
                return None
            it.hooks[mod.find('fill_block')] = fb
            pos0 = pass_ | (0 << 32); pos1 = slice_ | (0 << 32)
            it.call(fn_seg, [inst, pos0, pos1]); steps += it.steps
            # ---- RFC walk
            start = 2 if (pass_ == 0 and slice_ == 0) else 0
            tag = 'fill_segment_%s(seg=%d, pass %d, slice %d)' % (impl, seg, pass_, slice_)
            exp_n = seg - start; ok = len(calls) == exp_n; q.n += 1; q.unsat += ok; q.sat += (not ok)
            if not ok: q.failed.append((tag + ': %d blocks built, RFC walk builds %d' % (len(calls), exp_n), {})); continue
            cur_mem = dict(blocks)
            for j, c in enumerate(calls):
                i = start + j; cur = slice_ * seg + i; prev = cur - 1 if cur % lane != 0 else cur + lane - 1
                def chk(cond, what):
                    q.n += 1; q.unsat += bool(cond); q.sat += (not cond)
                    if not cond: q.failed.append(('%s block %d: %s' % (tag, i, what), {}))
                chk(c['cur'].obj == 'memory' and c['cur'].off == 1024 * cur, 'current block is memory[%d]' % cur)
                chk(is_c(c['wx']) and c['wx'] == (1 if pass_ > 0 else 0), 'with_xor = %s (version 0x13: overwrite in pass 0, XOR afterwards)' % c['wx'])
                if simd:
                    same = all((not is_c(x)) and x.eq(y) for x, y in zip(c['prev_content'], cur_mem[prev]))
                    chk(same, 'SIMD running state holds the previous block memory[%d]' % prev)
                else: chk(c['prev'].obj == 'memory' and c['prev'].off == 1024 * prev, 'previous block is memory[%d]' % prev)
                J1 = z3.Extract(31, 0, cur_mem[prev][0])
                ref_idx = spec_index_alpha(pass_, slice_, i, seg, lane, J1)
                ro = c['ref']
                if ro.obj != 'memory': chk(False, 'reference block outside the memory array'); continue
                q.prove_eq([], bv(ro.off, 64), ref_idx * 1024, '%s block %d: reference block == RFC 9106 index mapping' % (tag, i), 64)
                cur_mem[cur] = c['new']; ncalls += 1
            extent_checks(q, [], it.mem, tag)
    return result('G4', '%s seg=%d' % (impl, seg), q, paths=4 * case['passes'], steps=steps, detail='%d fill_block calls compared with the RFC walk' % ncalls)

def jobs_G4(ctx):
    segs = [2, 3] if ctx['tier'] == 'quick' else [2, 3, 4, 6]
    return [dict(impl=i, seg=s_, passes=2 if ctx['tier'] == 'quick' else 3) for i in ('ref', 'ssse3', 'avx2') for s_ in segs]

LEMMAS['G4'] = dict(jobs=jobs_G4, run=run_G4, units=['argon2_ref_core', 'argon2_ssse3_core', 'argon2_avx2_core'],
    functions=['randomx_argon2_fill_segment_ref', 'randomx_argon2_fill_segment_ssse3', 'randomx_argon2_fill_segment_avx2', 'randomx_argon2_index_alpha'],
    doc='segment walk on reduced instances: the sequence (previous, reference, current, with_xor) of compression calls equals the RFC 9106 walk for every (pass, slice); pass 0 overwrites, later passes XOR; SIMD running state carries exactly the previous block; reference index == RFC index mapping',
    bound='lane_length = 4*segment_length, segment_length in {2,3} (quick) / {2,3,4,6}, passes 2 (quick) / 3, arbitrary memory contents', symbolic='all memory words (so every pseudo-random J1)', stubs=['fill_block := recorder producing fresh block symbols (G1/G2 decide the compression itself)'],
    outside='the full 262144-block instance as one run')

# ------------------------------------------------------------------------------------------ G5 initial hash H0, G6 first blocks, B6 H' (blake2b_long)
CTX_FIELDS = ('out', 'outlen', 'pwd', 'pwdlen', 'salt', 'saltlen', 'secret', 'secretlen', 'ad', 'adlen', 't_cost', 'm_cost', 'lanes', 'threads', 'version', 'allocate_cbk', 'free_cbk', 'flags')

def _le32(v): return [z3.Extract(8 * k + 7, 8 * k, bv(v, 32)) for k in range(4)]
def _same(a, b):
    if is_c(a) and is_c(b): return a == b
    if is_c(a) or is_c(b): return None
    return True if a.eq(b) else None

def run_G5(ctx, case):
    """rxa2_initial_hash: the byte stream fed to Blake2b-64 is RFC 9106 3.2 H0 input, in order, for symbolic parameters and field lengths"""
    if case.get('stream'): return run_G5s(ctx, case)
    q = Q(30); mod = Module(ctx['ll']['argon2_core']); it = Interp(mod)
    tc = resolve(NamedT('struct.Argon2_Context', mod)); co = tc.layout()[0]
    c = it.mem.alloc(tc.size(), 'context'); F = {}
    LEN = case['len']
    for nm in ('pwd', 'salt', 'secret', 'ad'):
        it.mem.alloc(max(LEN[nm], 1), nm + '_buf')
        for k in range(LEN[nm]): it.mem.store(Ptr(nm + '_buf', k), z3.BitVec('%s%d' % (nm, k), 8), 1)
    for k_, nm in enumerate(CTX_FIELDS):
        w = 8 if nm in ('out', 'pwd', 'salt', 'secret', 'ad', 'allocate_cbk', 'free_cbk') else 4
        if nm in ('pwd', 'salt', 'secret', 'ad'): v = Ptr(nm + '_buf', 0) if not case['null'].get(nm) else Ptr(None, 0)
        elif w == 8: v = Ptr(None, 0)
        else: v = z3.BitVec('ctx_' + nm, 32)
        F[nm] = v; it.mem.store(Ptr('context', co[k_]), v, w)
    ytype = z3.BitVec('type', 32); bh = it.mem.alloc(72, 'blockhash')
    for k in range(72): it.mem.store(Ptr('blockhash', k), z3.BitVec('bh_stale%d' % k, 8), 1)
    ev = []
    def h_init(s, a): ev.append(('init', a[0], a[1])); return 0
    def h_update(s, a):
        S, p, n = a; ev.append(('update', S, p, n)); return 0
    def h_final(s, a):
        S, out, n = a; ev.append(('final', S, out, n))
        if is_c(n):
            for k in range(n): s.mem.store(Ptr(out.obj, out.off + k), z3.BitVec('H0_%d' % k, 8), 1)
        return 0
    it.hooks[mod.find('blake2b_init')] = h_init; it.hooks[mod.find('blake2b_update')] = h_update; it.hooks[mod.find('blake2b_final')] = h_final
    # the 4-byte value buffer is reused: read its content at call time
    stream = []
    def h_update2(s, a):
        S, p, n = a
        if isinstance(p, Ptr) and p.obj is not None and not p.obj.endswith('_buf') and is_c(n): stream.append(('bytes', [s.mem.load(Ptr(p.obj, p.off + k), 1) for k in range(n)]))
        else: stream.append(('buf', p, n))
        return h_update(s, a)
    it.hooks[mod.find('blake2b_update')] = h_update2
    it.call(mod.find('rxa2_initial_hash'), [bh, c, ytype])
    def chk(cnd, what):
        q.n += 1; q.unsat += bool(cnd); q.sat += (not cnd)
        if not cnd: q.failed.append(('rxa2_initial_hash %s: %s' % (case['name'], what), {}))
    chk(len(ev) >= 2 and ev[0][0] == 'init' and is_c(ev[0][2]) and ev[0][2] == 64, 'H0 is a 64-byte Blake2b (blake2b_init(S, 64) first)')
    chk(ev[-1][0] == 'final' and isinstance(ev[-1][2], Ptr) and ev[-1][2].obj == 'blockhash' and ev[-1][2].off == 0 and ev[-1][3] == 64, 'digest written to blockhash[0..64)')
    chk(all(e[1].obj == ev[0][1].obj for e in ev), 'one hashing state throughout')
    # RFC 9106 3.2: H0 = H^(64)(LE32(p) || LE32(T) || LE32(m) || LE32(t) || LE32(v) || LE32(y) || LE32(len(P)) || P || LE32(len(S)) || S || LE32(len(K)) || K || LE32(len(X)) || X)
    exp = [('le32', F['lanes']), ('le32', F['outlen']), ('le32', F['m_cost']), ('le32', F['t_cost']), ('le32', F['version']), ('le32', ytype)]
    for nm in ('pwd', 'salt', 'secret', 'ad'):
        exp.append(('le32', F[nm + 'len']))
        if not case['null'].get(nm): exp.append(('buf', nm))
    chk(len(stream) == len(exp), 'number of update calls %d == %d fields of RFC 9106 3.2' % (len(stream), len(exp)))
    for k, (e, g) in enumerate(zip(exp, stream)):
        if e[0] == 'le32':
            ok = g[0] == 'bytes' and len(g[1]) == 4
            if ok:
                for b_, x in zip(_le32(e[1]), g[1]): q.prove_eq([], x, b_, 'rxa2_initial_hash %s: field %d byte == LE32 of the RFC field' % (case['name'], k), 8)
            else: chk(False, 'field %d is not a 4-byte little-endian value' % k)
        else:
            nm = e[1]; ok = g[0] == 'buf' and isinstance(g[1], Ptr) and g[1].obj == nm + '_buf' and g[1].off == 0
            chk(ok, 'field %d is the %s array from its first byte' % (k, nm))
            if ok: q.prove_eq([], g[2], z3.ZeroExt(32, bv(F[nm + 'len'], 32)), 'rxa2_initial_hash %s: %s hashed with its full length' % (case['name'], nm), 64)
    return result('G5', case['name'], q, paths=1, detail='%d blake2b_update calls == RFC 9106 3.2 H0 field sequence' % len(stream))

def run_G5s(ctx, case):
    """rxa2_initial_hash for concrete field lengths: the bytes that reach Blake2b-64 -- through init/update/final or a one-shot call, in whatever portions -- are the RFC 9106 3.2 H0 input"""
    q = Q(30); mod = Module(ctx['ll']['argon2_core']); it = Interp(mod)
    tc = resolve(NamedT('struct.Argon2_Context', mod)); co = tc.layout()[0]
    c = it.mem.alloc(tc.size(), 'context'); F = {}; LEN = case['len']; B = {}
    for nm in ('pwd', 'salt', 'secret', 'ad'):
        it.mem.alloc(max(LEN[nm], 1), nm + '_buf'); B[nm] = [z3.BitVec('%s%d' % (nm, k), 8) for k in range(LEN[nm])]
        for k in range(LEN[nm]): it.mem.store(Ptr(nm + '_buf', k), B[nm][k], 1)
    for k_, nm in enumerate(CTX_FIELDS):
        w = 8 if nm in ('out', 'pwd', 'salt', 'secret', 'ad', 'allocate_cbk', 'free_cbk') else 4
        if nm in ('pwd', 'salt', 'secret', 'ad'): v = Ptr(nm + '_buf', 0) if not case['null'].get(nm) else Ptr(None, 0)
        elif w == 8: v = Ptr(None, 0)
        elif nm.endswith('len') and nm[:-3] in LEN: v = LEN[nm[:-3]]
        else: v = z3.BitVec('ctx_' + nm, 32)
        F[nm] = v; it.mem.store(Ptr('context', co[k_]), v, w)
    ytype = z3.BitVec('type', 32); bh = it.mem.alloc(72, 'blockhash')
    for k in range(72): it.mem.store(Ptr('blockhash', k), z3.BitVec('bh_stale%d' % k, 8), 1)
    hashes = []       # one entry per Blake2b computation: dict(outlen, bytes, out)
    def rd(s, p, n):
        if not is_c(n): raise Exception('hash input of symbolic length in a concrete-length job')
        return [s.mem.load(Ptr(p.obj, p.off + k), 1) for k in range(n)] if n else []
    def h_init(s, a): hashes.append(dict(state=a[0], outlen=a[1], bytes=[], out=None)); return 0
    def cur(S):
        c_ = [h for h in hashes if h.get('state') is not None and h['state'].obj == S.obj and h['state'].off == S.off and h['out'] is None]
        if not c_: raise Exception('blake2b_update / blake2b_final on a state that was not initialised')
        return c_[-1]
    def h_update(s, a): cur(a[0])['bytes'] += rd(s, a[1], a[2]); return 0
    def h_final(s, a):
        h = cur(a[0]); h['out'] = a[1]; h['final_len'] = a[2]
        if is_c(a[2]):
            for k in range(a[2]): s.mem.store(Ptr(a[1].obj, a[1].off + k), z3.BitVec('H0_%d' % k, 8), 1)
        return 0
    def h_oneshot(s, a):
        out, outlen, inp, inlen, key, keylen = a
        hashes.append(dict(state=None, outlen=outlen, bytes=rd(s, inp, inlen), out=out, final_len=outlen, keylen=keylen))
        if is_c(outlen):
            for k in range(outlen): s.mem.store(Ptr(out.obj, out.off + k), z3.BitVec('H0_%d' % k, 8), 1)
        return 0
    it.hooks[mod.find('blake2b_init')] = h_init; it.hooks[mod.find('blake2b_update')] = h_update; it.hooks[mod.find('blake2b_final')] = h_final
    for nm in ('blake2b', 'randomx_blake2b'): it.hooks[nm] = h_oneshot
    it.call(mod.find('rxa2_initial_hash'), [bh, c, ytype])
    def chk(cnd, what):
        q.n += 1; q.unsat += bool(cnd); q.sat += (not cnd)
        if not cnd: q.failed.append(('rxa2_initial_hash %s: %s' % (case['name'], what), {}))
    chk(len(hashes) == 1, 'exactly one Blake2b computation (%d seen)' % len(hashes))
    if len(hashes) != 1: return result('G5', case['name'], q, paths=1)
    h = hashes[0]
    chk(is_c(h['outlen']) and h['outlen'] == 64 and h.get('final_len') == 64 and not h.get('keylen'), 'H0 is an unkeyed 64-byte Blake2b')
    chk(isinstance(h['out'], Ptr) and h['out'].obj == 'blockhash' and h['out'].off == 0, 'digest written to blockhash[0..64)')
    exp = []
    for v in (F['lanes'], F['outlen'], F['m_cost'], F['t_cost'], F['version'], ytype): exp += _le32(v)
    for nm in ('pwd', 'salt', 'secret', 'ad'):
        exp += _le32(LEN[nm])
        if not case['null'].get(nm): exp += B[nm]
    chk(len(h['bytes']) == len(exp), '%d bytes hashed, RFC 9106 3.2 says %d for these field lengths' % (len(h['bytes']), len(exp)))
    if len(h['bytes']) == len(exp):
        for k, (g, e) in enumerate(zip(h['bytes'], exp)): q.prove_eq([], g, e, 'rxa2_initial_hash %s: hashed byte %d == byte %d of LE32(p)|LE32(T)|LE32(m)|LE32(t)|LE32(v)|LE32(y)|LE32(|P|)|P|LE32(|S|)|S|LE32(|K|)|K|LE32(|X|)|X' % (case['name'], k, k), 8)
    return result('G5', case['name'], q, paths=1, detail='%d bytes hashed == RFC 9106 3.2 H0 input' % len(exp))

def jobs_G5(ctx):
    J = [dict(name='RandomX shape (key, salt; no secret, no associated data)', len=dict(pwd=5, salt=8, secret=0, ad=0), null=dict(secret=True, ad=True)),
         dict(name='all four arrays present', len=dict(pwd=3, salt=8, secret=2, ad=1), null={}),
         dict(name='empty key passed as a non-null pointer', len=dict(pwd=0, salt=8, secret=0, ad=0), null=dict(secret=True, ad=True))]
    # concrete field lengths, byte-stream oracle (independent of how the implementation portions the input): key lengths around the Blake2b block boundary of the H0 input (48 + |key| bytes)
    for n in ((0, 32, 60, 80, 81, 200) if ctx['tier'] == 'quick' else tuple(range(0, 100)) + (127, 128, 129, 200, 255, 256, 257, 400)):
        J.append(dict(name='byte stream, key of %d bytes' % n, stream=True, len=dict(pwd=n, salt=8, secret=0, ad=0), null=dict(secret=True, ad=True)))
    J.append(dict(name='byte stream, all four arrays (70, 16, 40, 9 bytes)', stream=True, len=dict(pwd=70, salt=16, secret=40, ad=9), null={}))
    return J

def run_G6(ctx, case):
    """rxa2_fill_first_blocks: B[l][0] = H'^(1024)(H0 || LE32(0) || LE32(l)), B[l][1] = H'^(1024)(H0 || LE32(1) || LE32(l)), loaded as 128 LE words"""
    q = Q(30); mod = Module(ctx['ll']['argon2_core']); it = Interp(mod); lanes = case['lanes']; LL = case['lane_length']
    ti = resolve(NamedT('struct.Argon2_instance_t', mod)); io = ti.layout()[0]
    inst = it.mem.alloc(ti.size(), 'inst'); NB = lanes * LL; memo = it.mem.alloc(NB * 1024, 'memory')
    for k in range(0, NB * 1024, 8): it.mem.store(Ptr('memory', k), z3.BitVec('stale%d' % k, 64), 8)
    for k_, v in enumerate((memo, 0x13, 3, NB, LL // 4, LL, lanes, 1, 0, 0)): it.mem.store(Ptr('inst', io[k_]), v, 8 if k_ == 0 else 4)
    bh = it.mem.alloc(72, 'blockhash'); H0 = [z3.BitVec('H0_%d' % k, 8) for k in range(64)]
    for k in range(64): it.mem.store(Ptr('blockhash', k), H0[k], 1)
    for k in range(64, 72): it.mem.store(Ptr('blockhash', k), z3.BitVec('bh_stale%d' % k, 8), 1)
    calls = []
    def h_long(s, a):
        out, outlen, inp, inlen = a; n = len(calls)
        content = [s.mem.load(Ptr(inp.obj, inp.off + k), 1) for k in range(inlen)] if is_c(inlen) and inlen <= 128 else None
        new = [z3.BitVec('Hp%d_%d' % (n, k), 8) for k in range(1024)]
        if is_c(outlen) and outlen == 1024:
            for k in range(1024): s.mem.store(Ptr(out.obj, out.off + k), new[k], 1)
        calls.append(dict(outlen=outlen, inlen=inlen, content=content, new=new)); return 0
    it.hooks[mod.find('blake2b_long')] = h_long
    it.call(mod.find('rxa2_fill_first_blocks'), [bh, inst])
    def chk(cnd, what):
        q.n += 1; q.unsat += bool(cnd); q.sat += (not cnd)
        if not cnd: q.failed.append(('rxa2_fill_first_blocks(lanes=%d, lane_length=%d): %s' % (lanes, LL, what), {}))
    chk(len(calls) == 2 * lanes, "two H' calls per lane (%d calls)" % len(calls))
    for n, cl in enumerate(calls[:2 * lanes]):
        l, j = n // 2, n % 2
        chk(cl['outlen'] == 1024 and cl['inlen'] == 72 and cl['content'] is not None, "call %d: H'^(1024) over the 72-byte H0||counter||lane string" % n)
        if cl['content'] is None: continue
        want = H0 + [j, 0, 0, 0] + [l, 0, 0, 0]
        for k in range(72):
            g = cl['content'][k]; w = want[k]
            ok = (is_c(g) and is_c(w) and g == w) or (not is_c(g) and not is_c(w) and g.eq(w))
            if not ok: chk(False, 'call %d: input byte %d is not H0 || LE32(%d) || LE32(%d)' % (n, k, j, l)); break
        else: chk(True, 'input')
        blk = l * LL + j; bad = None
        for w_ in range(128):
            got = it.mem.load(Ptr('memory', 1024 * blk + 8 * w_), 8); exp = z3.Concat(*[cl['new'][8 * w_ + k] for k in reversed(range(8))])
            if not (not is_c(got) and z3.simplify(got).eq(z3.simplify(exp))):
                if q.prove_eq([], got, exp, 'first blocks: B[%d][%d] word %d = little-endian load of H\' output' % (l, j, w_), 64)[0] != 'unsat': bad = w_; break
        chk(bad is None, 'B[%d][%d] (memory block %d) holds the 1024 output bytes as 128 little-endian words' % (l, j, blk))
    # nothing else in memory changes
    untouched = True
    for blk in range(NB):
        if any(blk == l * LL + j for l in range(lanes) for j in range(2)): continue
        v = it.mem.load(Ptr('memory', 1024 * blk), 8)
        if is_c(v) or not v.eq(z3.BitVec('stale%d' % (1024 * blk), 64)): untouched = False
    chk(untouched, 'no other block is written')
    return result('G6', 'lanes=%d lane_length=%d' % (lanes, LL), q, paths=1)

def run_B6(ctx, case):
    """blake2b_long == RFC 9106 3.3 H'^(T): T <= 64: H^T(LE32(T)||A); else V1 = H^64(LE32(T)||A), V_i = H^64(V_{i-1}), V_{r+1} = H^(T-32r)(V_r), output W_1..W_r || V_{r+1}"""
    q = Q(30); mod = Module(ctx['ll']['blake2b_ni_long']); it = Interp(mod); T = case['T']; N = case['inlen']
    inp = it.mem.alloc(max(N, 1), 'A'); A = [z3.BitVec('A%d' % k, 8) for k in range(N)]
    for k in range(N): it.mem.store(Ptr('A', k), A[k], 1)
    out = it.mem.alloc(T + 64, 'out'); O = [z3.BitVec('out_stale%d' % k, 8) for k in range(T + 64)]
    for k in range(T + 64): it.mem.store(Ptr('out', k), O[k], 1)
    ev = []; nfresh = [0]
    def fresh(n):
        nfresh[0] += 1; return [z3.BitVec('V%d_%d' % (nfresh[0], k), 8) for k in range(n)]
    def h_init(s, a): ev.append(['stream', a[1], [], None]); return 0
    def h_update(s, a):
        S, p, n = a
        if not is_c(n): raise Exception('symbolic update length')
        ev[-1][2] += [s.mem.load(Ptr(p.obj, p.off + k), 1) for k in range(n)]; return 0
    def h_final(s, a):
        S, o, n = a; v = fresh(n); ev[-1][3] = (n, v)
        for k in range(n): s.mem.store(Ptr(o.obj, o.off + k), v[k], 1)
        return 0
    def h_oneshot(s, a):
        o, olen, i_, ilen, key, klen = a; v = fresh(olen)
        ev.append(['oneshot', olen, [s.mem.load(Ptr(i_.obj, i_.off + k), 1) for k in range(ilen)], (olen, v), (key, klen)])
        for k in range(olen): s.mem.store(Ptr(o.obj, o.off + k), v[k], 1)
        return 0
    it.hooks[mod.find('blake2b_init')] = h_init; it.hooks[mod.find('blake2b_update')] = h_update; it.hooks[mod.find('blake2b_final')] = h_final; it.hooks[mod.find('blake2b')] = h_oneshot
    r = it.call(mod.find('blake2b_long'), [out, T, inp, N]); tag = "blake2b_long(T=%d, |A|=%d)" % (T, N)
    def chk(cnd, what):
        q.n += 1; q.unsat += bool(cnd); q.sat += (not cnd)
        if not cnd: q.failed.append(('%s: %s' % (tag, what), {}))
    def same_bytes(xs, ys): return len(xs) == len(ys) and all((is_c(x) and is_c(y) and x == y) or (not is_c(x) and not is_c(y) and x.eq(y)) for x, y in zip(xs, ys))
    chk(is_c(r) and r == 0, 'returns 0')
    first_in = [T & 255, (T >> 8) & 255, (T >> 16) & 255, (T >> 24) & 255] + A
    now = [it.mem.load(Ptr('out', k), 1) for k in range(T + 64)]
    if T <= 64:
        chk(len(ev) == 1 and ev[0][0] == 'stream' and ev[0][1] == T and ev[0][3] and ev[0][3][0] == T, 'one Blake2b with digest length T')
        if len(ev) == 1 and ev[0][3]:
            chk(same_bytes(ev[0][2], first_in), 'hashed string is LE32(T) || A'); chk(same_bytes(now[:T], ev[0][3][1]), 'output is the digest')
    else:
        rr = (T + 31) // 32 - 2
        chk(len(ev) == rr + 1, '%d hash invocations (r+1 with r = ceil(T/32)-2 = %d)' % (len(ev), rr))
        if len(ev) == rr + 1:
            chk(ev[0][0] == 'stream' and ev[0][1] == 64 and same_bytes(ev[0][2], first_in) and ev[0][3][0] == 64, 'V1 = H^64(LE32(T) || A)')
            prev = ev[0][3][1]; outexp = list(prev[:32])
            for i in range(1, rr + 1):
                e = ev[i]; last = i == rr; want = (T - 32 * rr) if last else 64
                chk(e[0] == 'oneshot' and e[1] == want and same_bytes(e[2], prev) and is_c(e[4][1]) and e[4][1] == 0, 'V%d = H^%d(V%d), unkeyed' % (i + 1, want, i))
                prev = e[3][1]; outexp += list(prev if last else prev[:32])
            chk(len(outexp) == T and same_bytes(now[:T], outexp), "output = W1 || ... || Wr || V(r+1)")
    chk(same_bytes(now[T:], O[T:]), 'nothing is written beyond T bytes')
    return result('B6', 'T=%d inlen=%d' % (T, N), q, paths=1)

def jobs_B6(ctx):
    Ts = [1, 32, 63, 64, 65, 96, 97, 128, 1024] if ctx['tier'] == 'quick' else list(range(1, 200)) + [1023, 1024, 1025]
    return [dict(T=t, inlen=n) for t in Ts for n in ((72,) if ctx['tier'] == 'quick' else (0, 1, 72))]

UNITS['blake2b_ni_long'] = dict(src='src/blake2/blake2b.c', inline=False)
LEMMAS['G5'] = dict(jobs=jobs_G5, run=run_G5, units=['argon2_core'], functions=['rxa2_initial_hash'],
    doc='the initial hash H0: the sequence of bytes fed to a 64-byte Blake2b is exactly RFC 9106 3.2 (p, T, m, t, v, y, then each of P, S, K, X preceded by its LE32 length), digest to blockhash[0..64)',
    bound='(a) symbolic length fields, one update per field (key buffers of 0,3,5 bytes; salt 8); (b) concrete field lengths with a byte-stream oracle that does not depend on how the input is portioned or which Blake2b entry point is used: key lengths 0,32,60,80,81,200 (quick) / 0..99,127..129,200,255..257,400, salt 8, NULL secret/ad as RandomX passes them, and one job with all four arrays; all 32-bit parameters and the type symbolic', symbolic='lanes, outlen, m_cost, t_cost, version, type, length fields (a), array contents', stubs=['blake2b_init/update/final and the one-shot blake2b := recorders of the bytes hashed (B2-B4)'])
LEMMAS['G6'] = dict(jobs=lambda ctx: [dict(lanes=1, lane_length=8), dict(lanes=2, lane_length=8)], run=run_G6, units=['argon2_core'], functions=['rxa2_fill_first_blocks', 'load_block', 'store32'],
    doc="first two blocks of every lane: B[l][j] = H'^(1024)(H0 || LE32(j) || LE32(l)) stored as 128 little-endian words at memory[l*lane_length + j]; nothing else written",
    bound='lanes 1 (RandomX) and 2, lane length 8; H0 and stale memory symbolic', symbolic='H0, stale blockhash tail, stale memory', stubs=["blake2b_long := fresh output bytes, arguments recorded (B6)"])
LEMMAS['B6'] = dict(jobs=jobs_B6, run=run_B6, units=['blake2b_ni_long'], functions=['blake2b_long'],
    doc="variable-length hash H' of RFC 9106 3.3: invocation chain and output composition", bound='T in {1,32,63,64,65,96,97,128,1024} (quick) / 1..199, 1023..1025; |A| = 72 (quick) / 0,1,72', symbolic='input bytes, stale output buffer',
    stubs=['blake2b_init/update/final and one-shot blake2b := recorders producing fresh digests (B2-B4)'])

# ------------------------------------------------------------------------------------------ G3: initCache = Argon2d with the parameters of table 7.1.1, then the program list
UNITS['dataset'] = dict(link=[dict(src='src/dataset.cpp', inline=False)])
def _cfg_salt():
    import re, os
    from engine import build
    txt = open(os.path.join(build.REPO, 'src', 'configuration.h')).read(); m = re.search(r'#define\s+RANDOMX_ARGON_SALT\s+"((?:[^"\\]|\\.)*)"', txt)
    return list(bytes(m.group(1), 'latin1').decode('unicode_escape').encode('latin1'))

def run_G3(ctx, case):
    """the real initCache(cache, key, keySize): Argon2 context/instance == specification table 7.1.1 for a symbolic key and key size; initialise then fill on the
    cache memory; SuperscalarHash programs generated from BlakeGenerator(key) in order; every IMUL_RCP immediate replaced by the index of its reciprocal"""
    from lemmas import life
    from engine import cxxlib
    from spec import params as SP
    from lemmas.sshash import kind_numbers
    q = Q(30); mod = Module(ctx['ll']['dataset']); npaths = [0]; KN = kind_numbers(); RCP = KN['IMUL_RCP']
    tcx = resolve(NamedT('struct.Argon2_Context', mod)); cxo = tcx.layout()[0]; ti = resolve(NamedT('struct.Argon2_instance_t', mod)); io = ti.layout()[0]
    tc = resolve(NamedT('struct.randomx_cache', mod)); co = tc.layout()[0]; tp = resolve(NamedT('class.randomx::SuperscalarProgram', mod)); po = tp.layout()[0]
    keysize = z3.BitVec('keySize', 64); NP = SP.CACHE_ACCESSES
    ops = [z3.BitVec('prog%d_opcode' % k, 8) for k in range(2)]; imms = [z3.BitVec('prog%d_imm32' % k, 32) for k in range(2)]
    rcpuf = z3.Function('rcp', z3.BitVecSort(32), z3.BitVecSort(64))
    def one(fk):
        it = Interp(mod); it.fork = fk; H = life.Heap(it, fail=False); cxxlib.install(it, H); ev = []
        fk['pc'] += [z3.ULT(keysize, 1 << 32)]
        cache = it.mem.alloc(tc.size(), 'cache')
        for k in range(0, tc.size(), 8): it.mem.store(Ptr('cache', k), 0, 8)
        it.mem.alloc(64, 'cachemem'); it.mem.store(Ptr('cache', co[0]), Ptr('cachemem', 0), 8); it.mem.store(Ptr('cache', co[8]), Ptr('theimpl', 0), 8)
        for k in range(3): it.mem.store(Ptr('cache', co[6] + 8 * k), Ptr(None, 0), 8)
        it.mem.alloc(64, 'key')
        def snap(s, p, t, offs, names):
            out = {}
            for k_, nm in enumerate(names):
                sz = resolve(t.els[k_]).size(); out[nm] = s.mem.load(Ptr(p.obj, p.off + offs[k_]), sz)
            return out
        INST = ('memory', 'version', 'passes', 'memory_blocks', 'segment_length', 'lane_length', 'lanes', 'threads', 'type', 'print_internals', 'context_ptr', 'impl')
        def h_validate(s, a): ev.append(('validate', snap(s, a[0], tcx, cxo, CTX_FIELDS))); return 0
        def h_init(s, a):
            c = snap(s, a[1], tcx, cxo, CTX_FIELDS); salt = c['salt']
            c['salt_bytes'] = [s.mem.load(Ptr(salt.obj, salt.off + k), 1) for k in range(8)] if isinstance(salt, Ptr) and salt.obj else None
            ev.append(('initialize', snap(s, a[0], ti, io, INST), c, a[0])); return 0
        def h_fill(s, a): ev.append(('fill', snap(s, a[0], ti, io, INST), a[0])); return 0
        def h_gen(s, a): ev.append(('Blake2Generator', a[1], a[2], a[3] if len(a) > 3 else None, a[0])); return None
        ngen = [0]
        def h_ss(s, a):
            prog, gen = a; k = ngen[0]; ngen[0] += 1; ev.append(('generateSuperscalar', prog, gen))
            n = 1 if k < 2 else 0
            s.mem.store(Ptr(prog.obj, prog.off + po[1]), n, 4)
            if n:
                s.mem.store(Ptr(prog.obj, prog.off), ops[k], 1); s.mem.store(Ptr(prog.obj, prog.off + 4), imms[k], 4)
            return None
        it.hooks['randomx_argon2_validate_inputs'] = h_validate; it.hooks['randomx_argon2_initialize'] = h_init; it.hooks['randomx_argon2_fill_memory_blocks'] = h_fill
        it.hooks['_ZN7randomx15Blake2GeneratorC1EPKvmi'] = h_gen; it.hooks['_ZN7randomx19generateSuperscalarERNS_18SuperscalarProgramERNS_15Blake2GeneratorE'] = h_ss
        it.hooks['randomx_reciprocal'] = lambda s, a: rcpuf(bv(a[0], 32))
        it.hooks['__assert_fail'] = lambda s, a: (_ for _ in ()).throw(Exception('assert_fail reached'))
        it.call('_ZN7randomx9initCacheEP13randomx_cachePKvm', [cache, Ptr('key', 0), keysize]); npaths[0] += 1; pc = fk['pc']
        def chk(c, what):
            q.n += 1; q.unsat += bool(c); q.sat += (not c)
            if not c: q.failed.append(('initCache: ' + what, {}))
        names = [e[0] for e in ev]
        chk(names[:3] == ['validate', 'initialize', 'fill'] or names[:2] == ['initialize', 'fill'], 'Argon2 initialise then fill (call sequence %s)' % names[:4])
        ini = [e for e in ev if e[0] == 'initialize']; fil = [e for e in ev if e[0] == 'fill']
        if len(ini) == 1 and len(fil) == 1:
            I, C = ini[0][1], ini[0][2]
            chk(isinstance(C['pwd'], Ptr) and C['pwd'].obj == 'key' and C['pwd'].off == 0, 'password = the key K')
            q.prove_eq(pc, C['pwdlen'], z3.Extract(31, 0, keysize), 'initCache: password length = key size', 32)
            salt = _cfg_salt()
            chk(C['salt_bytes'] is not None and all(is_c(b) for b in C['salt_bytes']) and C['salt_bytes'] == salt[:8] and C['saltlen'] == len(salt), 'salt = RANDOMX_ARGON_SALT (%d bytes)' % len(salt))
            chk(C['secretlen'] == 0 and C['adlen'] == 0 and C['outlen'] == 0, 'no secret, no associated data, output size 0')
            chk(C['t_cost'] == SP.ARGON_ITER and C['m_cost'] == SP.ARGON_MEMORY and C['lanes'] == SP.P['RANDOMX_ARGON_LANES'], 'iterations %s, memory %s KiB, parallelism %s = table 7.1.1' % (C['t_cost'], C['m_cost'], C['lanes']))
            chk(C['version'] == 0x13, 'Argon2 version 0x13')
            lanes = SP.P['RANDOMX_ARGON_LANES']; seg = SP.ARGON_MEMORY // (4 * lanes)
            chk(I['type'] == 0, 'type Argon2d (0)')
            chk(I['version'] == 0x13 and I['passes'] == SP.ARGON_ITER and I['memory_blocks'] == SP.ARGON_MEMORY and I['segment_length'] == seg and I['lane_length'] == 4 * seg and I['lanes'] == lanes and I['threads'] >= 1,
                'instance geometry: %s blocks, segment %s, lane %s, lanes %s' % (I['memory_blocks'], I['segment_length'], I['lane_length'], I['lanes']))
            chk(isinstance(I['memory'], Ptr) and I['memory'].obj == 'cachemem' and I['memory'].off == 0, 'fills the cache memory from its first byte')
            chk(fil[0][2].obj == ini[0][3].obj and all(_same(fil[0][1][k], I[k]) for k in ('version', 'passes', 'memory_blocks', 'segment_length', 'lane_length', 'lanes', 'type')) and _same(fil[0][1]['memory'].obj == 'cachemem', True), 'fill runs on the initialised instance')
        else: chk(False, 'exactly one initialise and one fill')
        g = [e for e in ev if e[0] == 'Blake2Generator']
        chk(len(g) == 1 and isinstance(g[0][1], Ptr) and g[0][1].obj == 'key' and g[0][1].off == 0, 'BlakeGenerator seeded with the key')
        if len(g) == 1:
            q.prove_eq(pc, g[0][2], keysize, 'initCache: BlakeGenerator gets the whole key size', 64)
            chk(g[0][3] is None or (is_c(g[0][3]) and g[0][3] == 0), 'nonce 0')
        ss = [e for e in ev if e[0] == 'generateSuperscalar']
        chk(len(ss) == NP and all(e[1].obj == 'cache' and e[1].off == co[5] + k * tp.size() for k, e in enumerate(ss)) and (not g or all(e[2].obj == g[0][4].obj for e in ss)),
            '%d programs generated in order into cache->programs[] from the one generator' % NP)
        # reciprocal replacement
        vb = it.mem.load(Ptr('cache', co[6]), 8); ve = it.mem.load(Ptr('cache', co[6] + 8), 8)
        nr = ((ve.off - vb.off) // 8) if isinstance(vb, Ptr) and isinstance(ve, Ptr) and vb.obj else 0
        isr = [z3.simplify(z3.And(*pc + [ops[k] == RCP])) for k in range(2)]
        sol = z3.Solver(); sol.add(*pc); idx = 0
        for k in range(2):
            sol.push(); sol.add(ops[k] == RCP); r1 = sol.check(); sol.pop(); sol.push(); sol.add(ops[k] != RCP); r0 = sol.check(); sol.pop(); q.n += 2
            imm_now = it.mem.load(Ptr('cache', co[5] + k * tp.size() + 4), 4)
            if r1 == z3.sat and r0 == z3.unsat:
                q.prove_eq(pc, imm_now, idx, 'initCache: program %d IMUL_RCP immediate := index %d of its reciprocal' % (k, idx), 32)
                if idx < nr: q.prove_eq(pc, it.mem.load(Ptr(vb.obj, vb.off + 8 * idx), 8), rcpuf(imms[k]), 'initCache: reciprocalCache[%d] = reciprocal(imm32 of program %d)' % (idx, k), 64)
                else: chk(False, 'reciprocal %d missing from the cache vector' % idx)
                idx += 1
            elif r0 == z3.sat and r1 == z3.unsat:
                q.prove_eq(pc, imm_now, imms[k], 'initCache: program %d non-reciprocal instruction keeps its immediate' % k, 32)
            else: chk(False, 'path does not decide whether instruction %d is IMUL_RCP' % k)
        chk(nr == idx, 'reciprocal cache holds exactly the %d reciprocals of this path (stale entries cleared)' % idx)
    res, nq = explore(one, limit=16); q.n += nq
    chk_paths = npaths[0] == 4; q.n += 1; q.unsat += chk_paths; q.sat += (not chk_paths)
    if not chk_paths: q.failed.append(('initCache: %d paths explored, expected 4 (two instructions x is/is not IMUL_RCP)' % npaths[0], {}))
    return result('G3', 'initCache', q, paths=npaths[0])

LEMMAS['G3'] = dict(jobs=lambda ctx: ['initCache'], run=run_G3, units=['dataset'], functions=['randomx::initCache', 'std::vector<uint64_t>::clear/push_back/size', 'Instruction::getImm32/setImm32', 'SuperscalarProgram::getSize/operator()'],
    doc='cache construction = Argon2d memory fill with the parameters of specification table 7.1.1 (password = key, salt, iterations, memory, lanes, version 0x13, type d, no secret/associated data), on the cache memory, followed by the eight SuperscalarHash programs from BlakeGenerator(key); every IMUL_RCP immediate becomes the index of its reciprocal in a freshly cleared vector',
    bound='key pointer and 64-bit key size symbolic; program list: two one-instruction programs with symbolic opcode/immediate, six empty ones', symbolic='key size, instruction opcodes and immediates',
    stubs=['randomx_argon2_initialize / fill_memory_blocks / validate_inputs := recorders (G5, G6, G4)', 'Blake2Generator ctor, generateSuperscalar := recorders (S5, S1)', 'randomx_reciprocal := uninterpreted rcp (R1)', 'operator new := ghost heap'])
