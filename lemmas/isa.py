# Instruction-set lemmas I1, I4, I5, I6, I7 (C05, C07, C06, C02): real BytecodeMachine::compileInstruction +
# executeInstruction (IR) vs the spec step function of doc/specs.md chapter 5
import z3, time, re, os
from lemmas.common import *
from engine.irsym import Module, Interp, Ptr, is_c, bv, resolve, NamedT, explore, i2d, OOB
from engine import build
from spec import params as P, vm_ref as V

UNITS = {
    'vmcore': dict(link=[dict(src='src/bytecode_machine.cpp', inline=False), dict(src='src/instructions_portable.cpp', inline=False)]),
    'vm_ni': dict(src='src/virtual_machine.cpp', inline=False),
}
COMPILE = '_ZN7randomx15BytecodeMachine18compileInstructionERNS_11InstructionEiRNS_19InstructionByteCodeE'
EXECUTE = '_ZN7randomx15BytecodeMachine18executeInstructionERNS_19InstructionByteCodeERiPhRNS_20ProgramConfigurationE13randomx_flags'

def flag_v2():
    txt = open(os.path.join(build.REPO, 'src', 'randomx.h')).read()
    return int(re.search(r'RANDOMX_FLAG_V2\s*=\s*(\d+)', txt).group(1))
def max_program_size():
    return build.config_constants().get('RANDOMX_PROGRAM_MAX_SIZE', 384)

def find_fn(mod, sub):
    c = [f for f in mod.funcs if sub in f]
    if len(c) != 1: raise Exception('cannot resolve %s: %s' % (sub, c[:4]))
    return c[0]

def bm_layout(mod):
    """where the current tree keeps the last-writer table and the register-file pointer of BytecodeMachine (read from the IR types)"""
    from engine.irsym import ArrT, IntT, PtrT, StructT
    t = resolve(NamedT('class.randomx::BytecodeMachine', mod)); offs = t.layout()[0]; usage = None; nreg = None
    for o, e in zip(offs, t.els):
        r = resolve(e)
        if isinstance(r, ArrT) and r.n == 8 and isinstance(resolve(r.el), IntT) and resolve(r.el).w == 32 and usage is None: usage = ('bm', o)
        if isinstance(r, PtrT) and nreg is None and isinstance(r.to, NamedT) and 'NativeRegisterFile' in r.to.name: nreg = o
    if usage is None:
        g = [n for n in mod.globals if 'registerUsage' in n and 'BytecodeMachine' in n]
        if len(g) == 1: usage = (g[0], 0)
    if usage is None or nreg is None: raise Exception('BytecodeMachine layout not recognised')
    return dict(size=t.size(), usage=usage, nreg=nreg)

class VMState:
    """symbolic pre-state shared by implementation and spec"""
    def __init__(s, tag=''):
        s.r = [z3.BitVec('r%d%s' % (i, tag), 64) for i in range(8)]
        s.f = [[z3.BitVec('f%d_%d%s' % (i, l, tag), 64) for l in range(2)] for i in range(4)]
        s.e = [[z3.BitVec('e%d_%d%s' % (i, l, tag), 64) for l in range(2)] for i in range(4)]
        s.a = [[z3.BitVec('a%d_%d%s' % (i, l, tag), 64) for l in range(2)] for i in range(4)]
        s.q = [z3.BitVec('q14' + tag, 64), z3.BitVec('q15' + tag, 64)]
        s.usage = [z3.BitVec('usage%d%s' % (i, tag), 32) for i in range(8)]
        s.mxcsr = z3.BitVec('mxcsr' + tag, 32)
        s.sp = z3.Array('sp_mem', z3.BitVecSort(64), z3.BitVecSort(8))

def place_state(it, S, mod):
    """builds NativeRegisterFile, BytecodeMachine, ProgramConfiguration, scratchpad objects holding the symbolic state"""
    nreg = it.mem.alloc(256, 'nreg')
    for k in range(8): it.mem.store(Ptr('nreg', 8 * k), S.r[k], 8)
    for g, base in ((S.f, 64), (S.e, 128), (S.a, 192)):
        for k in range(4):
            for l in range(2): it.mem.store(Ptr('nreg', base + 16 * k + 8 * l), g[k][l], 8)
    lay = bm_layout(mod)
    bm = it.mem.alloc(lay['size'], 'bm')
    for k in range(0, lay['size'] - lay['size'] % 8, 8): it.mem.store(Ptr('bm', k), z3.BitVec('bm_other%d' % k, 64), 8)     # members this harness does not know: arbitrary
    ub = lay['usage']
    for k in range(8): it.mem.store(Ptr(ub[0], ub[1] + 4 * k) if ub[0] == 'bm' else Ptr(it.glob(ub[0]).obj, 4 * k), S.usage[k], 4)
    it.mem.store(Ptr('bm', lay['nreg']), nreg, 8)
    it.usage_base = ('bm', ub[1]) if ub[0] == 'bm' else (it.glob(ub[0]).obj, 0)
    cfg = it.mem.alloc(32, 'cfg')
    for l in range(2): it.mem.store(Ptr('cfg', 8 * l), V.emask_of(S.q[l]), 8)
    for l in range(4): it.mem.store(Ptr('cfg', 16 + 4 * l), z3.BitVec('readReg%d' % l, 32), 4)
    sp = it.mem.mkarr('sp', P.L3); it.mem.objs['sp']['arr'] = S.sp
    it.mxcsr = S.mxcsr
    return nreg, bm, cfg, sp

def read_state(it):
    r = [it.mem.load(Ptr('nreg', 8 * k), 8) for k in range(8)]
    f = [[it.mem.load(Ptr('nreg', 64 + 16 * k + 8 * l), 8) for l in range(2)] for k in range(4)]
    e = [[it.mem.load(Ptr('nreg', 128 + 16 * k + 8 * l), 8) for l in range(2)] for k in range(4)]
    a = [[it.mem.load(Ptr('nreg', 192 + 16 * k + 8 * l), 8) for l in range(2)] for k in range(4)]
    ub = getattr(it, 'usage_base', ('bm', 0))
    usage = [it.mem.load(Ptr(ub[0], ub[1] + 4 * k), 4) for k in range(8)]
    return r, f, e, a, usage

EXTRA_BIND = None
def bind_common(it):
    if EXTRA_BIND: EXTRA_BIND(it)
    it.hooks['randomx_reciprocal'] = lambda s, a: V.RCP(bv(a[0], 32))
    it.hooks['__assert_fail'] = lambda s, a: (_ for _ in ()).throw(Exception('assert_fail reached'))

def kinds_of_path(q, pc, opcode):
    """the instruction kinds (spec opcode ranges) that the path condition admits: solver enumeration"""
    kinds = []; sol = z3.Solver(); sol.add(*pc)
    while True:
        q.n += 1
        if sol.check() != z3.sat: break
        v = sol.model().eval(opcode, model_completion=True).as_long()
        k = [k for k in P.ORDER if P.RANGE[k][0] <= v < P.RANGE[k][1]][0]; kinds.append(k)
        sol.add(z3.Not(V.in_kind(opcode, k)))
        if len(kinds) > 4: break
    return kinds

def i2d_facts(terms):
    """instances of the conversion fact proved by lemma I3a: an int32 -> double conversion leaves the low 22 fraction bits zero"""
    facts = []; seen = set(); stack = list(terms)
    while stack:
        n = stack.pop()
        if n.get_id() in seen: continue
        seen.add(n.get_id())
        if z3.is_app(n) and n.decl().name() == 'i2d': facts.append(z3.Extract(21, 0, n) == 0)
        stack.extend(n.children())
    return facts

def run_I1(ctx, case):
    dst3, src3 = case['dst'], case['src']; q = Q(60 if ctx['tier'] == 'quick' else 240)
    mod = Module(ctx['ll']['vmcore']); V2 = flag_v2(); MAXP = max_program_size()
    W = dict(opcode=z3.BitVec('opcode', 8), dst=z3.Concat(z3.BitVec('dst_hi', 5), z3.BitVecVal(dst3, 3)), src=z3.Concat(z3.BitVec('src_hi', 5), z3.BitVecVal(src3, 3)),
             mod=z3.BitVec('mod', 8), imm32=z3.BitVec('imm32', 32))
    if case.get('opcodes'): oplo, ophi = case['opcodes']
    else: oplo, ophi = 0, 255
    i = z3.BitVec('i', 32); flags = z3.BitVec('flags', 32)
    S = VMState()
    base_pc = [i >= 0, i < MAXP, z3.UGE(W['opcode'], oplo), z3.ULE(W['opcode'], ophi)] + [z3.And(u >= -1, u < i) for u in S.usage]
    npaths = [0]; covered = []
    def run(fk):
        it = Interp(mod); it.fork = fk; fk['pc'] += base_pc
        bind_common(it)
        nreg, bm, cfg, sp = place_state(it, S, mod)
        ins = it.mem.alloc(8, 'ins')
        for k, nm in enumerate(('opcode', 'dst', 'src', 'mod')): it.mem.store(Ptr('ins', k), W[nm], 1)
        it.mem.store(Ptr('ins', 4), W['imm32'], 4)
        ibc = it.mem.alloc(32, 'ibc')
        for k in range(4): it.mem.store(Ptr('ibc', 8 * k), z3.BitVec('ibc_stale%d' % k, 64), 8)
        it.call(COMPILE, [bm, ins, i, ibc])
        pc = it.mem.alloc(4, 'pc'); it.mem.store(pc, i, 4)
        it.call(EXECUTE, [ibc, pc, sp, cfg, flags])
        return it
    t0 = time.time()
    def one(fk):
        try:
            it = run(fk)
        except OOB as e:
            q.n += 1; q.sat += 1; q.failed.append(('out-of-bounds access on path %s: %s' % ([str(z3.simplify(p))[:60] for p in fk['pc'][len(base_pc):]][:4], e), {})); return None
        pc = fk['pc']; npaths[0] += 1
        kinds = kinds_of_path(q, pc, W['opcode'])
        v2 = (flags & V2) != 0
        st = dict(r=S.r, f=S.f, e=S.e, a=S.a, sp=S.sp, fprc=z3.Extract(14, 13, S.mxcsr), q=S.q, usage=S.usage)
        specs = [(k, V.step(k, W, st, i, v2)) for k in kinds]
        def sel(get):
            out = get(specs[-1][1])
            for k, sp_ in reversed(specs[:-1]): out = z3.If(V.in_kind(W['opcode'], k), get(sp_), out)
            return out
        r, f, e, a, usage = read_state(it); tag = '%s d%d s%d' % ('/'.join(kinds), dst3, src3)
        facts = i2d_facts([bv(x, 64) for g in (f, e) for pr in g for x in pr]) if any(k in ('FDIV_M',) for k in kinds) else []
        pcx = pc + facts
        for k in range(8):
            q.prove_eq(pcx, r[k], sel(lambda s_: s_['r'][k]), '%s: r%d' % (tag, k), 64)
            q.prove_eq(pcx, usage[k], sel(lambda s_: s_['usage'][k]), '%s: last-writer[%d]' % (tag, k), 32)
        for k in range(4):
            for l in range(2):
                q.prove_eq(pcx, f[k][l], sel(lambda s_: s_['f'][k][l]), '%s: f%d[%d]' % (tag, k, l), 64)
                q.prove_eq(pcx, e[k][l], sel(lambda s_: s_['e'][k][l]), '%s: e%d[%d]' % (tag, k, l), 64)
                q.prove_eq(pcx, a[k][l], S.a[k][l], '%s: a%d[%d] read-only' % (tag, k, l), 64)
        q.prove_array_eq(pcx, it.mem.objs['sp']['arr'], sel(lambda s_: s_['sp']), '%s: scratchpad' % tag)
        q.prove_eq(pcx, z3.Extract(14, 13, bv(it.mxcsr, 32)), sel(lambda s_: s_['fprc']), '%s: fprc' % tag, 2)
        q.prove_eq(pcx, bv(it.mem.load(Ptr('pc', 0), 4), 32) + 1, sel(lambda s_: s_['next']), '%s: next instruction index' % tag, 32)
        extent_checks(q, pcx, it.mem, 'extent ' + tag)
        covered.append(kinds)
        return kinds
    res, nq = explore(one, limit=400); q.n += nq
    # vacuity: the union of the path conditions covers every instruction word of this (dst,src) class
    sol = z3.Solver(); sol.add(*base_pc)
    for taken, pc, r in res: sol.add(z3.Not(z3.And(*pc[len(base_pc):])) if len(pc) > len(base_pc) else z3.BoolVal(False))
    q.n += 1
    if sol.check() != z3.unsat: q.sat += 1; q.failed.append(('paths do not cover all instruction words', {}))
    else: q.unsat += 1
    return result('I1', 'dst%%8=%d src%%8=%d opcodes %d-%d' % (dst3, src3, oplo, ophi), q, paths=npaths[0],
                  detail='%d paths; kinds %s' % (npaths[0], sorted(set(k for ks in covered for k in ks))))

def jobs_I1(ctx):
    return [dict(dst=d, src=s) for d in range(8) for s in range(8)]

LEMMAS = {
    'I1': dict(jobs=jobs_I1, run=run_I1, units=['vmcore'], functions=['BytecodeMachine::compileInstruction', 'BytecodeMachine::executeInstruction', 'exe_* (29)', 'mulh', 'smulh', 'rotr', 'rotl', 'rx_set_rounding_mode', 'rx_cvt_packed_int_vec_f128', 'maskRegisterExponentMantissa'],
               doc='decode+execute of one instruction word == spec chapter 5 step: registers r/f/e, whole scratchpad, fprc, next instruction, last-writer table; a read-only; all accesses in bounds',
               bound='every 64-bit instruction word (opcode, high bits of dst/src, mod, imm32 symbolic; dst%8, src%8 as structural case split: all 64 pairs), any register file, any scratchpad, any last-writer table with -1<=usage<i<MAX, both versions (flags symbolic)',
               symbolic='instruction word, r0-r7, f/e/a bit patterns, scratchpad (array), E masks, MXCSR, flags, program index, last-writer table',
               stubs=['FP add/sub/mul/div/sqrt := uninterpreted functions of (rounding mode, operands) on both sides', 'int32->double := uninterpreted i2d with the proved fact low22(i2d(x))=0', 'randomx_reciprocal := uninterpreted rcp (lemma R1)'],
               outside='IEEE arithmetic itself (same abstract op on both sides)'),
}

# ------------------------------------------------------------------------------------------------ I4 / I6 (C07)
def run_I4(ctx, case):
    """CBRANCH arithmetic on the constants produced by the real decoder: a branch cannot be taken three times in a row"""
    q = Q(120); mod = Module(ctx['ll']['vmcore']); S = VMState(); lo, hi = P.RANGE['CBRANCH']
    W = dict(opcode=z3.BitVecVal(lo, 8), dst=z3.BitVec('dst', 8), src=z3.BitVec('src', 8), mod=z3.BitVec('mod', 8), imm32=z3.BitVec('imm32', 32))
    it = Interp(mod); bind_common(it); nreg, bm, cfg, sp = place_state(it, S, mod)
    ins = it.mem.alloc(8, 'ins')
    for k, nm in enumerate(('opcode', 'dst', 'src', 'mod')): it.mem.store(Ptr('ins', k), W[nm] if nm != 'opcode' else lo, 1)
    it.mem.store(Ptr('ins', 4), W['imm32'], 4); ibc = it.mem.alloc(32, 'ibc')
    it.call(COMPILE, [bm, ins, 7, ibc])
    c = bv(it.mem.load(Ptr('ibc', 16), 8), 64); m = z3.ZeroExt(32, bv(it.mem.load(Ptr('ibc', 28), 4), 32)); pc = it.fork['pc']
    b = z3.ZeroExt(60, z3.Extract(7, 4, W['mod'])) + P.JUMP_OFFSET
    q.prove(pc, m == (z3.BitVecVal((1 << P.JUMP_BITS) - 1, 64) << b), 'condition mask = RANDOMX_JUMP_BITS ones starting at bit b = mod.cond + RANDOMX_JUMP_OFFSET')
    q.prove(pc, z3.And((c >> b) & 1 == 1, (c >> (b - 1)) & 1 == 0), 'cimm has bit b set and bit b-1 clear')
    q.prove(pc, (c & ~((z3.BitVecVal(3, 64) << (b - 1)))) == (z3.SignExt(32, W['imm32']) & ~(z3.BitVecVal(3, 64) << (b - 1))), 'all other bits of cimm are the sign-extended imm32')
    d = z3.BitVec('d', 64); t = lambda x: (x & m) == 0
    q.prove(pc, z3.Not(z3.And(t(d + c), t(d + 2 * c), t(d + 3 * c))), 'for every register value d: the branch is not taken on three consecutive evaluations (d+c, d+2c, d+3c)')
    q.check(pc, z3.Not(z3.And(t(d + c), t(d + 2 * c))), 'witness: two consecutive taken branches are possible (the bound 3*|P| is tight)', abstract=False)
    # the witness query must be SAT: undo its bookkeeping as a failure
    if q.failed and q.failed[-1][0].startswith('witness'): q.failed.pop(); q.sat -= 1; q.unsat += 1
    else: q.failed.append(('vacuity: no state takes the branch twice in a row', {}))
    return result('I4', 'cbranch constants', q, paths=1)

def run_I6(ctx, case):
    """N symbolic instruction words compiled by the real compileInstruction and run through the real executeInstruction in the
    executeBytecode loop: executed-instruction count <= 3N for all register states (the fork bound is the unwinding assertion)"""
    N = case['N']; q = Q(60); mod = Module(ctx['ll']['vmcore']); S = VMState(); lo, hi = P.RANGE['CBRANCH']
    # instruction mix: every instruction is either a CBRANCH or an integer instruction able to modify registers (the cases that matter for termination)
    words = [dict(opcode=z3.BitVec('op%d' % k, 8), dst=z3.BitVec('dst%d' % k, 8), src=z3.BitVec('src%d' % k, 8), mod=z3.BitVec('mod%d' % k, 8), imm32=z3.BitVec('imm%d' % k, 32)) for k in range(N)]
    maxcount = [0]; npaths = [0]; flags = z3.BitVec('flags', 32)
    allowed = case['ops']
    def one(fk):
        it = Interp(mod); it.fork = fk; bind_common(it); nreg, bm, cfg, sp = place_state(it, S, mod)
        for k in range(8): it.mem.store(Ptr(it.usage_base[0], it.usage_base[1] + 4 * k), 0xffffffff, 4)       # beginCompilation
        fk['pc'] += [w['opcode'] == o for w, o in zip(words, allowed)]
        bc = it.mem.alloc(32 * N, 'bytecode')
        for k in range(0, 32 * N, 8): it.mem.store(Ptr('bytecode', k), z3.BitVec('bc_stale%d' % k, 64), 8)
        for k, w in enumerate(words):
            ins = it.mem.alloc(8, 'ins%d' % k)
            for j, nm in enumerate(('opcode', 'dst', 'src', 'mod')): it.mem.store(Ptr('ins%d' % k, j), w[nm], 1)
            it.mem.store(Ptr('ins%d' % k, 4), w['imm32'], 4)
            it.call(COMPILE, [bm, Ptr('ins%d' % k, 0), k, Ptr('bytecode', 32 * k)])
        pcv = it.mem.alloc(4, 'pc'); count = 0; pc_ = 0
        while pc_ < N:
            it.mem.store(pcv, pc_, 4)
            it.call(EXECUTE, [Ptr('bytecode', 32 * pc_), pcv, sp, cfg, flags]); count += 1
            nv = it.mem.load(pcv, 4)
            if not is_c(nv): nv = it.concretize(z3.ZeroExt(32, nv), [v & 0xffffffff for v in range(-1, N)])      # which earlier instruction the branch returns to: solver-enumerated
            nv = nv - (1 << 32) if nv >> 31 else nv
            pc_ = nv + 1
            if count > 3 * N:
                q.n += 1; q.sat += 1; sol = z3.Solver(); sol.add(*fk['pc']); sol.check()
                q.failed.append(('a %d-instruction program executes more than %d instructions in one iteration' % (N, 3 * N), model_dict(sol.model()))); return
        npaths[0] += 1; maxcount[0] = max(maxcount[0], count)
    res, nq = explore(one, limit=case.get('limit', 4000)); q.n += nq; q.unsat += npaths[0]; q.n += npaths[0]
    return result('I6', 'N=%d ops=%s' % (N, allowed), q, paths=npaths[0], detail='%d paths, longest execution %d instructions (bound %d)' % (npaths[0], maxcount[0], 3 * N))

def jobs_I6(ctx):
    import itertools
    cb = P.RANGE['CBRANCH'][0]; iadd = P.RANGE['IADD_RS'][0]; isub = P.RANGE['ISUB_R'][0]; swap = P.RANGE['ISWAP_R'][0]; rcp = P.RANGE['IMUL_RCP'][0]
    J = []
    sets = [(2, [cb, iadd]), (3, [cb, iadd]), (3, [cb, swap, rcp])] if ctx['tier'] == 'quick' else [(2, [cb, iadd, isub, swap, rcp]), (3, [cb, iadd, swap, rcp]), (4, [cb, iadd])]
    seen = set()
    for N, ops in sets:
        for combo in itertools.product(ops, repeat=N):
            if cb not in combo or combo in seen: continue       # programs without a branch execute exactly N instructions
            seen.add(combo); J.append(dict(N=N, ops=list(combo), limit=40000))
    return J

LEMMAS['I4'] = dict(jobs=lambda ctx: ['cbranch'], run=run_I4, units=['vmcore'], functions=['BytecodeMachine::compileInstruction (CBRANCH arm)'],
    doc='the CBRANCH immediate and mask built by the real decoder: mask = JUMP_BITS ones at bit b, cimm bit b set / b-1 clear, and for every register value not three consecutive taken evaluations',
    bound='all imm32, mod.cond, register values', symbolic='imm32, mod, d', stubs=[])
LEMMAS['I6'] = dict(jobs=jobs_I6, run=run_I6, units=['vmcore'], functions=['BytecodeMachine::compileInstruction', 'BytecodeMachine::executeInstruction', 'executeBytecode loop (re-stated: pc=0; while pc<N: execute; ++pc)'],
    doc='bounded programs: N symbolic instruction words, compiled and executed by the real code from any register state, execute at most 3N instructions per iteration',
    bound='N = 2,3 (quick) / up to 4; the instruction kind of each position enumerated over {CBRANCH, IADD_RS, ISWAP_R, IMUL_RCP(, ISUB_R)} (every sequence containing a branch), all other fields (dst, src, mod, imm32) and all registers symbolic; fork bound = unwinding assertion', symbolic='instruction words, registers', stubs=['executeBytecode loop re-stated in the harness (2 lines)'],
    outside='longer programs (covered by the inductive argument I1+I4+J1, on paper)')
