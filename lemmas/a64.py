# ARM64 back-end lemmas (C19): N0 decoder cross-check against LLVM, N1 per-instruction translation validation of JitCompilerA64::h_*,
# N2 literal-register facts of the hand-written prologue.  The emitter (C++) is lowered on this host with clang (x86 target, the class is
# target independent), the runtime (jit_compiler_a64_static.S) is assembled with clang --target=aarch64.
import z3, os, re, subprocess
from lemmas.common import *
from engine.irsym import Module, Interp, Mem, Ptr, is_c, bv, resolve, NamedT, explore, OOB
from engine import build, irsym
from engine.a64sem import Machine
from engine.x86sem import Undecodable, Fault
from spec import params as P, vm_ref as V
from lemmas.isa import VMState, flag_v2, max_program_size, i2d_facts

PRE = os.path.join(build.VERIF, 'engine', 'pre', 'a64_pre.h')
UNITS = {'a64': dict(src='src/jit_compiler_a64.cpp', inline=False, extra=['-include', PRE])}
irsym.LAYOUT_GUARDS['class.randomx::JitCompilerA64'] = [r'^\[8 x i32\]$', r'^i8\*$', r'^i32$', r'^i32$', r'^i32$']
INTREG = (4, 5, 6, 7, 12, 13, 14, 15)        # IntRegMap of the back-end is read from the IR and compared with this (N1 precondition)
LITREGS = (30, 29, 28, 27, 26, 25, 24, 23, 22, 21, 11, 0)

def a64_templates(tag):
    """assembles jit_compiler_a64_static.S of the current tree for AArch64; returns ({symbol: offset}, .text bytes, object path)"""
    d = build.workdir(tag); o = os.path.join(d, 'a64_static.o')
    build.run(['clang-14', '--target=aarch64-linux-gnu', '-c', '-I', os.path.join(build.REPO, 'src'), os.path.join(build.REPO, 'src', 'jit_compiler_a64_static.S'), '-o', o])
    syms = {}
    for l in build.run(['llvm-nm-14', '-n', o]).splitlines():
        p = l.split()
        if len(p) == 3: syms[p[2]] = int(p[0], 16)
    b = os.path.join(d, 'a64_static.bin'); build.run(['llvm-objcopy-14', '-O', 'binary', '--only-section=.text', o, b])
    return syms, open(b, 'rb').read(), o

def llvm_disasm_words(tag, words):
    """LLVM's reading of a list of 32-bit A64 words: [text]"""
    d = build.workdir(tag); sfile = os.path.join(d, 'frag_%d.s' % os.getpid()); o = sfile[:-2] + '.o'
    open(sfile, 'w').write('.text\n' + ''.join('.inst 0x%08x\n' % w for w in words))
    build.run(['clang-14', '--target=aarch64-linux-gnu', '-c', sfile, '-o', o])
    out = build.run(['llvm-objdump-14', '-d', '--no-show-raw-insn', o]); res = []
    for l in out.split('\n'):
        m = re.match(r'\s*([0-9a-f]+):\s+(.*)$', l)
        if m: res.append(m.group(2).strip())
    os.unlink(sfile); os.unlink(o)
    return res

def norm_asm(t):
    t = t.lower().replace('\t', ' '); t = re.sub(r'<[^>]*>', '', t); t = re.sub(r'\s+', ' ', t).strip()
    t = re.sub(r'#(-?\d+)\b(?!x)', lambda m: '#%#x' % (int(m.group(1)) & ((1 << 64) - 1)), t)
    t = re.sub(r'#0x0+([0-9a-f])', r'#0x\1', t)
    return t

def jit_layout(mod):
    t = resolve(NamedT('class.randomx::JitCompilerA64', mod)); o = t.layout()[0]
    return dict(rco=o[0], code=o[1], literalPos=o[2], nlit=o[3], flags=o[4], size=t.size())

def handler(it, opcode):
    g = it.glob('_ZN7randomx14JitCompilerA646engineE'); f = it.mem.load(Ptr(g.obj, 16 * opcode), 8); adj = it.mem.load(Ptr(g.obj, 16 * opcode + 8), 8)
    if not (isinstance(f, Ptr) and f.obj.startswith('@fn:') and adj == 0): raise Exception('engine[%d] is not a plain member function' % opcode)
    return f.obj[4:]

CODE_SIZE = 1 << 16
def rbit64(x): return z3.Concat(*[z3.Extract(k, k, x) for k in range(64)])

# ------------------------------------------------------------------------------------------------ N1
def run_N1(ctx, case):
    opcode, dst3, src3, nlit, lid = case['opcode'], case['dst'], case['src'], case['nlit'], case['lid']
    q = Q(60 if ctx['tier'] == 'quick' else 200); mod = Module(ctx['ll']['a64']); L = jit_layout(mod); V2 = flag_v2(); syms = ctx['a64']['syms']
    kind = [k for k in P.ORDER if P.RANGE[k][0] <= opcode < P.RANGE[k][1]][0]
    LITEND = syms['randomx_program_aarch64_imul_rcp_literals_end']; BASE = syms['randomx_program_aarch64_vm_instructions'] + 64
    W = dict(opcode=z3.BitVecVal(opcode, 8), dst=z3.BitVecVal(dst3, 8), src=z3.BitVecVal(src3, 8), mod=z3.BitVec('mod', 8), imm32=z3.BitVec('imm32', 32))
    S = VMState(); i = z3.BitVec('i', 32)
    other = z3.BitVec('flag_other', 32); v2bit = z3.BitVec('v2', 1)
    vmflags = (other & ~z3.BitVecVal(V2, 32)) | z3.If(v2bit == 1, z3.BitVecVal(V2, 32), z3.BitVecVal(0, 32))
    rco = [z3.BitVec('rco%d' % k, 32) for k in range(8)]       # reg_changed_offset[r] = code offset just after instruction usage[r] (ghost link to the spec's last-writer table)
    base_pc = [i >= 0, i < max_program_size()] + [z3.And(u >= -1, u < i) for u in S.usage] + [z3.And(z3.ULE(c, BASE), c & 3 == 0, z3.UGE(c, syms['randomx_program_aarch64_vm_instructions'])) for c in rco]
    fpcr0 = z3.BitVec('fpcr0', 64); npaths = [0]; lens = []; words_seen = []
    tag = '%s(op %d) d%d s%d nlit=%d lid=%d' % (kind, opcode, dst3, src3, nlit, lid)
    def one(fk):
        it = Interp(mod); it.fork = fk; fk['pc'] += base_pc
        it.hooks['randomx_reciprocal_fast'] = lambda s, a: V.RCP(bv(a[0], 32) if not is_c(a[0]) else z3.BitVecVal(a[0], 32))
        # internal constants normally set by dynamic initialisers from the template symbols
        g = it.glob('_ZN7randomxL18ImulRcpLiteralsEndE'); it.mem.store(Ptr(g.obj, 0), LITEND, 8)
        irm = it.glob('_ZN7randomxL9IntRegMapE'); got_map = tuple(it.mem.load(Ptr(irm.obj, 4 * k), 4) for k in range(8))
        if got_map != INTREG: raise Exception('IntRegMap of the back-end %s differs from the register allocation of the runtime the harness assumes %s' % (got_map, INTREG))
        J = it.mem.alloc(L['size'], 'J'); code = it.mem.alloc(CODE_SIZE, 'code')
        for k in range(8): it.mem.store(Ptr('J', L['rco'] + 4 * k), rco[k], 4)
        it.mem.store(Ptr('J', L['code']), code, 8); it.mem.store(Ptr('J', L['literalPos']), LITEND - 8 * lid, 4); it.mem.store(Ptr('J', L['nlit']), nlit, 4); it.mem.store(Ptr('J', L['flags']), vmflags, 4)
        # literal areas: arbitrary stale content
        for k in range(64): it.mem.store(Ptr('code', LITEND + 4 * k), z3.BitVec('lit32_%d' % k, 32), 4)
        for k in range(1, 40): it.mem.store(Ptr('code', LITEND - 8 * k), z3.BitVec('lit64_%d' % k, 64), 8)
        ins = it.mem.alloc(8, 'ins')
        for k, v in enumerate((opcode, dst3, src3, W['mod'])): it.mem.store(Ptr('ins', k), v, 1)
        it.mem.store(Ptr('ins', 4), W['imm32'], 4)
        cp = it.mem.alloc(4, 'codePos'); it.mem.store(cp, BASE, 4)
        try: it.call(handler(it, opcode), [J, ins, cp])
        except OOB as e:
            q.n += 1; q.sat += 1; q.failed.append((tag + ': emitter out-of-bounds access: %s' % e, {})); return
        end = it.mem.load(cp, 4)
        if not is_c(end): raise Exception('symbolic code length')
        n = end - BASE; lens.append(n)
        ok = 0 <= n <= 4 * case.get('maxwords', 64) and n % 4 == 0; q.n += 1; q.unsat += ok; q.sat += (not ok)
        if not ok: q.failed.append((tag + ': emitted %d bytes' % n, {})); return
        words = [it.mem.load(Ptr('code', BASE + k), 4) for k in range(0, n, 4)]
        for w_ in words:
            if is_c(w_): words_seen.append(w_)
        jrco = [it.mem.load(Ptr('J', L['rco'] + 4 * k), 4) for k in range(8)]
        # ---- machine in the register allocation of the runtime (jit_compiler_a64_static.S header comment)
        mem = it.mem; mem.mkarr('sp', P.L3); mem.objs['sp']['arr'] = S.sp
        m = Machine(mem, 'code', it)
        for r in range(31): m.x[r] = z3.BitVec('x%d_0' % r, 64)
        for k in range(8): m.x[INTREG[k]] = S.r[k]
        m.x[2] = Ptr('sp', 0); m.sp = Ptr('stack', 0)
        m.x[8] = rbit64(fpcr0); m.fpcr = fpcr0
        for k in range(4): m.v[16 + k] = list(S.f[k]); m.v[20 + k] = list(S.e[k]); m.v[24 + k] = list(S.a[k])
        m.v[28] = [z3.BitVec('v28_%d' % l, 64) for l in range(2)]
        m.v[29] = [0x00FFFFFFFFC00000] * 2; m.v[30] = [V.emask_of(S.q[l]) for l in range(2)]; m.v[31] = [0x80F0000000000000] * 2
        # literal registers as the prologue loads them (N2), from the literal areas as the emitter left them
        for k in range(16):
            ws = [mem.load(Ptr('code', LITEND + 16 * k + 4 * j), 4) for j in range(4)]
            m.v[k] = [simp64(z3.Concat(bv(ws[1], 32), bv(ws[0], 32))), simp64(z3.Concat(bv(ws[3], 32), bv(ws[2], 32)))]
        for k_, r in enumerate(LITREGS): m.x[r] = mem.load(Ptr('code', LITEND - 8 * (k_ + 1)), 8)
        keep_x = {r: m.x[r] for r in range(31) if r not in INTREG and r not in (19, 20)}; keep_v = {r: list(m.v[r]) for r in list(range(0, 16)) + [24, 25, 26, 27, 29, 30, 31]}
        try:
            r = m.run(BASE, stop={BASE + n}, max_steps=40)
        except (Fault, OOB) as e:      # Undecodable = model limitation: propagates (INCONCLUSIVE)
            q.n += 1; q.sat += 1; q.failed.append((tag + ': emitted code faults: %s [%s]' % (e, ' '.join('%08x' % w_ if is_c(w_) else '????????' for w_ in words)), {})); return
        pc = fk['pc']; npaths[0] += 1
        v2 = v2bit == 1
        st = dict(r=S.r, f=S.f, e=S.e, a=S.a, sp=S.sp, fprc=z3.Concat(z3.Extract(22, 22, fpcr0), z3.Extract(23, 23, fpcr0)), q=S.q, usage=S.usage)
        sp_ = V.step(kind, W, st, i, v2)
        facts = i2d_facts([bv(x, 64) for k in range(20, 24) for x in m.v[k]]) if kind == 'FDIV_M' else []
        pcx = pc + facts
        for k in range(8): q.prove_eq(pcx, m.x[INTREG[k]], sp_['r'][k], '%s: r%d' % (tag, k), 64)
        for k in range(4):
            for l in range(2):
                q.prove_eq(pcx, m.v[16 + k][l], sp_['f'][k][l], '%s: f%d[%d]' % (tag, k, l), 64)
                q.prove_eq(pcx, m.v[20 + k][l], sp_['e'][k][l], '%s: e%d[%d]' % (tag, k, l), 64)
        q.prove_array_eq(pcx, mem.objs['sp']['arr'], sp_['sp'], '%s: scratchpad' % tag)
        fp1 = bv(m.fpcr, 64)
        q.prove_eq(pcx, z3.Concat(z3.Extract(22, 22, fp1), z3.Extract(23, 23, fp1)), sp_['fprc'], '%s: rounding mode (FPCR.RMode in RandomX numbering)' % tag, 2)
        q.prove(pcx, (fp1 & ~z3.BitVecVal(3 << 22, 64)) == (fpcr0 & ~z3.BitVecVal(3 << 22, 64)), '%s: no other FPCR bit changes' % tag)
        q.prove_eq(pcx, m.x[8], rbit64(fp1), '%s: x8 stays the bit-reversed FPCR shadow' % tag, 64)
        # last-writer link: reg_changed_offset'[r] = end of this instruction iff the spec marks r as written by instruction i
        for k in range(8):
            q.prove(pcx, z3.If(sp_['usage'][k] == i, bv(jrco[k], 32) == end, z3.And(sp_['usage'][k] == S.usage[k], bv(jrco[k], 32) == rco[k])), '%s: reg_changed_offset[%d] follows the last-writer rule' % (tag, k))
        if r[0] == 'stop': q.prove_eq(pcx, sp_['next'], i + 1, '%s: falls through => spec continues with i+1' % tag, 32)
        elif r[0] == 'leave':
            _, pc_b, imm19 = r[1]; tgt = z3.BitVecVal(pc_b, 32) + (z3.SignExt(13, imm19) << 2)
            d = INTREG.index  # noqa
            q.prove_eq(pcx, tgt, rco[dst3], '%s: taken branch lands just after the last writer of the branch register (reg_changed_offset[dst])' % tag, 32)
            q.prove_eq(pcx, sp_['next'], S.usage[dst3] + 1, '%s: spec: taken branch continues after the last writer' % tag, 32)
        else:
            q.n += 1; q.sat += 1; q.failed.append((tag + ': emitted fragment ended with %s' % (r,), {}))
        # preserved state / clobbers / accesses
        bad = []
        for rr, v0 in keep_x.items():
            if rr == 8: continue
            v1 = m.x[rr]
            same = (isinstance(v0, Ptr) and isinstance(v1, Ptr) and v0.obj == v1.obj and v0.off == v1.off) or (not isinstance(v0, Ptr) and not isinstance(v1, Ptr) and ((is_c(v0) and is_c(v1) and v0 == v1) or (not is_c(v0) and not is_c(v1) and v0.eq(v1))))
            if not same: bad.append('x%d' % rr)
        for rr, v0 in keep_v.items():
            for l in range(2):
                v1 = m.v[rr][l]
                if not ((is_c(v0[l]) and is_c(v1) and v0[l] == v1) or (not is_c(v0[l]) and not is_c(v1) and v0[l].eq(v1))): bad.append('v%d' % rr)
        q.n += 1; q.unsat += (not bad); q.sat += bool(bad)
        if bad: q.failed.append(('%s: modifies reserved registers %s (only x19, x20, v28 and flags are scratch)' % (tag, sorted(set(bad))), {}))
        for (kd, obj, off, nb) in m.accesses:
            if obj == 'code' and kd == 'load': continue
            if obj != 'sp': q.n += 1; q.sat += 1; q.failed.append(('%s: %s of object %s' % (tag, kd, obj), {}))
        for (what, cnd) in m.obligations: q.prove(pcx, cnd, '%s: %s' % (tag, what))
        extent_checks(q, pcx, mem, 'extent(a64 code) ' + tag)
    res, nq = explore(one, limit=1500); q.n += nq
    r_ = result('N1', tag, q, paths=npaths[0], detail='%d paths, emitted lengths %s' % (npaths[0], sorted(set(lens))))
    r_['words'] = sorted(set(words_seen))[:64]
    return r_

def simp64(t):
    s_ = z3.simplify(t)
    return s_.as_long() if z3.is_bv_value(s_) else s_

def run_N1_group(ctx, case):
    out = []; op = case['opcode']
    for (d, s_) in case['pairs']:
        for nlit, lid in case['lits']: out.append(run_N1(ctx, dict(opcode=op, dst=d, src=s_, nlit=nlit, lid=lid)))
    agg = out[0].copy()
    for k in ('queries', 'unsat', 'sat', 'unknown', 'obligations', 'paths'): agg[k] = sum(o.get(k, 0) for o in out)
    agg['solver_s'] = round(sum(o['solver_s'] for o in out), 2)
    agg['failed'] = [f for o in out for f in o['failed']][:6]; agg['inconclusive'] = [f for o in out for f in o['inconclusive']][:6]
    agg['status'] = 'violated' if agg['failed'] else ('inconclusive' if agg['inconclusive'] else 'proved')
    agg['case'] = 'opcode %d x register pairs %s x literal states %s' % (op, case['pairs'], case['lits'])
    # decoder cross-check of every concrete word this job executed
    words = sorted(set(w for o in out for w in o.get('words', [])))
    if words:
        ref = llvm_disasm_words(ctx['tag'] + '-n1', words); mism = []
        for w_, rt in zip(words, ref):
            mem = Mem(); mem.alloc(8, 'c'); mem.store(Ptr('c', 0), w_, 4); mm = Machine(mem, 'c'); mm.decode_only = True; mm.fpcr = z3.BitVec('f', 64); mm.sp = z3.BitVec('s', 64)
            mm.v = [[z3.BitVec('dv%d_%d' % (k, l), 64) for l in range(2)] for k in range(32)]; mm.fl = {k: z3.BitVec('fl' + k, 1) for k in 'NZCV'}
            try: mm.step(); mine = mm.disasm[-1][1]
            except Exception as e: mine = 'EXC ' + repr(e)[:40]
            if norm_asm(mine) != norm_asm(rt) and not (mine == 'prfm' and rt.startswith('prfm')) and not norm_asm(rt).startswith('b.') and not norm_asm(rt).startswith('ldr x'): mism.append('%08x: llvm "%s" vs model "%s"' % (w_, norm_asm(rt), norm_asm(mine)))
        agg['queries'] += len(words); agg['unsat'] += len(words) - len(mism)
        if mism: agg['status'] = 'error'; agg['error'] = 'A64 decoder disagrees with llvm-objdump (engine defect): ' + '; '.join(mism[:3])
    return agg

def pairs_N1(ctx, kind):
    # every register index in both roles: (d,d) exercises the immediate forms, (d,d+1) the register forms; thorough: all 64 pairs
    if kind == 'CBRANCH': return [(0, 0), (5, 0)] if ctx['tier'] == 'quick' else [(d, 0) for d in range(8)]      # the source register field is not used by CBRANCH
    if ctx['tier'] != 'quick': return [(d, s_) for d in range(8) for s_ in range(8)]
    return [(d, d) for d in range(8)] + [(d, (d + 1) % 8) for d in range(8)]

def jobs_N1(ctx):
    J = []
    lits = [(5, 3), (64, 14)] if ctx['tier'] == 'quick' else [(0, 0), (5, 3), (63, 11), (64, 12), (64, 30)]
    for k in P.ORDER:
        lo, hi = P.RANGE[k]
        ops = [lo] if ctx['tier'] == 'quick' else sorted({lo, hi - 1})
        uses_lit = k in ('IADD_RS', 'IADD_M', 'ISUB_R', 'ISUB_M', 'IMUL_R', 'IMUL_M', 'IMULH_M', 'ISMULH_M', 'IMUL_RCP', 'IXOR_R', 'IXOR_M', 'FADD_M', 'FSUB_M', 'FDIV_M', 'CBRANCH', 'ISTORE')
        for op in ops:
            prs = pairs_N1(ctx, k)
            if k == 'CBRANCH':      # each (register, literal state) run explores ~240 paths: one job each
                for pr in prs:
                    for lt in (lits[:1] if ctx['tier'] == 'quick' else lits[1:3]): J.append(dict(opcode=op, pairs=[pr], lits=[lt]))
                continue
            for c in range(0, len(prs), 4): J.append(dict(opcode=op, pairs=prs[c:c + 4], lits=(lits if uses_lit else lits[:1])))
    return J

# ------------------------------------------------------------------------------------------------ N0 / N2
def run_N0(ctx, case):
    """every instruction of the assembled runtime that the model decodes reads the same as LLVM's disassembler; prologue literal loads (N2)"""
    q = Q(10); syms, text, obj = ctx['a64']['syms'], ctx['a64']['text'], ctx['a64']['obj']
    out = build.run(['llvm-objdump-14', '-d', '--no-show-raw-insn', '--mattr=+aes', obj]); ref = {}
    for l in out.split('\n'):
        mm = re.match(r'\s*([0-9a-f]+):\s+(.*)$', l)
        if mm: ref[int(mm.group(1), 16)] = mm.group(2).strip()
    ok = bad = skipped = 0; mism = []
    for off in range(0, len(text) - 3, 4):
        rt = ref.get(off)
        if rt is None or '.word' in rt or rt.startswith('<unknown>') or rt.startswith('udf'): continue
        mem = Mem(); mem.alloc(len(text), 'c'); mem.objs['c']['default'] = lambda o: text[o]
        from lemmas.a64frame import FrameMachine
        m = FrameMachine(mem, 'c'); m.decode_only = True; m.fpcr = z3.BitVec('f', 64); m.sp = z3.BitVec('s', 64)
        m.v = [[z3.BitVec('dv%d_%d' % (k, l), 64) for l in range(2)] for k in range(32)]; m.fl = {k: z3.BitVec('fl' + k, 1) for k in 'NZCV'}; m.pc = off
        try: m.step()
        except Undecodable: skipped += 1; continue
        mine = m.disasm[-1][1]
        if norm_asm(mine) == norm_asm(rt) or (mine == 'prfm' and rt.startswith('prfm')): ok += 1
        else: bad += 1; mism.append('%#x: llvm "%s" vs model "%s"' % (off, norm_asm(rt), norm_asm(mine)))
    q.n += ok + bad; q.unsat += ok; q.sat += bad
    # N2: the prologue loads the literal registers from the slots the emitter fills
    LITEND = syms['randomx_program_aarch64_imul_rcp_literals_end']
    mem = Mem(); mem.alloc(len(text), 'c'); mem.objs['c']['default'] = lambda o: text[o]
    for k in range(1, 13): mem.store(Ptr('c', LITEND - 8 * k), z3.BitVec('L64_%d' % k, 64), 8)
    for k in range(64): mem.store(Ptr('c', LITEND + 4 * k), z3.BitVec('L32_%d' % k, 32), 4)
    m = Machine(mem, 'c'); found_x = {}; found_v = {}
    for off in range(0, syms['randomx_program_aarch64_main_loop'], 4):
        w_ = int.from_bytes(text[off:off + 4], 'little')
        if (w_ & 0xFF000000) in (0x58000000, 0x9C000000):
            m.pc = off; m.step(); rt_ = w_ & 31
            if (w_ & 0xFF000000) == 0x58000000: found_x[rt_] = m.x[rt_]
            else: found_v[rt_] = m.v[rt_]
    for k_, r in enumerate(LITREGS):
        exp = z3.BitVec('L64_%d' % (k_ + 1), 64); g = found_x.get(r); okk = g is not None and not is_c(g) and g.eq(exp); q.n += 1; q.unsat += okk; q.sat += (not okk)
        if not okk: q.failed.append(('prologue: x%d is not loaded from IMUL_RCP literal slot %d' % (r, k_), {}))
    for k in range(16):
        g = found_v.get(k); okk = g is not None
        if okk:
            for l in range(2):
                exp = z3.simplify(z3.Concat(z3.BitVec('L32_%d' % (4 * k + 2 * l + 1), 32), z3.BitVec('L32_%d' % (4 * k + 2 * l), 32)))
                okk = okk and not is_c(g[l]) and z3.simplify(g[l]).eq(exp)
        q.n += 1; q.unsat += okk; q.sat += (not okk)
        if not okk: q.failed.append(('prologue: v%d is not loaded with 32-bit literals %d..%d' % (k, 4 * k, 4 * k + 3), {}))
    r = result('N0', 'runtime decode + literal loads', q, paths=1, detail='%d runtime instructions read identically by LLVM and the model, %d outside the modelled subset; 28 literal-register loads checked' % (ok, skipped))
    if bad: r['status'] = 'error'; r['error'] = 'A64 decoder disagrees with llvm-objdump (engine defect): ' + '; '.join(mism[:3]); r['failed'] = [f for f in r['failed'] if 'prologue' in f[0]]
    return r

LEMMAS = {
    'N1': dict(jobs=jobs_N1, run=run_N1_group, units=['a64'], a64=True, functions=['JitCompilerA64::h_* (30 emitters)', 'emitMovImmediate', 'emitAddImmediate', 'emitMemLoad', 'emitMemLoadFP', 'emit32', 'engine[256]'],
               doc='per-instruction translation validation of the ARM64 back-end: the A64 words emitted for an instruction word, executed under the A64 model from an arbitrary machine state in the runtime\'s register allocation, give the spec step: r0-r7, f, e, whole scratchpad, rounding mode (FPCR.RMode), branch target = reg_changed_offset of the branch register, last-writer bookkeeping; a0-a3, mask/literal registers and every other register preserved (x19, x20, v28, flags are scratch); accesses in bounds',
               bound='first opcode of each of the 29 ranges (quick) / first and last (thorough); register pairs (d,d) and (d,d+1) for every d (quick; CBRANCH: d in {0,5}) / all 64 (thorough; CBRANCH: every d, two literal states); mod and imm32 symbolic; literal-pool fill states (32-bit literals used, reciprocal literals used) in {(5,3),(64,14)} (quick) / 5 states; any register file, scratchpad, FPCR, both versions',
               symbolic='mod, imm32, r0-r7, f/e/a, scratchpad, E masks, FPCR, every other register, literal pool content, program index, last-writer table and reg_changed_offset',
               stubs=['FP ops := uninterpreted functions of (rounding mode, operands), shared with the spec', 'randomx_reciprocal_fast := uninterpreted rcp (R1/R2)', 'A64 semantics: engine/a64sem.py (Arm ARM transcription; decoding cross-checked against llvm-objdump, semantics NOT validated on hardware)',
                      'frame facts assumed: x2 = scratchpad, v29/v30/v31 = and-mask/E or-mask/scale mask, x8 = rbit(FPCR), literal registers loaded from the literal pool (N0 checks the loads)'],
               outside='IEEE arithmetic; FPCR bits other than RMode (the main loop is N3, the generated dataset code N5/N6)'),
    'N0': dict(jobs=lambda ctx: ['runtime'], run=run_N0, units=[], a64=True, functions=['engine/a64sem.py decoder', 'jit_compiler_a64_static.S prologue literal loads'],
               doc='A64 decoder cross-check: every instruction of the assembled runtime inside the modelled subset reads the same in the model and in llvm-objdump; the prologue loads x0/x11/x21-x30 and v0-v15 from the literal slots the emitter fills',
               bound='the whole assembled runtime', symbolic='literal pool content', stubs=[]),
}

# ------------------------------------------------------------------------------------------------ N5: the generated dataset-item function
def run_N5(ctx, case):
    """the real generateSuperscalarHash stitches rx_calc_dataset_item from the runtime's templates and the code it emits for a program list;
    the function, executed under the A64 model for a symbolic cache and item number, computes the item of specification 7.3"""
    from lemmas.sshash import kind_numbers, spec_ss, KINDS
    from lemmas import life
    from engine import cxxlib
    q = Q(120); mod = Module(ctx['ll']['a64']); L = jit_layout(mod); syms, text = ctx['a64']['syms'], ctx['a64']['text']; KN = kind_numbers(); npaths = [0]; variant = case['variant']
    NP = P.CACHE_ACCESSES; CODESZ = syms['randomx_init_dataset_aarch64_end'] - syms['randomx_program_aarch64']
    plans = []; single = case.get('single')
    for k in range(NP):
        if single: ks = [single[0]] if k == single[3] else []
        else: ks = [KINDS[(variant * 5 + 3 * k + j) % len(KINDS)] for j in range(case['len'])]
        ins = []
        for j, kd in enumerate(ks):
            d = (k + 2 * j + variant) % 8; s_ = (d + 1 + j) % 8
            if single: d, s_ = single[1], single[2]
            if kd == 'IADD_RS' and d == 5: d = 6; s_ = 7
            if s_ == d: s_ = (d + 1) % 8
            ins.append((kd, d, s_))
        plans.append((ins, (3 * k + variant) % 8))
    # immediates: in the stitched variants every IADD_C/IXOR_C immediate is confined to one materialisation class (the classes are all covered, with unconstrained immediates, by the single-instruction jobs)
    CLASSES = [lambda x: z3.ULT(x, 1 << 12), lambda x: z3.And(z3.UGE(x, 1 << 12), z3.ULT(x, 1 << 24), x & 0xfff != 0), lambda x: z3.And(z3.UGE(x, 1 << 24), x < 0x80000000 if False else z3.ULT(x, 1 << 31)), lambda x: z3.UGE(x, 1 << 31)]
    item = z3.BitVec('itemNumber', 64); tag = 'calc_dataset_item (A64) %s' % (('single %s r%d,r%d in program %d' % tuple(single)) if single else 'variant %d' % variant)
    def one(fk):
        it = Interp(mod); it.fork = fk; H = life.Heap(it, fail=False); cxxlib.install(it, H)
        it.mem.alloc(len(text) + 64, 'text')
        for k, b in enumerate(text): it.mem.objs['text']['bytes'][k] = b
        it.extern = {nm: Ptr('text', off) for nm, off in syms.items()}
        for nm, v in (('_ZN7randomxL8CodeSizeE', CODESZ),): it.mem.store(Ptr(it.glob(nm).obj, 0), v, 8)
        J = it.mem.alloc(L['size'], 'J'); CB = CODESZ + (1 << 16); code = it.mem.alloc(CB, 'code')
        for k, b in enumerate(text[:CODESZ]): it.mem.objs['code']['bytes'][k] = b
        it.mem.store(Ptr('J', L['code']), code, 8); it.mem.store(Ptr('J', L['literalPos']), 0, 4); it.mem.store(Ptr('J', L['nlit']), 0, 4); it.mem.store(Ptr('J', L['flags']), 0, 4)
        tp = resolve(NamedT('class.randomx::SuperscalarProgram', mod)); po = tp.layout()[0]
        progs = it.mem.alloc(NP * tp.size(), 'programs'); imms = {}; rcps = []
        for k, (ins, ar) in enumerate(plans):
            base = k * tp.size(); it.mem.store(Ptr('programs', base + po[1]), len(ins), 4); it.mem.store(Ptr('programs', base + po[2]), ar, 4)
            for j, (kd, d, s_) in enumerate(ins):
                REP = [5, 0x7ff, 0x800, 0x12345, 0x1000000, 0x7fffffff, 0x80000000, 0xfffff800, 0xffffffff, 0xfedcba98, 63, 0x1f000]      # stitched variants: concrete immediates of every materialisation class (symbolic ones are covered by the single-instruction jobs)
                imm = z3.BitVec('imm_%d_%d' % (k, j), 32) if single else z3.BitVecVal(REP[(variant * 3 + 5 * k + j) % len(REP)], 32); mo = z3.BitVec('mod_%d_%d' % (k, j), 8) if single else z3.BitVecVal(((variant + k + j) % 4) << 2, 8); imms[(k, j)] = (imm, mo)
                if kd == 'IROR_C':
                    if single: fk['pc'] += [z3.UGE(imm, 1), z3.ULE(imm, 63)]
                    else: imm = z3.BitVecVal(1 + (variant * 7 + 11 * k + j) % 63, 32); imms[(k, j)] = (imm, mo)
                if kd == 'IMUL_RCP': rcps.append(z3.BitVec('rcp_%d_%d' % (k, j), 64)); immv = len(rcps) - 1
                else: immv = imm
                for b_, v in enumerate((KN[kd], d, s_, mo)): it.mem.store(Ptr('programs', base + 8 * j + b_), v, 1)
                it.mem.store(Ptr('programs', base + 8 * j + 4), immv, 4)
        it.mem.alloc(24, 'rcpvec'); it.mem.alloc(8 * max(1, len(rcps)), 'rcpbuf')
        for n_, v in enumerate(rcps): it.mem.store(Ptr('rcpbuf', 8 * n_), v, 8)
        it.mem.store(Ptr('rcpvec', 0), Ptr('rcpbuf', 0), 8); it.mem.store(Ptr('rcpvec', 8), Ptr('rcpbuf', 8 * len(rcps)), 8); it.mem.store(Ptr('rcpvec', 16), Ptr('rcpbuf', 8 * len(rcps)), 8)
        it.call('_ZN7randomx14JitCompilerA6423generateSuperscalarHashERSt5arrayINS_18SuperscalarProgramELm8EERSt6vectorImSaImEE', [J, progs, Ptr('rcpvec', 0)])
        # ---- machine: rx_calc_dataset_item(x0 = cache memory, x1 = out, x2 = item number) as randomx_init_dataset_aarch64 calls it (bl to offset CODESZ)
        mem = it.mem; CACHE = P.ARGON_MEMORY * 1024
        mem.mkarr('cachemem', CACHE); mem.share('cachemem'); loads = []
        def cache_load(off, nbytes):
            v = z3.BitVec('cacheword%d' % len(loads), 8 * nbytes); loads.append((bv(off, 64), nbytes, v)); return v
        mem.symload['cachemem'] = cache_load
        mem.watch['cachemem'] = lambda p_, n_: (_ for _ in ()).throw(Fault('the dataset-item function writes to the cache'))
        mem.alloc(64, 'out'); STK = 256; mem.alloc(STK + 16, 'stack')
        for k in range(0, STK + 16, 8): mem.store(Ptr('stack', k), z3.BitVec('stk%d' % k, 64), 8)
        m = Machine(mem, 'code', it)
        entry = {r: z3.BitVec('x%d_entry' % r, 64) for r in range(31)}
        for r in range(31): m.x[r] = entry[r]
        m.x[0] = Ptr('cachemem', 0); m.x[1] = Ptr('out', 0); m.x[2] = item; m.x[30] = Ptr('caller', 0); m.sp = Ptr('stack', STK); m.fpcr = z3.BitVec('fpcr', 64)
        def chk(c, what):
            q.n += 1; q.unsat += bool(c); q.sat += (not c)
            if not c: q.failed.append(('%s: %s' % (tag, what), {}))
        try: r = m.run(CODESZ, max_steps=3000)
        except (Fault, OOB) as e:
            chk(False, 'generated function does not execute: %s' % e); return
        npaths[0] += 1; pc = fk['pc']
        chk(r[0] == 'ret' and isinstance(r[1], Ptr) and r[1].obj == 'caller', 'returns to the caller')
        consts = [6364136223846793005, 9298411001130361340, 12065312585734608966, 9306329213124626780, 5281919268842080866, 10536153434571861004, 3398623926847679864, 9549104520008361294]
        B = lambda v: z3.BitVecVal(v, 64)
        rr = [(item + 1) * B(consts[0])]; rr += [rr[0] ^ B(c) for c in consts[1:]]; ci = item; ri = 0
        for k, (ins, ar) in enumerate(plans):
            off = (ci & (CACHE // 64 - 1)) * 64
            for j, (kd, d, s_) in enumerate(ins):
                imm, mo = imms[(k, j)]
                if kd == 'IMUL_RCP': rv = rcps[ri]; ri += 1
                else: rv = None
                rr = list(rr); rr[d] = spec_ss(kd, rr, d, s_, imm, mo, rv)
            mine = loads[8 * k:8 * k + 8]
            okl = len(mine) == 8 and all(nb_ == 8 for (_, nb_, _) in mine); q.n += 1; q.unsat += okl; q.sat += (not okl)
            if not okl: q.failed.append(('%s: program %d: does not read 8 words of one cache line' % (tag, k), {})); return
            for w, (aoff, nb_, sym) in enumerate(mine): q.prove_eq(pc, aoff, off + 8 * w, '%s: program %d: cache word %d read at 64*(cacheIndex mod lines)+%d' % (tag, k, w, 8 * w), 64)
            rr = [rr[w] ^ mine[w][2] for w in range(8)]; ci = rr[ar]
        for w in range(8): q.prove_eq(pc, mem.load(Ptr('out', 8 * w), 8), rr[w], '%s: output word %d == spec 7.3' % (tag, w), 64)
        chk(len(loads) == 8 * NP, 'exactly %d cache words read' % (8 * NP))
        for r_ in range(31):
            if r_ in (0, 1, 2, 30, 20): continue      # x20 is the emitters' scratch register: randomx_init_dataset_aarch64 saves it around the call, the light-mode loop redefines it after the call
            v1 = m.x[r_]; same = (not isinstance(v1, Ptr)) and (not is_c(v1)) and v1.eq(entry[r_])
            if not same and r_ <= 13: q.prove_eq(pc, v1, entry[r_], '%s: x%d restored' % (tag, r_), 64)
            elif not same: chk(False, 'x%d changed' % r_)
        chk(isinstance(m.sp, Ptr) and m.sp.obj == 'stack' and m.sp.off == STK, 'stack pointer restored')
        for (kd, obj, off_, nb) in m.accesses:
            if obj == 'stack': chk(is_c(off_) and (m.min_sp if getattr(m, 'min_sp', None) is not None else STK) <= off_ and off_ + nb <= STK, 'stack access between the lowest stack pointer of the call and the entry stack pointer (%s)' % off_)
            elif obj not in ('code', 'cachemem', 'out'): chk(False, 'access to object %s' % obj)
            elif obj == 'code' and kd == 'store': chk(False, 'store into the code buffer')
        extent_checks(q, pc, mem, tag)
    res, nq = explore(one, limit=64); q.n += nq
    return result('N5', tag, q, paths=npaths[0], detail='%d paths; programs %s' % (npaths[0], [[i_[0] for i_ in p_[0]] for p_ in plans][:3]))

def jobs_N5(ctx):
    from lemmas.sshash import KINDS
    J = [dict(variant=v, len=(2 if ctx['tier'] == 'quick' else 4)) for v in (range(4) if ctx['tier'] == 'quick' else range(16))]
    for n_, kd in enumerate(KINDS):
        for (d, s_, pk) in (((n_ % 8, (n_ + 3) % 8, n_ % 8),) if ctx['tier'] == 'quick' else tuple((d, (d + 1 + n_) % 8, (d + n_) % 8) for d in range(8))):
            J.append(dict(variant=0, len=1, single=(kd, d, s_, pk)))
    return J
LEMMAS['N5'] = dict(jobs=jobs_N5, run=run_N5, units=['a64'], a64=True,
    functions=['JitCompilerA64::generateSuperscalarHash', 'emitAddImmediate', 'emitMovImmediate', 'assembled templates: randomx_calc_dataset_item_aarch64 (prologue, prefetch, mix, store_result)'],
    doc='the dataset-item function the ARM64 back-end generates (templates of the runtime + code emitted for a SuperscalarHash program list + literal pools), executed under the A64 model for a symbolic cache and item number == specification 7.3 with the instruction semantics of 6.1; reads exactly one cache line per program at 64*(cacheIndex mod lines), writes the 64 output bytes, restores registers (x20 is scratch) and sp',
    bound='(a) program lists of 8 programs x 2 (quick) / 4 instructions drawn from all 14 kinds (4 / 16 variants), reciprocals symbolic, immediates and shifts concrete representatives of every materialisation class; (b) every kind alone in one program with an unconstrained immediate (1 / 8 register choices); any cache content and item number', symbolic='cache (cut points), item number, immediates, reciprocals, entry registers, stack content',
    stubs=['cache words := fresh symbols at recorded addresses', 'A64 semantics: engine/a64sem.py'], outside='- (the loop around the call is N6)')
