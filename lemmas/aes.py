# AES lemmas A1..A5 (C12, C01, C02): soft_aes.cpp tables/rounds vs FIPS-197, aes_hash.cpp compositions vs spec ch.3
import z3, time, re
from lemmas.common import *
from engine.irsym import Module, Interp, Ptr, is_c, bv, resolve, NamedT, explore
from spec import aes_ref as ref

UNITS = {
    'soft_aes': dict(src='src/soft_aes.cpp', inline=False),
    'aes_hash': dict(src='src/aes_hash.cpp', inline=False),
}
B8 = z3.BitVecSort(8); B64 = z3.BitVecSort(64); B128 = z3.BitVecSort(128)

def mux(vals, x):
    """constant 256-entry table as a balanced multiplexer tree over the bits of the 8-bit index x"""
    def rec(lo, n, bit):
        if n == 1: return z3.BitVecVal(vals[lo], 8)
        h = n // 2; return z3.If(z3.Extract(bit, bit, x) == 1, rec(lo + h, h, bit - 1), rec(lo, h, bit - 1))
    return rec(0, 256, 7)

def table_from_ir(it, name):
    """[4][256] uint32 table read from the global's initialiser in the current IR"""
    p = it.glob(name); o = it.mem.objs[p.obj]
    if o['size'] != 4096: raise Exception('table %s has size %d' % (name, o['size']))
    return [[it.mem.load(Ptr(p.obj, 1024 * i + 4 * x), 4) for x in range(256)] for i in range(4)]

def table_forms(q, T, inv, tname):
    """A1: for each table i and byte position k find the GF(2^8) constant c with  forall x: byte_k(T[i][x]) == c * S[x]
    (S = FIPS-197 S-box resp. inverse S-box), each candidate decided by an 8-bit solver query over constant arrays"""
    x = z3.BitVec('x', 8); S = mux(ref.ISBOX if inv else ref.SBOX, x)
    forms = []
    for i in range(4):
        row = []
        for k in range(4):
            A = mux([(T[i][v] >> (8 * k)) & 0xff for v in range(256)], x)
            found = None
            for c in ((14, 9, 13, 11) if inv else (2, 1, 3)):
                sol = z3.Solver(); sol.add(A != ref.gm(S, c)); t = time.time(); r = sol.check(); q.solver_s += time.time() - t; q.n += 1
                if r == z3.unsat: found = c; q.unsat += 1; break
                q.sat_ignored = getattr(q, 'sat_ignored', 0) + 1
            if found is None:
                q.sat += 1; q.failed.append(('%s[%d] byte %d is not a GF(2^8) multiple {%s} of the FIPS-197 %sS-box for every index' % (tname, i, k, '9,11,13,14' if inv else '1,2,3', 'inverse ' if inv else ''), {}))
            else: q.proved.append('%s[%d] byte %d == %d*S[x] for all x' % (tname, i, k, found))
            row.append(found)
        forms.append(row)
    return forms

def run_A1(ctx, case):
    q = Q(60); mod = Module(ctx['ll']['soft_aes']); it = Interp(mod)
    fe = table_forms(q, table_from_ir(it, 'randomx_aes_lut_enc'), False, 'randomx_aes_lut_enc')
    fd = table_forms(q, table_from_ir(it, 'randomx_aes_lut_dec'), True, 'randomx_aes_lut_dec')
    # the column structure: table i is table 0 rotated by i bytes (what the T-table method needs)
    for nm, f in (('enc', fe), ('dec', fd)):
        for i in range(1, 4):
            ok = all(f[i][k] == f[0][(k - i) % 4] for k in range(4)); q.n += 1; q.unsat += ok; q.sat += (not ok)
            if not ok: q.failed.append(('lut_%s[%d] is not lut_%s[0] rotated by %d bytes' % (nm, i, nm, i), {}))
    return result('A1', 'tables', q, paths=1, detail='enc forms %s dec forms %s' % (fe, fd))

def lut_handler(it, q, tname, forms, inv):
    """summary of a load from a LUT at a symbolic index, justified by A1: value = columns of c*S(x)"""
    SU = ref.IS_UF if inv else ref.S_UF
    def h(off, nbytes):
        assert nbytes == 4
        off = bv(off, 64); i = None
        for cand in range(4):
            sol = z3.Solver(); sol.add(z3.Not(z3.And(z3.UGE(off, 1024 * cand), z3.ULT(off, 1024 * cand + 1024), off & 3 == 0))); q.n += 1
            if sol.check() == z3.unsat: i = cand; q.unsat += 1; break
        if i is None: raise Exception('LUT access not confined to one table')
        x = z3.Extract(9, 2, off); s = SU(x)
        return z3.Concat(*[ref.gm(s, forms[i][k]) for k in reversed(range(4))])
    return h

def v128_bytes(lanes):
    """<2 x i64> -> 16 byte terms"""
    out = []
    for l in lanes:
        l = bv(l, 64); out += [z3.Extract(8 * k + 7, 8 * k, l) for k in range(8)]
    return out

def run_A2(ctx, case):
    q = Q(60); mod = Module(ctx['ll']['soft_aes']); inv = case == 'dec'
    it = Interp(mod); tn = 'randomx_aes_lut_dec' if inv else 'randomx_aes_lut_enc'
    forms = table_forms(Q(60), table_from_ir(it, tn), inv, tn)
    if any(c is None for r in forms for c in r):
        q.failed.append(('table form (A1) does not hold, round not comparable', {})); q.sat += 1; q.n += 1
        return result('A2', case, q, paths=1)
    it.mem.symload[it.glob(tn).obj] = lut_handler(it, q, tn, forms, inv)
    st = [z3.BitVec('st%d' % i, 64) for i in range(2)]; key = [z3.BitVec('key%d' % i, 64) for i in range(2)]
    out = it.call(mod.find('soft_aesdec' if inv else 'soft_aesenc') if False else [f for f in mod.funcs if ('soft_aesdec' if inv else 'soft_aesenc') in f][0], [st, key])
    got = v128_bytes(out); exp = (ref.aesdec if inv else ref.aesenc)(v128_bytes(st), v128_bytes(key))
    for i in range(16):
        g = z3.simplify(got[i] != exp[i])
        if z3.is_false(g): q.n += 1; q.unsat += 1; q.proved.append('byte %d' % i)
        else: q.check([], g, 'soft_aes%s output byte %d == FIPS-197 %sround (AES%s data flow)' % (case, i, 'inverse ' if inv else '', case.upper()))
    return result('A2', case, q, paths=1, steps=it.steps, detail='%d IR steps; all 2^256 (state,key); table loads summarised by A1' % it.steps)

# ---------------------------------------------------------------- A5 compositions with abstract rounds
ENC = z3.Function('aesenc', B128, B128, B128); DEC = z3.Function('aesdec', B128, B128, B128)
def v128(x):
    if all(is_c(l) for l in x): return z3.BitVecVal(x[0] | (x[1] << 64), 128)
    return z3.Concat(bv(x[1], 64), bv(x[0], 64))
def lanes(t): return [z3.Extract(63, 0, t), z3.Extract(127, 64, t)]
def cval(v): return z3.BitVecVal(v, 128) if is_c(v) else v
def enc(a, k): return ENC(cval(a), cval(k))
def dec(a, k): return DEC(cval(a), cval(k))

def bind_rounds(it, mod, soft, trace):
    tag = 'ILb1EE' if soft else 'ILb0EE'
    for f in mod.funcs:
        if f.startswith('_Z6aesenc' + tag): it.hooks[f] = (lambda s, a: (trace.append('enc'), lanes(ENC(v128(a[0]), v128(a[1]))))[1])
        if f.startswith('_Z6aesdec' + tag): it.hooks[f] = (lambda s, a: (trace.append('dec'), lanes(DEC(v128(a[0]), v128(a[1]))))[1])

def fn_of(mod, base, soft):
    c = [f for f in mod.funcs if base in f and ('ILb1EE' if soft else 'ILb0EE') in f and not f.startswith('_Z6aes')]
    if len(c) != 1: raise Exception('cannot resolve %s<%s>: %s' % (base, soft, c))
    return c[0]

def check_bytes(q, pc, it, obj, base, exp128, name):
    """16 bytes at obj+base equal the 128-bit term"""
    got = it.mem.load(Ptr(obj, base), 16) if False else z3.Concat(bv(it.mem.load(Ptr(obj, base + 8), 8), 64), bv(it.mem.load(Ptr(obj, base), 8), 64))
    e = cval(exp128)
    if got.eq(e): q.n += 1; q.unsat += 1; return
    g = z3.simplify(got != e)
    if z3.is_false(g): q.n += 1; q.unsat += 1; return
    q.check(pc, g, name)

def run_A5(ctx, case):
    kind, soft, n = case['kind'], case['soft'], case['n']
    q = Q(60); mod = Module(ctx['ll']['aes_hash']); it = Interp(mod); trace = []
    bind_rounds(it, mod, soft, trace)
    size = 64 * n
    S0 = [z3.BitVec('s%d' % i, 128) for i in range(4)]
    tag = '%s<%s>(n=%d)' % (kind, 'soft' if soft else 'hard', n)
    if kind in ('fill1R', 'fill4R'):
        state = it.mem.alloc(64, 'state'); buf = it.mem.alloc(size + 128, 'buf')
        for i in range(4):
            l = lanes(S0[i]); it.mem.store(Ptr('state', 16 * i), l[0], 8); it.mem.store(Ptr('state', 16 * i + 8), l[1], 8)
        guard = [z3.BitVec('g%d' % i, 8) for i in range(size + 128)]
        for i in range(size + 128): it.mem.store(Ptr('buf', i), guard[i], 1)
        it.call(fn_of(mod, 'fillAes1Rx4' if kind == 'fill1R' else 'fillAes4Rx4', soft), [state, size, Ptr('buf', 64)])
        outs, fin = (ref.gen1r if kind == 'fill1R' else ref.gen4r)(S0, n, enc, dec)
        for b in range(n):
            for i in range(4): check_bytes(q, [], it, 'buf', 64 + 64 * b + 16 * i, outs[b][i], tag + ' output block %d lane %d' % (b, i))
        for i in list(range(64)) + list(range(64 + size, size + 128)):          # nothing outside [buffer, buffer+size)
            v = it.mem.load(Ptr('buf', i), 1); ok = (not is_c(v)) and v.eq(guard[i]); q.n += 1; q.unsat += ok; q.sat += (not ok)
            if not ok: q.failed.append((tag + ': byte %d outside the output window was written' % (i - 64), {}))
        if kind == 'fill1R':                                                   # state written back (spec 3.2: generator can be continued)
            for i in range(4): check_bytes(q, [], it, 'state', 16 * i, fin[i], tag + ' final state lane %d' % i)
        else:
            for i in range(4): check_bytes(q, [], it, 'state', 16 * i, S0[i], tag + ' state object untouched lane %d' % i)
    elif kind == 'hash1R':
        inp = it.mem.alloc(max(size, 1), 'inp'); h = it.mem.alloc(64, 'hash')
        blocks = [[z3.BitVec('in%d_%d' % (b, i), 128) for i in range(4)] for b in range(n)]
        for b in range(n):
            for i in range(4):
                l = lanes(blocks[b][i]); it.mem.store(Ptr('inp', 64 * b + 16 * i), l[0], 8); it.mem.store(Ptr('inp', 64 * b + 16 * i + 8), l[1], 8)
        it.call(fn_of(mod, 'hashAes1Rx4', soft), [inp, size, h])
        exp = ref.hash1r(blocks, enc, dec)
        for i in range(4): check_bytes(q, [], it, 'hash', 16 * i, exp[i], tag + ' hash lane %d' % i)
    else:   # hashAndFill(buf, seed) == (hash1R(buf), fill1R(seed)) incl. the two-phase loop
        sp = it.mem.alloc(size + 128, 'sp'); h = it.mem.alloc(64, 'hash'); fs = it.mem.alloc(64, 'fill_state')
        guard = [z3.BitVec('g%d' % i, 8) for i in range(size + 128)]
        for i in list(range(64)) + list(range(64 + size, size + 128)): it.mem.store(Ptr('sp', i), guard[i], 1)
        blocks = [[z3.BitVec('in%d_%d' % (b, i), 128) for i in range(4)] for b in range(n)]
        for b in range(n):
            for i in range(4):
                l = lanes(blocks[b][i]); it.mem.store(Ptr('sp', 64 + 64 * b + 16 * i), l[0], 8); it.mem.store(Ptr('sp', 64 + 64 * b + 16 * i + 8), l[1], 8)
        for i in range(4):
            l = lanes(S0[i]); it.mem.store(Ptr('fill_state', 16 * i), l[0], 8); it.mem.store(Ptr('fill_state', 16 * i + 8), l[1], 8)
        it.call(fn_of(mod, 'hashAndFillAes1Rx4', soft), [Ptr('sp', 64), size, h, fs])
        exph = ref.hash1r(blocks, enc, dec); outs, fin = ref.gen1r(S0, n, enc, dec)
        for i in range(4): check_bytes(q, [], it, 'hash', 16 * i, exph[i], tag + ' fingerprint lane %d == AesHash1R of the old content' % i)
        for b in range(n):
            for i in range(4): check_bytes(q, [], it, 'sp', 64 + 64 * b + 16 * i, outs[b][i], tag + ' refilled block %d lane %d == AesGenerator1R' % (b, i))
        for i in range(4): check_bytes(q, [], it, 'fill_state', 16 * i, fin[i], tag + ' generator state written back lane %d' % i)
        for i in list(range(64)) + list(range(64 + size, size + 128)):
            v = it.mem.load(Ptr('sp', i), 1); ok = (not is_c(v)) and v.eq(guard[i]); q.n += 1; q.unsat += ok; q.sat += (not ok)
            if not ok: q.failed.append((tag + ': byte %d outside the scratchpad was written' % (i - 64), {}))
    return result('A5', tag, q, paths=1, steps=it.steps, detail='%d IR steps, %d round calls (%s)' % (it.steps, len(trace), 'soft_aes' if soft else 'AES-NI intrinsic'))

def jobs_A5(ctx):
    quick = ctx['tier'] == 'quick'; J = []
    for soft in (True, False):
        for kind, ns in (('fill1R', [0, 1, 3] if quick else [0, 1, 2, 3, 70]), ('fill4R', [0, 1, 2] if quick else [0, 1, 2, 34]),
                         ('hash1R', [0, 1, 3] if quick else [0, 1, 2, 3, 70]), ('hashAndFill', [64, 65, 67] if quick else [64, 65, 66, 67, 70, 128, 200])):
            for n in ns: J.append(dict(kind=kind, soft=soft, n=n))
    return J

def run_A3(ctx, case):
    """hard-AES instantiations reach the AES-NI intrinsics with (state, key) in this order"""
    q = Q(10); mod = Module(ctx['ll']['aes_hash']); seen = []
    for f in mod.funcs:
        if f.startswith('_Z6aesencILb0EE') or f.startswith('_Z6aesdecILb0EE'):
            it = Interp(mod); a = [z3.BitVec('a%d' % i, 64) for i in range(2)]; k = [z3.BitVec('k%d' % i, 64) for i in range(2)]
            it.intr_hooks['llvm.x86.aesni.aesenc'] = lambda s, args: (seen.append(('enc', args)), lanes(ENC(v128(args[0]), v128(args[1]))))[1]
            it.intr_hooks['llvm.x86.aesni.aesdec'] = lambda s, args: (seen.append(('dec', args)), lanes(DEC(v128(args[0]), v128(args[1]))))[1]
            r = it.call(f, [a, k]); want = 'enc' if 'aesenc' in f else 'dec'
            exp = (ENC if want == 'enc' else DEC)(v128(a), v128(k))
            q.prove_eq([], v128(r), exp, '%s<false>(state,key) == AES%s intrinsic(state,key)' % (want, want.upper()), 128)
        if f.startswith('_Z6aesencILb1EE') or f.startswith('_Z6aesdecILb1EE'):
            it = Interp(mod); a = [z3.BitVec('a%d' % i, 64) for i in range(2)]; k = [z3.BitVec('k%d' % i, 64) for i in range(2)]
            for g, F in (('soft_aesenc', ENC), ('soft_aesdec', DEC)):
                it.hooks['_Z11%sDv2_xS_' % g] = (lambda F: lambda s, args: lanes(F(v128(args[0]), v128(args[1]))))(F)
            r = it.call(f, [a, k]); want = ENC if 'aesenc' in f else DEC
            q.prove_eq([], v128(r), want(v128(a), v128(k)), '%s == soft round(state,key)' % f, 128)
    if q.n < 4: q.failed.append(('aesenc/aesdec template instantiations not found', {})); q.sat += 1
    return result('A3', 'dispatch', q, paths=4)

LEMMAS = {
    'A1': dict(jobs=lambda ctx: ['tables'], run=run_A1, units=['soft_aes'], functions=['randomx_aes_lut_enc', 'randomx_aes_lut_dec (initialisers)'],
               doc='every entry of the 8 lookup tables is the FIPS-197 MixColumns/InvMixColumns column of the (inverse) S-box value, table i = table 0 rotated by i bytes',
               bound='all 8x256 entries (8-bit symbolic index per table byte)', symbolic='table index', stubs=[]),
    'A2': dict(jobs=lambda ctx: ['enc', 'dec'], run=run_A2, units=['soft_aes'], functions=['soft_aesenc', 'soft_aesdec', 'rx_vec_i128_x/y/z/w'],
               doc='soft_aesenc / soft_aesdec == one FIPS-197 round / inverse round in AESENC/AESDEC data flow', bound='all 2^256 (state, key)', symbolic='state, key',
               stubs=['table load at symbolic index := column expression proved by A1 over S-box as uninterpreted function']),
    'A3': dict(jobs=lambda ctx: ['dispatch'], run=run_A3, units=['aes_hash'], functions=['aesenc<false>', 'aesdec<false>', 'aesenc<true>', 'aesdec<true>'],
               doc='template dispatch: <false> reaches the AES-NI intrinsic and <true> the soft round, with (state,key) in order', bound='all inputs', symbolic='state,key', stubs=['AESENC/AESDEC intrinsic == FIPS round (Intel SDM, trusted)']),
    'A5': dict(jobs=jobs_A5, run=run_A5, units=['aes_hash'], functions=['fillAes1Rx4<0/1>', 'fillAes4Rx4<0/1>', 'hashAes1Rx4<0/1>', 'hashAndFillAes1Rx4<0/1>'],
               doc='generators/fingerprint/combined step == spec 3.2-3.4 over abstract rounds: lanes, enc/dec pattern, keys, output bytes, written-back state, nothing outside the buffer; hashAndFill == (hash1R(old), fill1R(seed)) across the 4096-byte prefetch split',
               bound='sizes 64*n, n in {0,1,3} (quick) / up to 70, hashAndFill n in {64,65,67} (quick) / up to 200', symbolic='seed state, buffer contents', stubs=['aesenc<>/aesdec<> := uninterpreted functions (A2/A3)'],
               outside='sizes beyond the bound (loop body is size independent)'),
}

# ---------------------------------------------------------------- A4: the soft-AES round routines of the JIT (assembly) under x86sem
def run_A4(ctx, case):
    from engine import x86sem
    from engine.irsym import Mem
    inv = case == 'dec'; q = Q(60); mod = Module(ctx['ll']['soft_aes']); it0 = Interp(mod)
    tn = 'randomx_aes_lut_dec' if inv else 'randomx_aes_lut_enc'
    forms = table_forms(Q(60), table_from_ir(it0, tn), inv, tn)
    if any(c is None for r in forms for c in r):
        q.failed.append(('table form (A1) does not hold', {})); q.sat += 1; q.n += 1; return result('A4', case, q, paths=1)
    syms, text = ctx['asm']['syms'], ctx['asm']['text']
    a = syms['soft_aes_dec' if inv else 'soft_aes_enc']; b = syms['randomx_program_soft_aes_end'] if inv else syms['soft_aes_dec']
    base = syms['soft_aes_enc']; lut_cell = syms['aes_lut_dec' if inv else 'aes_lut_enc']
    mem = Mem(); total = syms['aes_lut_dec'] + 8 - base
    mem.alloc(total + 16, 'xcode')
    for k in range(total): mem.store(Ptr('xcode', k), text[base + k], 1)
    mem.alloc(4096, 'lut'); mem.store(Ptr('xcode', lut_cell - base), Ptr('lut', 0), 8)       # the JIT patches the table address into this cell (emit64 after the routines)
    class FakeIt: pass
    mem.symload['lut'] = lut_handler(None, q, tn, forms, inv)
    mem.alloc(64, 'state'); mem.alloc(64, 'key'); mem.alloc(64, 'stack'); mem.store(Ptr('stack', 32), Ptr('caller', 0), 8)
    st = [z3.BitVec('st%d' % i, 64) for i in range(2)]; ky = [z3.BitVec('key%d' % i, 64) for i in range(2)]
    for i in range(2): mem.store(Ptr('state', 8 * i), st[i], 8); mem.store(Ptr('key', 8 * i), ky[i], 8)
    m = x86sem.Machine(mem, 'xcode')
    for r_ in range(16): m.gpr[r_] = z3.BitVec('g%d' % r_, 64)
    keep = {r_: m.gpr[r_] for r_ in range(8, 16)}
    m.gpr[7] = Ptr('state', 0); m.gpr[6] = Ptr('key', 0); m.gpr[4] = Ptr('stack', 32)
    try:
        r = m.run(a - base, max_steps=200)
    except (x86sem.Fault, OOB) as e:      # Undecodable = limitation of the x86 model: propagates, the job is INCONCLUSIVE (never a violation)
        q.n += 1; q.sat += 1; q.failed.append(('soft_aes_%s routine does not execute: %s' % (case, e), {})); return result('A4', case, q, paths=1)
    ok = r[0] == 'ret' and isinstance(r[1], Ptr) and r[1].obj == 'caller'; q.n += 1; q.unsat += ok; q.sat += (not ok)
    if not ok: q.failed.append(('routine does not return to its caller', {}))
    got = v128_bytes([mem.load(Ptr('state', 0), 8), mem.load(Ptr('state', 8), 8)])
    exp = (ref.aesdec if inv else ref.aesenc)(v128_bytes(st), v128_bytes(ky))
    for i in range(16):
        g = z3.simplify(got[i] != exp[i])
        if z3.is_false(g): q.n += 1; q.unsat += 1
        else: q.check([], g, 'soft_aes_%s (assembly): state byte %d == FIPS-197 %sround' % (case, i, 'inverse ' if inv else ''))
    bad = [x for x in m.written_gpr if x not in (0, 1, 2, 3, 4, 5, 6)]; q.n += 1; q.unsat += (not bad); q.sat += bool(bad)
    if bad: q.failed.append(('routine clobbers registers %s beyond rax,rbx,rcx,rdx,rbp,rsi (which the loop-store template saves)' % bad, {}))
    ok = isinstance(m.gpr[7], Ptr) and m.gpr[7].obj == 'state' and m.gpr[7].off == 0 and isinstance(m.gpr[4], Ptr) and m.gpr[4].off == 40; q.n += 1; q.unsat += ok; q.sat += (not ok)
    if not ok: q.failed.append(('rdi / rsp not preserved', {}))
    for i in range(2): q.prove_eq([], mem.load(Ptr('key', 8 * i), 8), ky[i], 'soft_aes_%s: key block unchanged (word %d)' % (case, i), 64)
    for (kd, obj, off, nb) in m.accesses:
        if obj not in ('state', 'key', 'lut', 'xcode', 'stack'): q.failed.append(('access to %s' % obj, {})); q.sat += 1
    extent_checks(q, [], mem, 'soft_aes_%s' % case)
    return result('A4', case, q, paths=1, steps=m.steps, detail='%d x86 instructions' % m.steps)

LEMMAS['A4'] = dict(jobs=lambda ctx: ['enc', 'dec'], run=run_A4, units=['soft_aes'], asm=True, functions=['program_soft_aes_enc.inc', 'program_soft_aes_dec.inc (assembled)', 'randomx_aes_lut_enc/dec'],
    doc='the JIT\'s soft-AES round routines == one FIPS-197 round / inverse round on [rdi] with round key [rsi] for all 2^256 inputs; clobber only rax,rbx,rcx,rdx,rbp,rsi; return to the caller (the contract J3 assumes)',
    bound='all (state, key)', symbolic='state, key, registers', stubs=['x86sem', 'table load := column expression proved by A1 over the S-box UF'])
