# I8: one iteration of the real InterpretedVm::execute loop (loop-body extraction) vs spec 4.6.2, plus loop entry (4.6.1) and exit;
# full-memory and light dataset reads (D3).  (C02 C05 C06 C01 C08 C14)
import z3, time, re, os
from lemmas.common import *
from lemmas.isa import flag_v2
from engine.irsym import Module, Interp, Ptr, is_c, bv, resolve, NamedT, explore, OOB, BackEdge, find_loop_header, i2d, Unsupported
from engine import build, cxxlib
from spec import params as P, vm_ref as V

UNITS = {'vmi': dict(link=[dict(src='src/vm_interpreted.cpp', inline=False), dict(src='src/vm_interpreted_light.cpp', inline=False), dict(src='src/virtual_machine.cpp', inline=False)])}
AENC = z3.Function('aesenc', z3.BitVecSort(128), z3.BitVecSort(128), z3.BitVecSort(128)); ADEC = z3.Function('aesdec', z3.BitVecSort(128), z3.BitVecSort(128), z3.BitVecSort(128))
DSI = [z3.Function('item_word%d' % k, z3.BitVecSort(64), z3.BitVecSort(64)) for k in range(8)]      # light mode: word k of dataset item n (D1 decides its value)

def v128(x): return z3.Concat(bv(x[1], 64), bv(x[0], 64))
def lanes(t): return [z3.Extract(63, 0, t), z3.Extract(127, 64, t)]

def cls_name(mod, light, soft):
    pat = ('InterpretedLightVm' if light else 'InterpretedVm') + 'INS_16AlignedAllocatorILm64EEELb%dEE' % (1 if soft else 0)
    c = [g for g in mod.globals if g.startswith('_ZTVN7randomx') and pat in g and (light or 'Light' not in g)]
    if len(c) != 1: raise Exception('vtable for %s not found: %s' % (pat, c))
    return c[0], pat

def run_I8(ctx, case):
    light, soft = case['light'], case['soft']; q = Q(90); mod = Module(ctx['ll']['vmi']); V2 = flag_v2(); npaths = [0]; kinds = []
    vt, pat = cls_name(mod, light, soft)
    EXECUTE = [f for f in mod.funcs if f.endswith('7executeEv') and ('InterpretedVm' + pat.split('Vm', 1)[1]) in f and 'Light' not in f]
    EXECUTE = [f for f in mod.funcs if f == '_ZN7randomx13InterpretedVm' + pat.split('Vm', 1)[1] + '7executeEv']
    if len(EXECUTE) != 1: raise Exception('execute() not found')
    EXECUTE = EXECUTE[0]; hdr = find_loop_header(mod.funcs[EXECUTE])
    tvm = resolve(NamedT('class.randomx_vm', mod)); ov = tvm.layout()[0]
    # randomx_vm: { vptr, pad, Program, RegisterFile, ProgramConfiguration, MemoryRegisters, scratchpad*, union ptr, datasetOffset, vmFlags, cacheKey, tempHash }
    O = dict(reg=ov[3], cfg=ov[4], mem=ov[5], spp=ov[6], cptr=ov[7], dsoff=ov[8], flags=ov[9])
    tm = resolve(NamedT('struct.randomx::MemoryRegisters', mod)).layout()[0]
    flagsym = z3.BitVec('vmFlags', 32)
    def one(fk):
        it = Interp(mod); it.fork = fk; cxxlib.install(it)
        VMSIZE = 1 << 16
        vm = it.mem.alloc(VMSIZE, 'vm'); sp = it.mem.mkarr('sp', P.L3); S0 = it.mem.objs['sp']['arr']
        it.mem.store(Ptr('vm', 0), Ptr(it.glob(vt).obj, 16), 8)          # vptr -> first virtual slot of the real vtable of this class
        it.mem.store(Ptr('vm', O['spp']), sp, 8); it.mem.store(Ptr('vm', O['flags']), flagsym, 4)
        rr = [z3.BitVec('readReg%d' % i, 32) for i in range(4)]; qm = [z3.BitVec('q%d' % (14 + i), 64) for i in range(2)]
        for i in range(4): it.mem.store(Ptr('vm', O['cfg'] + 16 + 4 * i), rr[i], 4); fk['pc'].append(z3.Or(rr[i] == 2 * i, rr[i] == 2 * i + 1))
        for i in range(2): it.mem.store(Ptr('vm', O['cfg'] + 8 * i), V.emask_of(qm[i]), 8)
        mx0, ma0 = z3.BitVecs('mx_entry ma_entry', 32); dso = z3.BitVec('datasetOffset', 64)
        it.mem.store(Ptr('vm', O['mem'] + tm[0]), mx0, 4); it.mem.store(Ptr('vm', O['mem'] + tm[1]), ma0, 4); it.mem.store(Ptr('vm', O['dsoff']), dso, 8)
        fk['pc'] += [z3.ULE(dso, P.DATASET_EXTRA), dso & 63 == 0]                                  # established by I7
        if light:
            cache = it.mem.alloc(64, 'cacheobj'); it.mem.share('cacheobj'); it.mem.store(Ptr('vm', O['cptr']), cache, 8); it.mem.store(Ptr('vm', O['mem'] + tm[2]), Ptr('cachemem', 0), 8)
            def idi(s, a):      # initDatasetItem(cache, out, itemNumber)
                ok = isinstance(a[0], Ptr) and a[0].obj == 'cacheobj'
                ev.append(('initDatasetItem', a[2], ok))
                for k in range(8): s.mem.store(Ptr(a[1].obj, a[1].off + 8 * k), DSI[k](bv(a[2], 64)), 8)
                return None
            it.hooks['_ZN7randomx15initDatasetItemEP13randomx_cachePhm'] = idi
        else:
            ds = it.mem.mkarr('dataset', P.DATASET_BASE + P.DATASET_EXTRA); it.mem.store(Ptr('vm', O['mem'] + tm[2]), ds, 8); D0 = it.mem.objs['dataset']['arr']; it.mem.share('dataset')
        A = [[z3.BitVec('a%d_%d' % (i, l), 64) for l in range(2)] for i in range(4)]
        treg = resolve(NamedT('struct.randomx::RegisterFile', mod)).layout()[0]
        for i in range(4):
            for l in range(2): it.mem.store(Ptr('vm', O['reg'] + treg[3] + 16 * i + 8 * l), A[i][l], 8)
        ev = []; st = {}
        def compile_prog(s, a): st['nreg'] = a[3]; ev.append('compileProgram'); return None
        def execbc(s, a):
            nr = st['nreg']
            st['pre'] = dict(r=[s.mem.load(Ptr(nr.obj, nr.off + 8 * i), 8) for i in range(8)],
                             f=[[s.mem.load(Ptr(nr.obj, nr.off + 64 + 16 * i + 8 * l), 8) for l in range(2)] for i in range(4)],
                             e=[[s.mem.load(Ptr(nr.obj, nr.off + 128 + 16 * i + 8 * l), 8) for l in range(2)] for i in range(4)], sp=s.mem.objs['sp']['arr'],
                             args_ok=(isinstance(a[1], Ptr) and a[1].obj == 'sp' and a[2].obj == 'vm' and a[2].off == O['cfg']), flags=a[3])
            st['r2'] = [z3.BitVec('r2_%d' % i, 64) for i in range(8)]
            st['f2'] = [[z3.BitVec('f2_%d_%d' % (i, l), 64) for l in range(2)] for i in range(4)]; st['e2'] = [[z3.BitVec('e2_%d_%d' % (i, l), 64) for l in range(2)] for i in range(4)]
            for i in range(8): s.mem.store(Ptr(nr.obj, nr.off + 8 * i), st['r2'][i], 8)
            for i in range(4):
                for l in range(2): s.mem.store(Ptr(nr.obj, nr.off + 64 + 16 * i + 8 * l), st['f2'][i][l], 8); s.mem.store(Ptr(nr.obj, nr.off + 128 + 16 * i + 8 * l), st['e2'][i][l], 8)
            s.mem.objs['sp']['arr'] = z3.Array('sp_after_program', z3.BitVecSort(64), z3.BitVecSort(8)); st['sp2'] = s.mem.objs['sp']['arr']
            st['ma2'] = s.mem.load(Ptr('vm', O['mem'] + tm[1]), 4); st['mx2'] = s.mem.load(Ptr('vm', O['mem'] + tm[0]), 4)
            ev.append('executeBytecode'); return None
        for f in mod.funcs:
            if 'BytecodeMachine14compileProgram' in f: it.hooks[f] = compile_prog
            if 'BytecodeMachine15executeBytecode' in f: it.hooks[f] = execbc
            if f.startswith('_Z6aesencILb'): it.hooks[f] = lambda s, a: lanes(AENC(v128(a[0]), v128(a[1])))
            if f.startswith('_Z6aesdecILb'): it.hooks[f] = lambda s, a: lanes(ADEC(v128(a[0]), v128(a[1])))
        pf = []
        it.intr_hooks['llvm.prefetch'] = lambda s, a: pf.append(a[0]) and None
        sa0, sa1, ic = z3.BitVecs('spAddr0 spAddr1 ic', 32); R0 = [z3.BitVec('r%d' % i, 64) for i in range(8)]
        mx, ma = z3.BitVecs('mx ma', 32); entry = {}
        def on_enter(s, env, phis):
            nr = st.get('nreg')
            if nr is None: raise Unsupported('compileProgram not reached before the loop')
            # ---- 4.6.1: state at loop entry
            entry['r'] = [s.mem.load(Ptr(nr.obj, nr.off + 8 * i), 8) for i in range(8)]
            entry['a'] = [[s.mem.load(Ptr(nr.obj, nr.off + 192 + 16 * i + 8 * l), 8) for l in range(2)] for i in range(4)]
            entry['phis'] = dict(phis); rep = {}
            for n, v in phis.items():
                if not is_c(v) and v.eq(mx0): rep[n] = sa0; entry['sa0'] = True
                elif not is_c(v) and v.eq(ma0): rep[n] = sa1; entry['sa1'] = True
                elif is_c(v) and v == 0: rep[n] = ic; entry['ic'] = True
                else: raise Unsupported('unrecognised loop-carried value %s = %s' % (n, str(v)[:60]))
            for i in range(8): s.mem.store(Ptr(nr.obj, nr.off + 8 * i), R0[i], 8)
            s.mem.store(Ptr('vm', O['mem'] + tm[0]), mx, 4); s.mem.store(Ptr('vm', O['mem'] + tm[1]), ma, 4)
            fk['pc'] += [z3.ULT(ic, P.P['RANDOMX_PROGRAM_ITERATIONS'])]
            del pf[:]; ev.append('LOOP')
            return rep
        it.cut = {'fn': EXECUTE, 'header': hdr, 'on_enter': on_enter}
        try:
            it.call(EXECUTE, [vm]); kind = 'exit'; env = None
        except BackEdge as e: kind = 'backedge'; env = e.env
        npaths[0] += 1; kinds.append(kind); pc = fk['pc']; v2 = (flagsym & V2) != 0
        tag = '%s %s-AES %s' % ('light' if light else 'full', 'soft' if soft else 'hard', kind)
        def chk(c, what):
            q.n += 1; q.unsat += bool(c); q.sat += (not c)
            if not c: q.failed.append(('%s: %s' % (tag, what), {}))
        # ---- entry facts (4.6.1) -- checked on every path
        chk(all(is_c(x) and x == 0 for x in entry.get('r', [1])), '4.6.1: r0-r7 = 0 at loop entry')
        chk(entry.get('sa0') and entry.get('sa1') and entry.get('ic'), '4.6.1: spAddr0 = mx, spAddr1 = ma, ic counts from 0')
        for i in range(4):
            for l in range(2): q.prove_eq(pc, entry['a'][i][l], A[i][l], '%s: group A register a%d[%d] loaded from the register file' % (tag, i, l), 64)
        if 'pre' not in st: chk(False, 'program not executed in the iteration'); return
        # ---- spec 4.6.2 steps 1-3 (state handed to the program)
        sel = lambda regs, idx: V.mux(idx, regs)
        mix = sel(R0, rr[0]) ^ sel(R0, rr[1])
        A0 = (sa0 ^ z3.Extract(31, 0, mix)) & P.MASK_L3_64; A1 = (sa1 ^ z3.Extract(63, 32, mix)) & P.MASK_L3_64
        z64 = lambda v: z3.ZeroExt(32, v); ld = lambda arr, off: z3.Concat(*[z3.Select(arr, off + k) for k in reversed(range(8))])
        r1 = [R0[i] ^ ld(S0, z64(A0) + 8 * i) for i in range(8)]
        for i in range(8): q.prove_eq(pc, st['pre']['r'][i], r1[i], '%s: step 2: r%d ^= scratchpad[spAddr0 + %d]' % (tag, i, 8 * i), 64)
        for i in range(4):
            f_ = V.conv_F(ld(S0, z64(A1) + 8 * i)); e_ = V.conv_E(ld(S0, z64(A1) + 8 * (4 + i)), qm)
            for l in range(2):
                q.prove_eq(pc, st['pre']['f'][i][l], f_[l], '%s: step 3: f%d[%d] converted from scratchpad[spAddr1 + %d]' % (tag, i, l, 8 * i), 64)
                q.prove_eq(pc + [z3.Extract(21, 0, i2d(z3.Extract(31 + 32 * l, 32 * l, ld(S0, z64(A1) + 8 * (4 + i))))) == 0], st['pre']['e'][i][l], e_[l], '%s: step 3: e%d[%d] (4.3.2 conversion)' % (tag, i, l), 64)
        chk(st['pre']['args_ok'], 'step 4: program executed on this VM\'s scratchpad and configuration')
        q.prove_eq(pc, st['pre']['flags'], flagsym, '%s: step 4: program executed with the VM flags (v1/v2)' % tag, 32)
        chk(st['pre']['sp'].eq(S0), 'scratchpad untouched before the program runs')
        # ---- steps 5-8 (dataset)
        r2, f2, e2 = st['r2'], st['f2'], st['e2']; ma_ = bv(st['ma2'], 32); mx_ = bv(st['mx2'], 32)
        q.prove(pc, z3.And(ma_ == ma, mx_ == mx), '%s: ma/mx as at the start of the iteration' % tag)
        DM = z3.BitVecVal((P.DATASET_BASE - 1) & ~63, 32)
        mpn = z3.Extract(31, 0, sel(r2, rr[2]) ^ sel(r2, rr[3]))
        mp_new = z3.If(v2, ma ^ mpn, mx ^ mpn)                  # step 5: mp ^= low 32 bits of readReg2 ^ readReg3 (mp = mx in v1, ma in v2)
        read_addr = dso + z64(ma & DM)                          # step 7: mt = ma (saved before step 5)
        pre_addr = dso + z64(mp_new & DM)                       # step 6
        new_ma = z3.If(v2, mx, mp_new); new_mx = z3.If(v2, mp_new, ma)    # step 8: swap
        got_ma = bv(it.mem.load(Ptr('vm', O['mem'] + tm[1]), 4), 32); got_mx = bv(it.mem.load(Ptr('vm', O['mem'] + tm[0]), 4), 32)
        q.prove(pc, z3.And(got_ma & DM == new_ma & DM, got_mx & DM == new_mx & DM), '%s: steps 5,8: ma/mx after the iteration (address-relevant bits)' % tag)
        if light:
            items = [e for e in ev if isinstance(e, tuple) and e[0] == 'initDatasetItem']
            chk(len(items) == 1 and items[0][2], 'step 7: exactly one dataset item is computed from this VM\'s cache')
            if items:
                q.prove_eq(pc, bv(items[0][1], 64), z3.LShR(read_addr, 6), '%s: step 7 (light): item number = (datasetOffset + ma %% BASE) / 64' % tag, 64)
                dsw = [DSI[k](z3.LShR(read_addr, 6)) for k in range(8)]
        else:
            dsw = [ld(D0, read_addr + 8 * k) for k in range(8)]
            chk(len(pf) == 1 and isinstance(pf[0], Ptr) and pf[0].obj == 'dataset', 'step 6: one dataset prefetch')
            if len(pf) == 1: q.prove_eq(pc, bv(pf[0].off, 64), pre_addr, '%s: step 6: prefetch address = datasetOffset + mp %% BASE' % tag, 64)
        r3 = [r2[i] ^ dsw[i] for i in range(8)]
        # ---- steps 9-11 (stores), 10 (F/E mix)
        def mixfe():
            f1 = [v128(f2[i]) for i in range(4)]
            for i in range(4):
                k = v128(e2[i]); f1 = [AENC(f1[0], k), ADEC(f1[1], k), AENC(f1[2], k), ADEC(f1[3], k)]
            return f1
        fx = [v128([f2[i][0] ^ e2[i][0], f2[i][1] ^ e2[i][1]]) for i in range(4)]; fa = mixfe()
        fnew = [z3.If(v2, fa[i], fx[i]) for i in range(4)]
        exp = st['sp2']
        for i in range(8):
            for k in range(8): exp = z3.Store(exp, z64(A1) + 8 * i + k, z3.Extract(8 * k + 7, 8 * k, r3[i]))
        for i in range(4):
            for k in range(16): exp = z3.Store(exp, z64(A0) + 16 * i + k, z3.Extract(8 * k + 7, 8 * k, fnew[i]))
        j = z3.BitVec('j_any', 64)
        q.check(pc, z3.Select(it.mem.objs['sp']['arr'], j) != z3.Select(exp, j), '%s: steps 9,11: whole scratchpad after the iteration (r at spAddr1, then f at spAddr0)' % tag)
        nr = st['nreg']
        if kind == 'backedge':
            phis = entry['phis']; names = list(phis)
            for n in names:
                v0 = phis[n]
                if not is_c(v0) and (v0.eq(mx0) or v0.eq(ma0)): q.prove_eq(pc, env[n], 0, '%s: step 12: spAddr := 0 (%s)' % (tag, n), 32)
                else: q.prove_eq(pc, env[n], ic + 1, '%s: step 13: iteration counter advances by one' % tag, 32)
            for i in range(8): q.prove_eq(pc, it.mem.load(Ptr(nr.obj, nr.off + 8 * i), 8), r3[i], '%s: step 7: r%d after the dataset XOR' % (tag, i), 64)
            for i in range(4): q.prove_eq(pc, v128([it.mem.load(Ptr(nr.obj, nr.off + 64 + 16 * i + 8 * l), 8) for l in range(2)]), fnew[i], '%s: step 10: f%d after the F/E mix' % (tag, i), 128)
        else:
            q.prove(pc, ic == P.P['RANDOMX_PROGRAM_ITERATIONS'] - 1, '%s: the loop ends exactly after RANDOMX_PROGRAM_ITERATIONS iterations' % tag)
            for i in range(8): q.prove_eq(pc, it.mem.load(Ptr('vm', O['reg'] + 8 * i), 8), r3[i], '%s: register file r%d on exit' % (tag, i), 64)
            for i in range(4):
                q.prove_eq(pc, v128([it.mem.load(Ptr('vm', O['reg'] + treg[1] + 16 * i + 8 * l), 8) for l in range(2)]), fnew[i], '%s: register file f%d on exit' % (tag, i), 128)
                q.prove_eq(pc, v128([it.mem.load(Ptr('vm', O['reg'] + treg[2] + 16 * i + 8 * l), 8) for l in range(2)]), v128(e2[i]), '%s: register file e%d on exit' % (tag, i), 128)
        extent_checks(q, pc, it.mem, tag)
    res, nq = explore(one, limit=16); q.n += nq
    ok = 'backedge' in kinds and 'exit' in kinds; q.n += 1; q.unsat += ok; q.sat += (not ok)
    if not ok: q.failed.append(('loop-body extraction reached %s (expected a back edge and an exit)' % kinds, {}))
    return result('I8', '%s, %s AES' % ('light' if light else 'full', 'soft' if soft else 'hard'), q, paths=npaths[0], detail='paths %s' % kinds)

LEMMAS = {
    'I8': dict(jobs=lambda ctx: [dict(light=l, soft=s_) for l in (False, True) for s_ in (True, False)], run=run_I8, units=['vmi'],
               functions=['InterpretedVm::execute', 'InterpretedVm::datasetRead/datasetPrefetch', 'InterpretedLightVm::datasetRead', 'rx_cvt_packed_int_vec_f128', 'maskRegisterExponentMantissa', 'load64/store64'],
               doc='loop entry (4.6.1), one loop iteration from an arbitrary state (4.6.2 steps 1-13, both versions: flags symbolic) and loop exit of the real interpreter loop: address mixing and L3 masks, register loads/conversions, mp alias, prefetch/read addresses (light: item number), ma/mx swap, store order, v1 XOR / v2 AES mix, counter; all accesses inside scratchpad/dataset',
               bound='one iteration from an arbitrary loop state (covers every iteration count by induction); full and light dataset reads; soft and hard AES instantiations', symbolic='r0-r7, spAddr0/1, ic, ma/mx, readReg0-3, E masks, datasetOffset (<= extra size, from I7), scratchpad and dataset arrays, flags',
               stubs=['compileProgram := no-op, executeBytecode := arbitrary new r/f/e and scratchpad (I1 decides instructions)', 'aesenc<>/aesdec<> := uninterpreted (A2/A3)', 'initDatasetItem := uninterpreted item words (D1)', 'int->double := uninterpreted i2d with low22=0'],
               outside='ma/mx compared on address-relevant bits (they are only used modulo the dataset size)'),
}
