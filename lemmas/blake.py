# Blake2b lemmas B1..B6 (C11, C10, C02): real src/blake2/blake2b.c IR vs RFC 7693
import z3, time
from lemmas.common import *
from engine.irsym import Module, Interp, Ptr, is_c, bv, resolve, NamedT, explore, OOB
from spec import blake2b_ref as ref

UNITS = {
    'blake2b': dict(src='src/blake2/blake2b.c', inline=True),          # compress body (B1)
    'blake2b_ni': dict(src='src/blake2/blake2b.c', inline=False),      # call structure kept (B2..B6)
    'randomx_ni': dict(src='src/randomx.cpp', inline=False),
}
W64 = z3.BitVecSort(64)
FUF = [z3.Function('F%d' % i, *([W64] * 29)) for i in range(8)]   # compress as uninterpreted function of (h[8], m[16], t[2], f[2])

def layout(mod):
    t = resolve(NamedT('struct.__blake2b_state', mod)); o = t.layout()[0]
    return dict(h=o[0], t=o[1], f=o[2], buf=o[3], buflen=o[4], outlen=o[5], last=o[6], size=t.size())

def word(bytes8):
    if all(is_c(b) for b in bytes8): return sum(b << (8 * k) for k, b in enumerate(bytes8))
    return z3.Concat(*[bv(b, 8) for b in reversed(bytes8)])

def uf_compress(L):
    """hook for blake2b_compress: S->h := F_uf(S->h, block words, S->t, S->f)"""
    def hook(it, a):
        S, blk = a
        h = [it.mem.load(Ptr(S.obj, S.off + L['h'] + 8 * i), 8) for i in range(8)]
        t = [it.mem.load(Ptr(S.obj, S.off + L['t'] + 8 * i), 8) for i in range(2)]
        f = [it.mem.load(Ptr(S.obj, S.off + L['f'] + 8 * i), 8) for i in range(2)]
        m = [word([it.mem.load(Ptr(blk.obj, blk.off + 8 * i + k), 1) for k in range(8)]) for i in range(16)]
        args = [bv(x, 64) for x in h + m + t + f]
        it.trace.append(('compress', args))
        for i in range(8): it.mem.store(Ptr(S.obj, S.off + L['h'] + 8 * i), FUF[i](*args), 8)
        return None
    return hook

def ref_F(h, m, t, f):
    args = [bv(x, 64) for x in list(h) + list(m) + list(t) + list(f)]
    return [FUF[i](*args) for i in range(8)]

# ------------------------------------------------------------------ B1
def run_B1(ctx, case):
    q = Q(120); mod = Module(ctx['ll']['blake2b']); it = Interp(mod); L = layout(mod)
    S = it.mem.alloc(L['size'], 'S'); blk = it.mem.alloc(128, 'blk')
    h = [z3.BitVec('h%d' % i, 64) for i in range(8)]; t = [z3.BitVec('t%d' % i, 64) for i in range(2)]; f = [z3.BitVec('f%d' % i, 64) for i in range(2)]
    m = [z3.BitVec('m%d' % i, 64) for i in range(16)]
    for i in range(8): it.mem.store(Ptr('S', L['h'] + 8 * i), h[i], 8)
    for i in range(2): it.mem.store(Ptr('S', L['t'] + 8 * i), t[i], 8); it.mem.store(Ptr('S', L['f'] + 8 * i), f[i], 8)
    for i in range(16): it.mem.store(Ptr('blk', 8 * i), m[i], 8)
    snap = {k: it.mem.load(Ptr('S', L[k]), 4) for k in ('buflen', 'outlen')}
    it.call(mod.find('blake2b_compress'), [S, blk])
    out = [it.mem.load(Ptr('S', L['h'] + 8 * i), 8) for i in range(8)]
    spec = ref.F(h, m, t, f)
    for i in range(8):
        g = z3.simplify(bv(out[i], 64) != spec[i])          # term level (DESIGN 2: ARX miters are not bit-blasted)
        if z3.is_false(g): q.n += 1; q.unsat += 1; q.proved.append('h%d' % i)
        else: q.check([], g, 'compress output word h[%d] == RFC 7693 F' % i)
    # the rest of the state is untouched
    for i in range(2):
        q.prove_eq([], it.mem.load(Ptr('S', L['t'] + 8 * i), 8), t[i], 't[%d] unchanged' % i)
        q.prove_eq([], it.mem.load(Ptr('S', L['f'] + 8 * i), 8), f[i], 'f[%d] unchanged' % i)
    return result('B1', 'compress', q, paths=1, steps=it.steps, detail='blake2b_compress: %d IR steps; 8 output words vs RFC 7693 F for all h,t,f,block' % it.steps)

# ------------------------------------------------------------------ B2 update step
def _mkstate(it, L, buflen, name='S', f0=0):
    S = it.mem.alloc(L['size'], name)
    st = dict(h=[z3.BitVec('h%d' % i, 64) for i in range(8)], t=[z3.BitVec('t%d' % i, 64) for i in range(2)],
              buf=[z3.BitVec('b%d' % i, 8) for i in range(128)], f=[f0, z3.BitVec('f1', 64)], buflen=buflen,
              outlen=z3.BitVec('S_outlen', 32), last=z3.BitVec('last_node', 8))
    for i in range(8): it.mem.store(Ptr(name, L['h'] + 8 * i), st['h'][i], 8)
    for i in range(2): it.mem.store(Ptr(name, L['t'] + 8 * i), st['t'][i], 8); it.mem.store(Ptr(name, L['f'] + 8 * i), st['f'][i], 8)
    for i in range(128): it.mem.store(Ptr(name, L['buf'] + i), st['buf'][i], 1)
    it.mem.store(Ptr(name, L['buflen']), buflen, 4); it.mem.store(Ptr(name, L['outlen']), st['outlen'], 4); it.mem.store(Ptr(name, L['last']), st['last'], 1)
    return S, st

def ref_update(st, data):
    """RFC 7693 streaming semantics, byte-wise: a full buffer is compressed only when one more byte arrives"""
    h = list(st['h']); t0, t1 = st['t']; buf = list(st['buf']); bl = st['buflen']
    for byte in data:
        if bl == 128:
            nt0 = t0 + 128; t1 = t1 + z3.If(z3.ULT(nt0, z3.BitVecVal(128, 64)), z3.BitVecVal(1, 64), z3.BitVecVal(0, 64)); t0 = nt0
            m = [word(buf[8 * i:8 * i + 8]) for i in range(16)]
            h = ref_F(h, m, [t0, t1], st['f']); bl = 0
        buf[bl] = byte; bl += 1
    return dict(h=h, t=[t0, t1], buf=buf, buflen=bl)

def jobs_B2(ctx):
    N = 130 if ctx['tier'] == 'quick' else 390
    # buflen values split into 16 strides
    return [dict(N=N, buflens=list(range(k, 129, 16))) for k in range(16)]

def run_B2(ctx, case):
    q = Q(60); mod = Module(ctx['ll']['blake2b_ni']); L = layout(mod); N = case['N']; npaths = 0; steps = 0
    inp = [z3.BitVec('in%d' % i, 8) for i in range(N)]
    for buflen in case['buflens']:
        for n in range(0, N + 1):
            it = Interp(mod); it.trace = []
            it.hooks[mod.find('blake2b_compress')] = uf_compress(L)
            S, st = _mkstate(it, L, buflen)
            ib = it.mem.alloc(max(n, 1), 'in')
            for i in range(n): it.mem.store(Ptr('in', i), inp[i], 1)
            r = it.call(mod.find('blake2b_update'), [S, ib, n]); npaths += 1; steps += it.steps
            tag = 'update(buflen=%d,n=%d)' % (buflen, n)
            if r != 0: q.n += 1; q.sat += 1; q.failed.append((tag + ': returned %s on a valid state' % r, {})); continue
            exp = ref_update(st, inp[:n])
            bad = []
            got_bl = it.mem.load(Ptr('S', L['buflen']), 4)
            if not (is_c(got_bl) and got_bl == exp['buflen']): bad.append('buflen %s != %s' % (got_bl, exp['buflen']))
            else:
                for i in range(8):
                    a = bv(it.mem.load(Ptr('S', L['h'] + 8 * i), 8), 64)
                    if not a.eq(exp['h'][i]) and q.check([], a != exp['h'][i], tag + ' h[%d]' % i)[0] != 'unsat': bad.append('h%d' % i)
                for i in range(2):
                    a = bv(it.mem.load(Ptr('S', L['t'] + 8 * i), 8), 64)
                    if q.check([], a != exp['t'][i], tag + ' t[%d] (128-bit counter with carry)' % i)[0] != 'unsat': bad.append('t%d' % i)
                for i in range(exp['buflen']):
                    a = bv(it.mem.load(Ptr('S', L['buf'] + i), 1), 8)
                    if not a.eq(exp['buf'][i]) and q.check([], a != exp['buf'][i], tag + ' buf[%d]' % i)[0] != 'unsat': bad.append('buf%d' % i)
                f0 = it.mem.load(Ptr('S', L['f']), 8)
                if not (is_c(f0) and f0 == 0): bad.append('f0')
            if bad:
                if not q.failed: q.sat += 1; q.failed.append((tag + ': ' + ','.join(bad[:4]), {}))
            else: q.n += 1; q.unsat += 1; q.proved.append(tag)
    return result('B2', 'buflen in %s.., n<=%d' % (case['buflens'][:2], N), q, paths=npaths, steps=steps,
                  detail='%d (buflen,n) forks; post-state (h via F as UF, 128-bit t, buffer prefix, buflen) == byte-wise RFC update' % npaths)

# ------------------------------------------------------------------ B3 final
def jobs_B3(ctx): return [dict(buflens=list(range(k, 129, 8))) for k in range(8)]
def run_B3(ctx, case):
    q = Q(60); mod = Module(ctx['ll']['blake2b_ni']); L = layout(mod); npaths = 0
    sol_outlens = list(range(0, 66)) if ctx['tier'] == 'thorough' else [0, 1, 31, 32, 33, 63, 64, 65]
    for buflen in case['buflens']:
        for S_outlen in ([1, 32, 64] if ctx['tier'] == 'quick' else list(range(1, 65))):
            for outlen in sol_outlens:
                it = Interp(mod); it.trace = []; it.hooks[mod.find('blake2b_compress')] = uf_compress(L)
                S, st = _mkstate(it, L, buflen); it.mem.store(Ptr('S', L['outlen']), S_outlen, 4)
                it.mem.store(Ptr('S', L['last']), 0, 1)
                out = it.mem.alloc(80, 'out'); O = [z3.BitVec('out%d' % i, 8) for i in range(80)]
                for i in range(80): it.mem.store(Ptr('out', i), O[i], 1)
                r = it.call(mod.find('blake2b_final'), [S, out, outlen]); npaths += 1
                tag = 'final(buflen=%d,S.outlen=%d,outlen=%d)' % (buflen, S_outlen, outlen)
                now = [it.mem.load(Ptr('out', i), 1) for i in range(80)]
                if outlen < S_outlen:
                    ok = (r != 0 and not is_c(r)) or (is_c(r) and r >= 1 << 31)
                    ok = ok and all((not is_c(now[i])) and now[i].eq(O[i]) for i in range(80))
                    (q.proved if ok else q.failed).append(tag + ' rejected, output untouched' if ok else (tag + ' must be rejected without writing', {}))
                    q.n += 1; q.unsat += ok; q.sat += (not ok); continue
                # reference: t += buflen, f0 = ~0, zero padding, F, first S_outlen bytes
                t0 = st['t'][0] + buflen; t1 = st['t'][1] + z3.If(z3.ULT(t0, z3.BitVecVal(buflen, 64)), z3.BitVecVal(1, 64), z3.BitVecVal(0, 64))
                bufp = st['buf'][:buflen] + [0] * (128 - buflen)
                m = [word(bufp[8 * i:8 * i + 8]) for i in range(16)]
                hh = ref_F(st['h'], m, [t0, t1], [(1 << 64) - 1, st['f'][1]])
                exp = [z3.Extract(8 * (i % 8) + 7, 8 * (i % 8), hh[i // 8]) for i in range(64)]
                bad = None
                if r != 0: bad = 'returned %s' % r
                else:
                    for i in range(80):
                        a = bv(now[i], 8); e = exp[i] if i < S_outlen else O[i]
                        if not a.eq(e) and not z3.is_false(z3.simplify(a != e)):
                            if q.check([], a != e, tag + ' out[%d]' % i)[0] != 'unsat': bad = 'out[%d]' % i; break
                if bad:
                    if not any(tag in f[0] for f in q.failed): q.n += 1; q.sat += 1; q.failed.append((tag + ': ' + bad, {}))
                else: q.n += 1; q.unsat += 1; q.proved.append(tag)
    return result('B3', 'buflen in %s..' % case['buflens'][:2], q, paths=npaths, detail='%d forks: digest bytes == RFC final (counter+=buflen, last-block flag, zero pad), exactly S.outlen bytes written, short buffers rejected untouched' % npaths)

# ------------------------------------------------------------------ B4 init / init_key / one-shot
def jobs_B4(ctx):
    return [dict(kind='init'), dict(kind='oneshot')] + [dict(kind='init_key', keylens=list(range(k, 67, 4))) for k in range(4)]

def param_h(outlen, keylen):
    return ref.init_h(outlen, keylen)

def run_B4(ctx, case):
    q = Q(60); mod = Module(ctx['ll']['blake2b_ni']); L = layout(mod); npaths = 0
    def fresh():
        it = Interp(mod); it.trace = []; it.hooks[mod.find('blake2b_compress')] = uf_compress(L)
        S = it.mem.alloc(L['size'], 'S')
        for i in range(L['size']): it.mem.store(Ptr('S', i), z3.BitVec('stale%d' % i, 8), 1)     # heap garbage
        return it, S
    def state_is(it, h, buflen, outlen, tag):
        ok = True
        for i in range(8):
            v = it.mem.load(Ptr('S', L['h'] + 8 * i), 8); ok &= q.prove_eq([], v, h[i], tag + ' h[%d]' % i, 64)[0] == 'unsat'
        for nm, off, n, e in (('t0', L['t'], 8, 0), ('t1', L['t'] + 8, 8, 0), ('f0', L['f'], 8, 0), ('f1', L['f'] + 8, 8, 0), ('buflen', L['buflen'], 4, buflen), ('outlen', L['outlen'], 4, outlen), ('last_node', L['last'], 1, 0)):
            ok &= q.prove_eq([], it.mem.load(Ptr('S', off), n), e, tag + ' ' + nm, 8 * n)[0] == 'unsat'
        return ok
    if case['kind'] == 'init':
        for outlen in list(range(0, 68)) + [255, 256, 257, 320, 1 << 32, (1 << 32) + 32, (1 << 64) - 1]:
            it, S = fresh(); r = it.call(mod.find('blake2b_init'), [S, outlen]); npaths += 1; tag = 'init(outlen=%d)' % outlen
            if 1 <= outlen <= 64:
                if r != 0: q.failed.append((tag + ' rejected', {})); q.sat += 1; q.n += 1
                else: state_is(it, param_h(outlen, 0), 0, outlen, tag)
            else:
                ok = is_c(r) and r >= (1 << 31)
                q.n += 1; q.unsat += ok; q.sat += (not ok)
                (q.proved if ok else q.failed).append(tag + ' invalid length rejected' if ok else (tag + ' invalid outlen must be rejected', {}))
    elif case['kind'] == 'init_key':
        outs = [0, 1, 32, 64, 65] if ctx['tier'] == 'quick' else list(range(0, 67))
        for keylen in case['keylens']:
            for outlen in outs:
                for nullkey in (False, True):
                    it, S = fresh(); key = it.mem.alloc(max(1, keylen), 'key'); K = [z3.BitVec('k%d' % i, 8) for i in range(keylen)]
                    for i in range(keylen): it.mem.store(Ptr('key', i), K[i], 1)
                    r = it.call(mod.find('blake2b_init_key'), [S, outlen, Ptr(None, 0) if nullkey else key, keylen]); npaths += 1
                    tag = 'init_key(outlen=%d,keylen=%d,null=%s)' % (outlen, keylen, nullkey)
                    valid = 1 <= outlen <= 64 and 1 <= keylen <= 64 and not nullkey
                    if not valid:
                        ok = is_c(r) and r >= (1 << 31); q.n += 1; q.unsat += ok; q.sat += (not ok)
                        (q.proved if ok else q.failed).append(tag + ' rejected' if ok else (tag + ' must be rejected', {})); continue
                    if r != 0: q.failed.append((tag + ' rejected a valid call', {})); q.sat += 1; q.n += 1; continue
                    # RFC: h = IV ^ param, then the zero-padded key block is the first message block (buffered, not yet compressed)
                    ok = state_is(it, param_h(outlen, keylen), 128, outlen, tag)
                    for i in range(128):
                        e = K[i] if i < keylen else 0
                        ok &= q.prove_eq([], it.mem.load(Ptr('S', L['buf'] + i), 1), e, tag + ' buf[%d]' % i, 8)[0] == 'unsat'
                    if it.trace: q.failed.append((tag + ': key block compressed early', {})); q.sat += 1
    else:
        # one-shot driver: sub-functions as event recorders, all lengths symbolic
        outlen, inlen, keylen = z3.BitVecs('outlen inlen keylen', 64)
        def run(fk):
            it = Interp(mod); it.fork = fk; ev = []
            rets = {}
            def rec(name):
                def h(s, a):
                    ev.append((name, a)); rv = z3.BitVec('ret_%s' % name, 32); rets[name] = rv; return rv
                return h
            for n in ('blake2b_init', 'blake2b_init_key', 'blake2b_update', 'blake2b_final'): it.hooks[mod.find(n)] = rec(n)
            out = it.mem.alloc(64, 'out'); inp = it.mem.alloc(64, 'in'); key = it.mem.alloc(64, 'key')
            nin = it.decide(z3.BitVec('in_is_null', 1)); nout = it.decide(z3.BitVec('out_is_null', 1)); nkey = it.decide(z3.BitVec('key_is_null', 1))
            po = Ptr(None, 0) if nout else out; pi = Ptr(None, 0) if nin else inp; pk = Ptr(None, 0) if nkey else key
            r = it.call(mod.find('blake2b'), [po, outlen, pi, inlen, pk, keylen])
            return dict(ev=ev, r=r, nin=nin, nout=nout, nkey=nkey, po=po, pi=pi, pk=pk, rets=rets)
        res, nq = explore(run, limit=400); q.n += nq
        for taken, pc, r in res:
            npaths += 1; names = [e[0] for e in r['ev']]
            valid = z3.And(z3.Or(r['nin'] == 0, inlen == 0) if True else True, outlen >= 1, z3.ULE(outlen, 64), z3.ULE(keylen, 64))
            # classify by trace
            tag = 'blake2b() path %s null(in,out,key)=(%d,%d,%d)' % (names, r['nin'], r['nout'], r['nkey'])
            if 'blake2b_final' in names:
                # accepted: trace shape and arguments
                shape = names in (['blake2b_init', 'blake2b_update', 'blake2b_final'], ['blake2b_init_key', 'blake2b_update', 'blake2b_final'])
                q.n += 1
                if not shape: q.sat += 1; q.failed.append((tag + ': unexpected call sequence', {})); continue
                q.unsat += 1
                e0, e1, e2 = r['ev']
                q.prove(pc, z3.And(outlen >= 1, z3.ULE(outlen, 64), z3.ULE(keylen, 64)), tag + ': accepted only with valid outlen/keylen')
                q.prove(pc, z3.And(bv(e0[1][1], 64) == outlen), tag + ': init gets outlen')
                if names[0] == 'blake2b_init_key':
                    q.prove(pc, z3.And(bv(e0[1][3], 64) == keylen, keylen != 0), tag + ': init_key gets keylen>0')
                    ok = e0[1][2].obj == 'key' and e0[1][2].off == 0; q.n += 1; q.unsat += ok; q.sat += (not ok)
                    if not ok: q.failed.append((tag + ': key pointer', {}))
                else: q.prove(pc, keylen == 0, tag + ': unkeyed init only when keylen==0')
                ok = (e1[1][1].obj == r['pi'].obj) and (e2[1][1].obj == 'out') and e0[1][0].obj == e1[1][0].obj == e2[1][0].obj
                q.n += 1; q.unsat += ok; q.sat += (not ok)
                if not ok: q.failed.append((tag + ': buffer routing', {}))
                q.prove(pc, z3.And(bv(e1[1][2], 64) == inlen, bv(e2[1][2], 64) == outlen), tag + ': update(in,inlen); final(out,outlen)')
                q.prove(pc, bv(r['r'], 32) == r['rets']['blake2b_final'], tag + ': returns final()')
            else:
                # rejected path: nothing that writes `out` was reached and result negative
                q.prove(pc, bv(r['r'], 32) < 0, tag + ': rejected => negative return')
        # completeness: every valid call is accepted unless a callee fails  (no path rejects valid parameters before init)
        for taken, pc, r in res:
            if not r['ev']:
                q.prove(pc, z3.Not(z3.And(outlen >= 1, z3.ULE(outlen, 64), z3.ULE(keylen, 64), r['nout'] == 0, z3.Or(r['nin'] == 0, inlen == 0), z3.Or(r['nkey'] == 0, keylen == 0))), 'early reject only for invalid parameters')
    return result('B4', str(case)[:60], q, paths=npaths, detail='%d forks/paths' % npaths)

# ------------------------------------------------------------------ B5 commitment
def run_B5(ctx, case):
    q = Q(60); mod = Module(ctx['ll']['randomx_ni'])
    n = z3.BitVec('inputSize', 64); ev = []
    it = Interp(mod)
    def rec(name):
        def h(s, a): ev.append((name, a)); return 0
        return h
    for nm in ('blake2b_init', 'blake2b_update', 'blake2b_final'): it.hooks['randomx_' + nm] = rec(nm)
    inp = it.mem.alloc(64, 'input'); hin = it.mem.alloc(32, 'hash_in'); out = it.mem.alloc(32, 'com_out')
    it.call('randomx_calculate_commitment', [inp, n, hin, out])
    names = [e[0] for e in ev]
    ok = names == ['blake2b_init', 'blake2b_update', 'blake2b_update', 'blake2b_final']
    q.n += 1; q.unsat += ok; q.sat += (not ok)
    if not ok: q.failed.append(('commitment call sequence %s' % names, {}))
    else:
        S = ev[0][1][0].obj
        q.prove_eq([], ev[0][1][1], 32, 'init(outlen=32)', 64)
        facts = [ev[1][1][0].obj == S, ev[1][1][1].obj == 'input' and ev[1][1][1].off == 0, ev[2][1][0].obj == S, ev[2][1][1].obj == 'hash_in' and ev[2][1][1].off == 0,
                 ev[3][1][0].obj == S, ev[3][1][1].obj == 'com_out' and ev[3][1][1].off == 0]
        for i, f in enumerate(facts):
            q.n += 1; q.unsat += bool(f); q.sat += (not f)
            if not f: q.failed.append(('commitment argument routing #%d (input first, then hash, into com_out)' % i, {}))
        q.prove_eq([], ev[1][1][2], n, 'update(input, inputSize)', 64)
        q.prove_eq([], ev[2][1][2], 32, 'update(hash_in, 32)', 64)
        q.prove_eq([], ev[3][1][2], 32, 'final(out, 32)', 64)
    return result('B5', 'commitment', q, paths=1, detail='trace %s' % names)

LEMMAS = {
    'B1': dict(jobs=lambda ctx: ['compress'], run=run_B1, units=['blake2b'], functions=['blake2b_compress'],
               doc='blake2b_compress == RFC 7693 F for every (h,t,f,block)', bound='one call, all 2^(64*28) inputs', symbolic='h[8], t[2], f[2], 128-byte block', stubs=[]),
    'B2': dict(jobs=jobs_B2, run=run_B2, units=['blake2b_ni'], functions=['blake2b_update'],
               doc='blake2b_update from an arbitrary valid state == byte-wise RFC 7693 streaming update (=> any chunking gives the same state)',
               bound='every buflen 0..128 x every inlen 0..130 (quick) / 0..390 (thorough) as structural forks; all state words, counter, buffer and input bytes symbolic',
               symbolic='h[8], t[2] (arbitrary 128-bit counter), buf[128], f[1], input bytes', stubs=['blake2b_compress := uninterpreted function of (h,block,t,f) (justified by B1)'],
               outside='single update() calls longer than the bound'),
    'B3': dict(jobs=jobs_B3, run=run_B3, units=['blake2b_ni'], functions=['blake2b_final'],
               doc='blake2b_final == RFC final block processing; writes exactly S.outlen bytes; rejects short output buffers without writing',
               bound='buflen 0..128, S.outlen {1,32,64} (quick) / 1..64, caller outlen boundary values (quick) / 0..65', symbolic='state, buffer, output buffer', stubs=['blake2b_compress := UF']),
    'B4': dict(jobs=jobs_B4, run=run_B4, units=['blake2b_ni'], functions=['blake2b_init', 'blake2b_init_key', 'blake2b_init_param', 'blake2b'],
               doc='parameter block / keyed init per RFC 7693 over stale memory; invalid parameters rejected; one-shot = init[_key];update;final with the right arguments, rejected calls never reach a function that writes out',
               bound='outlen 0..67 + large values, keylen 0..66; one-shot: all lengths symbolic 64-bit', symbolic='key bytes, stale state bytes, lengths', stubs=['one-shot: init/update/final as event recorders returning arbitrary int']),
    'B5': dict(jobs=lambda ctx: ['commitment'], run=run_B5, units=['randomx_ni'], functions=['randomx_calculate_commitment'],
               doc='commitment = Blake2b-256(input || hash): init(32); update(input,n); update(hash,32); final(out,32)', bound='symbolic input size', symbolic='inputSize', stubs=['blake2b_* as event recorders']),
}
