# Lifecycle lemmas over the linked library IR: H6 allocation failure (C15), H7 page protections (C16), H3 binding (C03), H5 footprints (C14)
import z3, time, re, os
from lemmas.common import *
from engine.irsym import Module, Interp, Ptr, is_c, bv, resolve, NamedT, explore, OOB, Thrown, Unbound, EH_SUB
from engine import build, cxxlib
from spec import params as P

LIB_SRCS = ['src/randomx.cpp', 'src/allocator.cpp', 'src/dataset.cpp', 'src/virtual_machine.cpp', 'src/vm_interpreted.cpp', 'src/vm_interpreted_light.cpp',
            'src/vm_compiled.cpp', 'src/vm_compiled_light.cpp', 'src/jit_compiler_x86.cpp', 'src/virtual_memory.c', 'src/cpu.cpp', 'src/argon2_ssse3.c', 'src/argon2_avx2.c']
UNITS = {'lib': dict(link=[dict(src=s, inline=False) for s in LIB_SRCS])}

PROT_READ, PROT_WRITE, PROT_EXEC = 1, 2, 4
def flagvals():
    txt = open(os.path.join(build.REPO, 'src', 'randomx.h')).read()
    return {m.group(1): int(m.group(2)) for m in re.finditer(r'RANDOMX_FLAG_(\w+)\s*=\s*(\d+)', txt)}

class Heap:
    """ghost allocator state + nondeterministic failure of every allocation request (one fork per request)"""
    def __init__(s, it, fail=True):
        s.it = it; s.live = {}; s.log = []; s.fail = fail; s.n = 0; s.prot = {}; s.protlog = []; s.problems = []
        h = it.hooks
        h['_Znwm'] = s.op_new; h['_Znam'] = s.op_new
        for d in ('_ZdlPv', '_ZdaPv', '_ZdlPvm', '_ZdaPvm'): h[d] = s.op_delete
        h['posix_memalign'] = s.memalign; h['free'] = s.free; h['malloc'] = s.malloc
        h['mmap'] = s.mmap; h['mmap64'] = s.mmap; h['munmap'] = s.munmap; h['mprotect'] = s.mprotect
        h['__errno_location'] = lambda it_, a: it_.mem.alloc(4, 'errno%d' % len(it_.mem.objs))
        # exceptions
        h['__cxa_allocate_exception'] = lambda it_, a: it_.mem.alloc(max(a[0], 16), 'exc%d' % len(it_.mem.objs))
        h['__cxa_free_exception'] = lambda it_, a: None
        def thr(it_, a): raise Thrown(a[1].obj[1:] if isinstance(a[1], Ptr) and a[1].obj else '?', a[0])
        h['__cxa_throw'] = thr
        h['__cxa_begin_catch'] = lambda it_, a: a[0]; h['__cxa_end_catch'] = lambda it_, a: None
        for c in ('_ZNSt13runtime_errorC1EPKc', '_ZNSt13runtime_errorC2EPKc', '_ZNSt16invalid_argumentC1EPKc', '_ZNSt16invalid_argumentC2EPKc', '_ZNSt9bad_allocC2Ev', '_ZNSt9bad_allocC1Ev',
                  '_ZNSt13runtime_errorD1Ev', '_ZNSt16invalid_argumentD1Ev', '_ZNSt9bad_allocD1Ev', '_ZNSt9exceptionD2Ev'):
            h[c] = lambda it_, a: None
        def badalloc(it_, a): raise Thrown('_ZTISt9bad_alloc')
        h['_ZSt17__throw_bad_allocv'] = badalloc; h['_ZSt28__throw_bad_array_new_lengthv'] = badalloc
        h['_ZSt20__throw_length_errorPKc'] = lambda it_, a: (_ for _ in ()).throw(Thrown('_ZTISt12length_error'))
        h['_ZNSt8ios_base4InitC1Ev'] = lambda it_, a: None; h['__cxa_atexit'] = lambda it_, a: 0
    def _fail(s, kind):
        if not s.fail: return False
        s.n += 1
        return bool(s.it.decide(z3.BitVec('fail_%s_%d' % (kind, s.n), 1)))
    def _new(s, size, kind):
        sz = size if is_c(size) else 64
        p = s.it.mem.alloc(sz, '%s#%d' % (kind, s.n + len(s.log))); s.live[p.obj] = (kind, size); return p
    def op_new(s, it, a):
        if s._fail('new'): s.log.append('new:FAIL'); raise Thrown('_ZTISt9bad_alloc')
        s.log.append('new(%s)' % a[0]); return s._new(a[0], 'new')
    def op_delete(s, it, a):
        p = a[0]
        if isinstance(p, Ptr) and p.obj is None: return None
        if not isinstance(p, Ptr) or s.live.get(p.obj, (None,))[0] != 'new' or p.off != 0: s.problems.append('delete of %s which is not a live new-block' % (p,)); return None
        s.live.pop(p.obj); s.log.append('delete'); return None
    def memalign(s, it, a):
        if s._fail('memalign'): s.log.append('posix_memalign:FAIL'); return 12
        s.log.append('posix_memalign(%s)' % a[2]); it.mem.store(a[0], s._new(a[2], 'memalign'), 8); return 0
    def malloc(s, it, a):
        if s._fail('malloc'): s.log.append('malloc:FAIL'); return Ptr(None, 0)
        s.log.append('malloc(%s)' % a[0]); return s._new(a[0], 'memalign')
    def free(s, it, a):
        p = a[0]
        if isinstance(p, Ptr) and p.obj is None: return None
        if not isinstance(p, Ptr) or s.live.get(p.obj, (None,))[0] != 'memalign' or p.off != 0: s.problems.append('free of %s which is not a live malloc/memalign block' % (p,)); return None
        s.live.pop(p.obj); s.log.append('free'); return None
    def mmap(s, it, a):
        addr, ln, prot = a[0], a[1], a[2]
        if s._fail('mmap'): s.log.append('mmap:FAIL'); return Ptr(None, (1 << 64) - 1)
        p = s._new(ln, 'mmap'); s.prot[p.obj] = prot; s.protlog.append(('mmap', p.obj, ln, prot)); s.log.append('mmap(%s,prot=%s)' % (ln, prot)); return p
    def munmap(s, it, a):
        p, ln = a[0], a[1]
        if not isinstance(p, Ptr) or s.live.get(p.obj, (None,))[0] != 'mmap' or p.off != 0: s.problems.append('munmap of %s which is not a live mapping' % (p,)); return -1
        if not (is_c(ln) and ln == s.live[p.obj][1]): s.problems.append('munmap length %s != mapped length %s' % (ln, s.live[p.obj][1]))
        s.live.pop(p.obj); s.log.append('munmap(%s)' % ln); return 0
    def mprotect(s, it, a):
        p, ln, prot = a[0], a[1], a[2]
        if not isinstance(p, Ptr) or p.obj not in s.live: s.problems.append('mprotect of %s which is not a live mapping' % (p,)); return -1
        s.prot[p.obj] = prot; s.protlog.append(('mprotect', p.obj, ln, prot)); s.log.append('mprotect(%s,%s)' % (ln, prot)); return 0

def fake_cache(it, mod, name='the_cache', key=b'', prog_size=1):
    """an initialised randomx_cache object (interpreter flavour): zeroed, memory set, empty key, every program = `prog_size` ISUB_R instructions"""
    tc = resolve(NamedT('struct.randomx_cache', mod)); o = tc.layout()[0]
    c = it.mem.alloc(tc.size(), name)
    for k in range(0, tc.size(), 8): it.mem.store(Ptr(name, k), 0, 8)
    cm = it.mem.alloc(P.ARGON_MEMORY * 1024, name + '_memory'); it.mem.store(Ptr(name, o[0]), cm, 8)
    it.mem.store(Ptr(name, o[2]), Ptr(None, 0), 8)
    cxxlib.make_string(it.mem, name, o[7], list(key))
    tp = resolve(NamedT('class.randomx::SuperscalarProgram', mod)); po = tp.layout()[0]
    for k in range(P.CACHE_ACCESSES):
        base = o[5] + k * tp.size()
        it.mem.store(Ptr(name, base + po[1]), prog_size, 4); it.mem.store(Ptr(name, base + po[2]), k % 8, 4)
        for j in range(prog_size):
            it.mem.store(Ptr(name, base + 8 * j), 0, 1); it.mem.store(Ptr(name, base + 8 * j + 1), j % 8, 1); it.mem.store(Ptr(name, base + 8 * j + 2), (j + 1) % 8, 1)
    # empty reciprocal cache vector
    for k in range(3): it.mem.store(Ptr(name, o[6] + 8 * k), Ptr(None, 0), 8)
    return c

def run_ctors(it, mod):
    """dynamic initialisers of the linked units (sizes of the assembly templates etc.)"""
    for f in mod.funcs:
        if f.startswith('_GLOBAL__sub_I_'): it.call(f, [])

def bind_templates(it, ctx):
    """the hand-written template symbols of jit_compiler_x86_static.S as pointers into one 'text' object holding the assembled bytes"""
    syms, text = ctx['asm']['syms'], ctx['asm']['text']
    it.mem.alloc(len(text) + 64, 'text')
    for k, b in enumerate(text): it.mem.objs['text']['bytes'][k] = b
    it.extern = {nm: Ptr('text', off) for nm, off in syms.items()}

def run_H6(ctx, case):
    q = Q(30); mod = Module(ctx['ll']['lib']); F = flagvals(); entry = case['entry']; npaths = [0]; samples = []
    fixed = case.get('flags')
    def one(fk):
        it = Interp(mod); it.fork = fk; bind_templates(it, ctx)
        H0 = Heap(it, fail=False); cxxlib.install(it, H0); run_ctors(it, mod)          # static initialisation is not under test
        H = Heap(it, fail=True); cxxlib.install(it, H); esc = None; r = None
        flags = fixed
        try:
            if entry == 'alloc_dataset': r = it.call('randomx_alloc_dataset', [flags])
            elif entry == 'alloc_cache': r = it.call('randomx_alloc_cache', [flags])
            else:
                cache = dataset = Ptr(None, 0)
                c = fake_cache(it, mod)
                d = it.mem.alloc(16, 'the_dataset'); dm = it.mem.alloc(P.DATASET_BASE + P.DATASET_EXTRA, 'dataset_memory'); it.mem.store(Ptr('the_dataset', 0), dm, 8)
                if flags & F['FULL_MEM']: dataset = d
                else: cache = c
                r = it.call('randomx_create_vm', [flags, cache, dataset])
        except Thrown as t:
            esc = t.ty
        npaths[0] += 1
        failed = [x for x in H.log if 'FAIL' in x]; tag = '%s(flags=%s) faults=%s' % (entry, flags, failed or 'none')
        def chk(c, what):
            q.n += 1; q.unsat += bool(c); q.sat += (not c)
            if not c: q.failed.append(('%s: %s [allocator log: %s]' % (tag, what, H.log[-12:]), dict(flags=flags, faults=failed)))
        chk(esc is None, 'an exception (%s) escapes the extern "C" function' % esc)
        chk(not H.problems, 'deallocation misuse: %s' % H.problems[:2])
        if esc is not None: return
        isnull = isinstance(r, Ptr) and r.obj is None
        if failed:
            chk(isnull, 'an allocation failed but the call did not return NULL')
            chk(not H.live, 'leak on the failure path: still live %s' % list(H.live.items())[:3])
        else:
            supported = True
            if entry == 'alloc_cache' and isnull: supported = False          # unsupported Argon2 flag combination is allowed to return NULL
            if supported:
                chk(not isnull, 'no allocation failed but the call returned NULL')
                if not isnull:
                    H.fail = False
                    try:
                        it.call({'alloc_dataset': 'randomx_release_dataset', 'alloc_cache': 'randomx_release_cache', 'create_vm': 'randomx_destroy_vm'}[entry], [r])
                    except Thrown as t: chk(False, 'release throws %s' % t.ty)
                    chk(not H.problems, 'deallocation misuse on release: %s' % H.problems[:2])
                    chk(not H.live, 'release does not give back everything: still live %s' % list(H.live.items())[:3])
        if len(samples) < 3: samples.append(dict(faults=failed, log=H.log[:10], result='NULL' if isnull else 'object'))
        extent_checks(q, fk['pc'], it.mem, tag)
    res, nq = explore(one, limit=200); q.n += nq
    return result('H6', '%s flags=%s' % (entry, fixed), q, paths=npaths[0], detail='%d fault schedules; e.g. %s' % (npaths[0], samples[:2]))

def jobs_H6(ctx):
    F = flagvals(); J = []
    for lp in (0, F['LARGE_PAGES']):
        J.append(dict(entry='alloc_dataset', flags=lp))
        for jit in (0, F['JIT']):
            for a in (0, F['ARGON2_SSSE3'], F['ARGON2_AVX2']): J.append(dict(entry='alloc_cache', flags=lp | jit | a))
            for full in (0, F['FULL_MEM']):
                for aes in (0, F['HARD_AES']):
                    for sec in ((0, F['SECURE']) if jit else (0,)):
                        for v2 in (0, F['V2']) if ctx['tier'] == 'thorough' else (0,):
                            J.append(dict(entry='create_vm', flags=lp | jit | full | aes | sec | v2))
    return J

LEMMAS = {
    'H6': dict(jobs=jobs_H6, run=run_H6, units=['lib'], asm=True, functions=['randomx_alloc_cache', 'randomx_alloc_dataset', 'randomx_create_vm', 'randomx_release_cache', 'randomx_release_dataset', 'randomx_destroy_vm', 'AlignedAllocator::allocMemory/freeMemory', 'LargePageAllocator::*', 'deallocCache<>', 'deallocDataset<>', 'VmBase ctor/dtor/allocate', 'CompiledVm/CompiledLightVm/InterpretedVm ctors+dtors', 'JitCompilerX86 ctor/dtor', 'allocMemoryPages', 'allocLargePagesMemory', 'freePagedMemory'],
               doc='every allocation request inside a creating call may fail (symbolic fault schedule): result NULL, everything acquired so far released, no exception escapes, no deallocator misuse; fault-free: release returns the ghost heap to its entry state',
               bound='one creating call + its release; every supported flag combination (cache: 12, dataset: 2, vm: 24 / 48 with v2); every subset of failing requests that is reachable (<= 200 schedules per call)', symbolic='fault schedule (one boolean per allocation request)',
               stubs=['operator new/delete, posix_memalign/free, mmap/munmap/mprotect := ghost heap with nondeterministic failure', 'exception constructors := no-ops', 'static initialisers run fault-free'],
               outside='failures inside libstdc++ beyond operator new; hashing after a failed call (fresh objects are independent: H3)'),
}
