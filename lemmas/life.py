# Lifecycle lemmas over the linked library IR: H6 allocation failure (C15), H7 page protections (C16), H3 binding (C03), H5 footprints (C14)
import z3, time, re, os
from lemmas.common import *
from engine.irsym import Module, Interp, Ptr, is_c, bv, resolve, NamedT, explore, OOB, Thrown, Unbound, EH_SUB, Unsupported
from engine import build, cxxlib
from spec import params as P

LIB_SRCS = ['src/randomx.cpp', 'src/allocator.cpp', 'src/dataset.cpp', 'src/virtual_machine.cpp', 'src/vm_interpreted.cpp', 'src/vm_interpreted_light.cpp',
            'src/vm_compiled.cpp', 'src/vm_compiled_light.cpp', 'src/jit_compiler_x86.cpp', 'src/virtual_memory.c', 'src/cpu.cpp', 'src/argon2_ssse3.c', 'src/argon2_avx2.c']
UNITS = {'lib': dict(link=[dict(src=s, inline=False) for s in LIB_SRCS])}

PROT_READ, PROT_WRITE, PROT_EXEC = 1, 2, 4
def flagvals():
    txt = open(os.path.join(build.REPO, 'src', 'randomx.h')).read()
    return {m.group(1): int(m.group(2)) for m in re.finditer(r'RANDOMX_FLAG_(\w+)\s*=\s*(\d+)', txt)}

class Heap:
    """ghost allocator state + nondeterministic failure of every allocation request (one fork per request)"""
    def __init__(s, it, fail=True):
        s.it = it; s.live = {}; s.log = []; s.fail = fail; s.n = 0; s.prot = {}; s.protlog = []; s.problems = []
        h = it.hooks
        h['_Znwm'] = s.op_new; h['_Znam'] = s.op_new
        for d in ('_ZdlPv', '_ZdaPv', '_ZdlPvm', '_ZdaPvm'): h[d] = s.op_delete
        h['posix_memalign'] = s.memalign; h['free'] = s.free; h['malloc'] = s.malloc
        h['mmap'] = s.mmap; h['mmap64'] = s.mmap; h['munmap'] = s.munmap; h['mprotect'] = s.mprotect
        h['__errno_location'] = lambda it_, a: it_.mem.alloc(4, 'errno%d' % len(it_.mem.objs))
        # exceptions
        h['__cxa_allocate_exception'] = lambda it_, a: it_.mem.alloc(max(a[0], 16), 'exc%d' % len(it_.mem.objs))
        h['__cxa_free_exception'] = lambda it_, a: None
        def thr(it_, a): raise Thrown(a[1].obj[1:] if isinstance(a[1], Ptr) and a[1].obj else '?', a[0])
        h['__cxa_throw'] = thr
        h['__cxa_begin_catch'] = lambda it_, a: a[0]; h['__cxa_end_catch'] = lambda it_, a: None
        for c in ('_ZNSt13runtime_errorC1EPKc', '_ZNSt13runtime_errorC2EPKc', '_ZNSt16invalid_argumentC1EPKc', '_ZNSt16invalid_argumentC2EPKc', '_ZNSt9bad_allocC2Ev', '_ZNSt9bad_allocC1Ev',
                  '_ZNSt13runtime_errorD1Ev', '_ZNSt16invalid_argumentD1Ev', '_ZNSt9bad_allocD1Ev', '_ZNSt9exceptionD2Ev'):
            h[c] = lambda it_, a: None
        def badalloc(it_, a): raise Thrown('_ZTISt9bad_alloc')
        h['_ZSt17__throw_bad_allocv'] = badalloc; h['_ZSt28__throw_bad_array_new_lengthv'] = badalloc
        h['_ZSt20__throw_length_errorPKc'] = lambda it_, a: (_ for _ in ()).throw(Thrown('_ZTISt12length_error'))
        h['_ZNSt8ios_base4InitC1Ev'] = lambda it_, a: None; h['__cxa_atexit'] = lambda it_, a: 0
    def _fail(s, kind):
        if not s.fail: return False
        s.n += 1
        return bool(s.it.decide(z3.BitVec('fail_%s_%d' % (kind, s.n), 1)))
    def _new(s, size, kind):
        sz = size if is_c(size) else 64
        p = s.it.mem.alloc(sz, '%s#%d' % (kind, s.n + len(s.log))); s.live[p.obj] = (kind, size); return p
    def op_new(s, it, a):
        if s._fail('new'): s.log.append('new:FAIL'); raise Thrown('_ZTISt9bad_alloc')
        s.log.append('new(%s)' % a[0]); return s._new(a[0], 'new')
    def op_delete(s, it, a):
        p = a[0]
        if isinstance(p, Ptr) and p.obj is None: return None
        if not isinstance(p, Ptr) or s.live.get(p.obj, (None,))[0] != 'new' or p.off != 0: s.problems.append('delete of %s which is not a live new-block' % (p,)); return None
        s.live.pop(p.obj); s.log.append('delete'); return None
    def memalign(s, it, a):
        if s._fail('memalign'): s.log.append('posix_memalign:FAIL'); return 12
        s.log.append('posix_memalign(%s)' % a[2]); it.mem.store(a[0], s._new(a[2], 'memalign'), 8); return 0
    def malloc(s, it, a):
        if s._fail('malloc'): s.log.append('malloc:FAIL'); return Ptr(None, 0)
        s.log.append('malloc(%s)' % a[0]); return s._new(a[0], 'memalign')
    def free(s, it, a):
        p = a[0]
        if isinstance(p, Ptr) and p.obj is None: return None
        if not isinstance(p, Ptr) or s.live.get(p.obj, (None,))[0] != 'memalign' or p.off != 0: s.problems.append('free of %s which is not a live malloc/memalign block' % (p,)); return None
        s.live.pop(p.obj); s.log.append('free'); return None
    def mmap(s, it, a):
        addr, ln, prot = a[0], a[1], a[2]
        if s._fail('mmap'): s.log.append('mmap:FAIL'); return Ptr(None, (1 << 64) - 1)
        p = s._new(ln, 'mmap'); s.prot[p.obj] = prot; s.protlog.append(('mmap', p.obj, ln, prot)); s.log.append('mmap(%s,prot=%s)' % (ln, prot)); return p
    def munmap(s, it, a):
        p, ln = a[0], a[1]
        if not isinstance(p, Ptr) or s.live.get(p.obj, (None,))[0] != 'mmap' or p.off != 0: s.problems.append('munmap of %s which is not a live mapping' % (p,)); return -1
        if not (is_c(ln) and ln == s.live[p.obj][1]): s.problems.append('munmap length %s != mapped length %s' % (ln, s.live[p.obj][1]))
        s.live.pop(p.obj); s.log.append('munmap(%s)' % ln); return 0
    def mprotect(s, it, a):
        p, ln, prot = a[0], a[1], a[2]
        if not isinstance(p, Ptr) or p.obj not in s.live: s.problems.append('mprotect of %s which is not a live mapping' % (p,)); return -1
        if getattr(s, 'mprotect_may_fail', False) and not getattr(s, 'mprotect_failed', False):
            s.n += 1
            if s.it.decide(z3.BitVec('fail_mprotect_%d' % s.n, 1)):
                s.mprotect_failed = True; s.protlog.append(('mprotect(FAILED)', p.obj, ln, s.prot[p.obj])); s.log.append('mprotect:FAIL'); return (1 << 32) - 1
        s.prot[p.obj] = prot; s.protlog.append(('mprotect', p.obj, ln, prot)); s.log.append('mprotect(%s,%s)' % (ln, prot)); return 0

def fake_cache(it, mod, name='the_cache', key=b'', prog_size=1, shared=False):
    """an initialised randomx_cache object (interpreter flavour): zeroed, memory set, empty key, every program = `prog_size` ISUB_R instructions"""
    tc = resolve(NamedT('struct.randomx_cache', mod)); o = tc.layout()[0]
    c = it.mem.alloc(tc.size(), name)
    for k in range(0, tc.size(), 8): it.mem.store(Ptr(name, k), 0, 8)
    cm = it.mem.alloc(P.ARGON_MEMORY * 1024, name + '_memory'); it.mem.store(Ptr(name, o[0]), cm, 8)
    it.mem.store(Ptr(name, o[2]), Ptr(None, 0), 8)
    cxxlib.make_string(it.mem, name, o[7], list(key))
    tp = resolve(NamedT('class.randomx::SuperscalarProgram', mod)); po = tp.layout()[0]
    for k in range(P.CACHE_ACCESSES):
        base = o[5] + k * tp.size()
        it.mem.store(Ptr(name, base + po[1]), prog_size, 4); it.mem.store(Ptr(name, base + po[2]), k % 8, 4)
        for j in range(prog_size):
            it.mem.store(Ptr(name, base + 8 * j), 0, 1); it.mem.store(Ptr(name, base + 8 * j + 1), j % 8, 1); it.mem.store(Ptr(name, base + 8 * j + 2), (j + 1) % 8, 1)
    # empty reciprocal cache vector
    for k in range(3): it.mem.store(Ptr(name, o[6] + 8 * k), Ptr(None, 0), 8)
    if shared: it.mem.share(name, name + '_memory')      # handed to VMs of several threads: VM-side code may only read it (C14 footprint)
    return c

def run_ctors(it, mod):
    """dynamic initialisers of the linked units (sizes of the assembly templates etc.)"""
    from engine import irsym as _ir
    _ir.TRACK_GLOBALS[0] = False      # static initialisation runs before any thread exists: its writes to globals are not part of a footprint
    it.asm_zero = True          # cpuid results during static initialisation are irrelevant to the lemmas of this module: fixed, not forked
    for f in mod.funcs:
        if f.startswith('_GLOBAL__sub_I_'): it.call(f, [])
    it.asm_zero = False; _ir.TRACK_GLOBALS[0] = True

def bind_templates(it, ctx):
    """the hand-written template symbols of jit_compiler_x86_static.S as pointers into one 'text' object holding the assembled bytes"""
    syms, text = ctx['asm']['syms'], ctx['asm']['text']
    it.mem.alloc(len(text) + 64, 'text')
    for k, b in enumerate(text): it.mem.objs['text']['bytes'][k] = b
    it.extern = {nm: Ptr('text', off) for nm, off in syms.items()}

def run_H6(ctx, case):
    q = Q(30); mod = Module(ctx['ll']['lib']); F = flagvals(); entry = case['entry']; npaths = [0]; samples = []
    fixed = case.get('flags')
    def one(fk):
        it = Interp(mod); it.fork = fk; bind_templates(it, ctx)
        H0 = Heap(it, fail=False); cxxlib.install(it, H0); run_ctors(it, mod)          # static initialisation is not under test
        H = Heap(it, fail=True); cxxlib.install(it, H); esc = None; r = None
        flags = fixed
        try:
            if entry == 'alloc_dataset': r = it.call('randomx_alloc_dataset', [flags])
            elif entry == 'alloc_cache': r = it.call('randomx_alloc_cache', [flags])
            else:
                cache = dataset = Ptr(None, 0)
                c = fake_cache(it, mod, shared=True)
                d = it.mem.alloc(16, 'the_dataset'); dm = it.mem.alloc(P.DATASET_BASE + P.DATASET_EXTRA, 'dataset_memory'); it.mem.store(Ptr('the_dataset', 0), dm, 8); it.mem.share('the_dataset', 'dataset_memory')
                if flags & F['FULL_MEM']: dataset = d
                else: cache = c
                r = it.call('randomx_create_vm', [flags, cache, dataset])
        except Thrown as t:
            esc = t.ty
        npaths[0] += 1
        failed = [x for x in H.log if 'FAIL' in x]; tag = '%s(flags=%s) faults=%s' % (entry, flags, failed or 'none')
        def chk(c, what):
            q.n += 1; q.unsat += bool(c); q.sat += (not c)
            if not c: q.failed.append(('%s: %s [allocator log: %s]' % (tag, what, H.log[-12:]), dict(flags=flags, faults=failed)))
        chk(esc is None, 'an exception (%s) escapes the extern "C" function' % esc)
        chk(not H.problems, 'deallocation misuse: %s' % H.problems[:2])
        if esc is not None: return
        isnull = isinstance(r, Ptr) and r.obj is None
        if failed:
            chk(isnull, 'an allocation failed but the call did not return NULL')
            chk(not H.live, 'leak on the failure path: still live %s' % list(H.live.items())[:3])
        else:
            supported = True
            if entry == 'alloc_cache' and isnull: supported = False          # unsupported Argon2 flag combination is allowed to return NULL
            if supported:
                chk(not isnull, 'no allocation failed but the call returned NULL')
                if not isnull and entry == 'alloc_cache':
                    # a new cache must not look initialised whatever the heap block contained before (C03: no dependence on heap history)
                    tc_ = resolve(NamedT('struct.randomx_cache', mod)); tp_ = resolve(NamedT('class.randomx::SuperscalarProgram', mod))
                    sz = it.mem.load(Ptr(r.obj, tc_.layout()[0][5] + tp_.layout()[0][1]), 4)
                    chk(is_c(sz) and sz == 0, 'a freshly allocated cache can report isInitialized() (programs[0].size is %s, taken from stale heap content)' % (str(sz)[:40],))
                if not isnull:
                    H.fail = False
                    try:
                        it.call({'alloc_dataset': 'randomx_release_dataset', 'alloc_cache': 'randomx_release_cache', 'create_vm': 'randomx_destroy_vm'}[entry], [r])
                    except Thrown as t: chk(False, 'release throws %s' % t.ty)
                    chk(not H.problems, 'deallocation misuse on release: %s' % H.problems[:2])
                    chk(not H.live, 'release does not give back everything: still live %s' % list(H.live.items())[:3])
        if len(samples) < 3: samples.append(dict(faults=failed, log=H.log[:10], result='NULL' if isnull else 'object'))
        extent_checks(q, fk['pc'], it.mem, tag)
    res, nq = explore(one, limit=200); q.n += nq
    return result('H6', '%s flags=%s' % (entry, fixed), q, paths=npaths[0], detail='%d fault schedules; e.g. %s' % (npaths[0], samples[:2]))

def jobs_H6(ctx):
    F = flagvals(); J = []
    for lp in (0, F['LARGE_PAGES']):
        J.append(dict(entry='alloc_dataset', flags=lp))
        for jit in (0, F['JIT']):
            for a in (0, F['ARGON2_SSSE3'], F['ARGON2_AVX2']): J.append(dict(entry='alloc_cache', flags=lp | jit | a))
            for full in (0, F['FULL_MEM']):
                for aes in (0, F['HARD_AES']):
                    for sec in ((0, F['SECURE']) if jit else (0,)):
                        for v2 in (0, F['V2']) if ctx['tier'] == 'thorough' else (0,):
                            J.append(dict(entry='create_vm', flags=lp | jit | full | aes | sec | v2))
    return J

LEMMAS = {
    'H6': dict(jobs=jobs_H6, run=run_H6, units=['lib'], asm=True, functions=['randomx_alloc_cache', 'randomx_alloc_dataset', 'randomx_create_vm', 'randomx_release_cache', 'randomx_release_dataset', 'randomx_destroy_vm', 'AlignedAllocator::allocMemory/freeMemory', 'LargePageAllocator::*', 'deallocCache<>', 'deallocDataset<>', 'VmBase ctor/dtor/allocate', 'CompiledVm/CompiledLightVm/InterpretedVm ctors+dtors', 'JitCompilerX86 ctor/dtor', 'allocMemoryPages', 'allocLargePagesMemory', 'freePagedMemory'],
               doc='every allocation request inside a creating call may fail (symbolic fault schedule): result NULL, everything acquired so far released, no exception escapes, no deallocator misuse; fault-free: release returns the ghost heap to its entry state',
               bound='one creating call + its release; every supported flag combination (cache: 12, dataset: 2, vm: 24 / 48 with v2); every subset of failing requests that is reachable (<= 200 schedules per call)', symbolic='fault schedule (one boolean per allocation request)',
               stubs=['operator new/delete, posix_memalign/free, mmap/munmap/mprotect := ghost heap with nondeterministic failure', 'exception constructors := no-ops', 'static initialisers run fault-free'],
               outside='failures inside libstdc++ beyond operator new; hashing after a failed call (fresh objects are independent: H3)'),
}

# ---------------------------------------------------------------------------------------------- H7 (C16)
def run_H7(ctx, case):
    """secure VMs and JIT caches: no W+X protection is ever requested; code is generated only while RW and entered only while RX"""
    q = Q(30); mod = Module(ctx['ll']['lib']); F = flagvals(); npaths = [0]; seqs = []
    def one(fk):
        it = Interp(mod); it.fork = fk; bind_templates(it, ctx)
        H0 = Heap(it, fail=False); cxxlib.install(it, H0); run_ctors(it, mod)
        H = Heap(it, fail=False); cxxlib.install(it, H); events = []; H.mprotect_may_fail = True
        def code_obj(jit):
            L = resolve(NamedT('class.randomx::JitCompilerX86', mod)).layout()[0]
            c = it.mem.load(Ptr(jit.obj, jit.off + L[2]), 8); return c.obj if isinstance(c, Ptr) else None
        def gen(name):
            def h(s, a): events.append(('generate:' + name, code_obj(a[0]), H.prot.get(code_obj(a[0])))); return None
            return h
        for f in mod.funcs:
            for g in ('generateProgramERNS', 'generateProgramLightERNS', 'generateSuperscalarHashE', 'generateDatasetInitCodeE'):
                if 'JitCompilerX86' in f and g in f: it.hooks[f] = gen(g.split('E')[0])
        it.hooks['<indirect>'] = lambda s, fp, a: events.append(('execute', fp.obj, H.prot.get(fp.obj))) and None
        # per-hash data paths are irrelevant to page protections: havoc stubs
        for f in list(mod.funcs) + [g for g in mod.globals]:
            pass
        for nm in ('_Z11fillAes1Rx4ILb0EEvPvmS0_', '_Z11fillAes1Rx4ILb1EEvPvmS0_', '_Z11fillAes4Rx4ILb0EEvPvmS0_', '_Z11fillAes4Rx4ILb1EEvPvmS0_', '_Z11hashAes1Rx4ILb0EEvPKvmPv', '_Z11hashAes1Rx4ILb1EEvPKvmPv',
                   '_Z18hashAndFillAes1Rx4ILb0EEvPvmS0_S0_', '_Z18hashAndFillAes1Rx4ILb1EEvPvmS0_S0_', 'randomx_blake2b', 'randomx_argon2_validate_inputs', 'randomx_argon2_initialize', 'randomx_argon2_fill_memory_blocks',
                   '_ZN7randomx15Blake2GeneratorC1EPKvmi'):
            it.hooks[nm] = lambda s, a: 0
        def gensup(s, a):       # generateSuperscalar(prog, gen): any well-formed program; only its size matters here
            tp = resolve(NamedT('class.randomx::SuperscalarProgram', mod)); po = tp.layout()[0]
            s.mem.store(Ptr(a[0].obj, a[0].off + po[1]), 1, 4); s.mem.store(Ptr(a[0].obj, a[0].off), 0, 8); return None
        it.hooks['_ZN7randomx19generateSuperscalarERNS_18SuperscalarProgramERNS_15Blake2GeneratorE'] = gensup
        what = case['what']; log = []
        if what == 'vm':
            flags = z3.BitVec('flags', 32)
            fk['pc'] += [flags & F['SECURE'] != 0, flags & F['JIT'] != 0, z3.ULT(flags, 256), flags & (F['FULL_MEM'] | F['HARD_AES'] | F['LARGE_PAGES']) == case['cls']]
            full = it.decide(z3.If(flags & F['FULL_MEM'] != 0, z3.BitVecVal(1, 1), z3.BitVecVal(0, 1)))
            cache = fake_cache(it, mod, shared=True); d = it.mem.alloc(16, 'the_dataset'); dm = it.mem.alloc(P.DATASET_BASE + P.DATASET_EXTRA, 'dataset_memory'); it.mem.store(Ptr('the_dataset', 0), dm, 8); it.mem.share('the_dataset', 'dataset_memory')
            vm = it.call('randomx_create_vm', [flags, Ptr(None, 0) if full else cache, d if full else Ptr(None, 0)])
            if isinstance(vm, Ptr) and vm.obj is None: raise Exception('create_vm returned NULL without faults')
            seed = it.mem.alloc(64, 'seed'); out = it.mem.alloc(32, 'out'); inp = it.mem.alloc(16, 'inp')
            it.call('randomx_calculate_hash', [vm, inp, 16, out]); log.append('hash')
            if not full:
                c2 = fake_cache(it, mod, 'cache2', key=b'k2', shared=True); it.call('randomx_vm_set_cache', [vm, c2]); log.append('set_cache')
            else:
                it.call('randomx_vm_set_dataset', [vm, d]); log.append('set_dataset')
            it.call('randomx_calculate_hash_first', [vm, inp, 16]); it.call('randomx_calculate_hash_next', [vm, inp, 16, out]); it.call('randomx_calculate_hash_last', [vm, out]); log.append('batch')
            it.call('randomx_destroy_vm', [vm]); log.append('destroy')
        else:
            flags = F['JIT'] | case.get('extra', 0)
            c = it.call('randomx_alloc_cache', [flags])
            key = it.mem.alloc(8, 'key')
            for k in range(8): it.mem.store(Ptr('key', k), z3.BitVec('key%d' % k, 8), 1)
            it.call('randomx_init_cache', [c, key, 4]); log.append('init_cache')
            ds = it.mem.alloc(16, 'the_dataset'); dm = it.mem.mkarr('dataset_memory', P.DATASET_BASE + P.DATASET_EXTRA); it.mem.store(Ptr('the_dataset', 0), dm, 8)
            it.call('randomx_init_dataset', [ds, c, 0, 8]); log.append('init_dataset')
            it.call('randomx_init_cache', [c, key, 5]); log.append('re-key')
            it.call('randomx_init_dataset', [ds, c, 8, 3]); log.append('init_dataset')
            it.call('randomx_release_cache', [c]); log.append('release')
        npaths[0] += 1; tag = '%s %s' % (what, [str(z3.simplify(p_))[:50] for p_ in fk['pc'][3:6]])
        def chk(c_, msg):
            q.n += 1; q.unsat += bool(c_); q.sat += (not c_)
            if not c_: q.failed.append(('%s: %s' % (tag, msg), dict(protections=[(k_, l_, p_) for (k_, o_, l_, p_) in H.protlog][:12])))
        for (kind, obj, ln, prot) in H.protlog:
            chk(is_c(prot) and not (prot & PROT_WRITE and prot & PROT_EXEC), '%s requests protection %s (writable and executable) on a code buffer' % (kind, prot))
        for (ev, obj, prot) in ([] if getattr(H, 'mprotect_failed', False) else events):
            if ev.startswith('generate'): chk(prot is not None and is_c(prot) and prot & PROT_WRITE and not prot & PROT_EXEC, '%s while the buffer protection is %s (must be RW, not X)' % (ev, prot))
            else: chk(prot is not None and is_c(prot) and prot & PROT_EXEC and not prot & PROT_WRITE, 'generated code entered while the buffer protection is %s (must be RX)' % prot)
        chk(any(e[0] == 'execute' for e in events), 'harness reached code execution (vacuity witness)')
        chk(not H.live, 'objects left after destroy/release: %s' % list(H.live)[:3])
        seqs.append((log, [(e[0], e[2]) for e in events][:8]))
    res, nq = explore(one, limit=600); q.n += nq
    return result('H7', str(case), q, paths=npaths[0], detail='%d flag classes; e.g. %s' % (npaths[0], seqs[:1]))

LEMMAS['H7'] = dict(jobs=lambda ctx: [dict(what='vm', cls=c) for c in (0, 1, 2, 3, 4, 5, 6, 7)] + [dict(what='cache', extra=0), dict(what='cache', extra=1)], run=run_H7, units=['lib'], asm=True,
    functions=['randomx_create_vm', 'CompiledVm<*,*,true>::CompiledVm/run', 'CompiledLightVm<*,*,true>::setCache/run', 'randomx_vm_set_cache', 'randomx_calculate_hash*', 'randomx_destroy_vm', 'randomx_alloc_cache', 'randomx_init_cache', 'initCacheCompile', 'randomx_init_dataset', 'JitCompilerX86 ctor/dtor/enableWriting/enableExecution/enableAll', 'setPagesRW/RX/RWX', 'allocMemoryPages', 'pageProtect'],
    doc='for every secure JIT VM class (flag word symbolic, classes enumerated by the solver) and for JIT caches: every protection requested by mmap/mprotect lacks W or lacks X; code generation happens only under RW; generated code is entered only under RX',
    bound='one VM life: create, hash, re-bind, pipelined batch, destroy; one cache life: alloc, init, dataset init, re-key, dataset init, release; at most one failing mprotect per life (every position)', symbolic='flag word (secure JIT subset), keys',
    stubs=['mmap/mprotect/munmap := ghost protection state', 'JitCompilerX86::generate* := recorder of the protection at the time of the call', 'call into generated code := recorder', 'AES/Blake/Argon2 data paths := no-ops'],
    outside='the kernel honouring mprotect; non-Linux branches of virtual_memory.c')

# ---------------------------------------------------------------------------------------------- H3 (C03, C10)
def _quiet_data_paths(it, mod, events):
    def gen(name):
        def h(s, a): events.append((name, a)); return None
        return h
    for f in mod.funcs:
        for g in ('generateSuperscalarHash', 'generateDatasetInitCode', 'generateProgramLight', 'generateProgram'):
            if 'JitCompilerX86' in f and re.search(r'\d+' + g + 'E', f): it.hooks[f] = gen(g)
    for nm in ('randomx_argon2_validate_inputs', 'randomx_argon2_initialize', 'randomx_argon2_fill_memory_blocks', '_ZN7randomx15Blake2GeneratorC1EPKvmi', 'randomx_blake2b'):
        it.hooks[nm] = lambda s, a: 0

def run_H3(ctx, case):
    """one API call from an arbitrary (possibly stale) binding state re-establishes: VM bound to exactly the given live cache in its current initialisation"""
    q = Q(30); mod = Module(ctx['ll']['lib']); F = flagvals(); npaths = [0]; kind = case['kind']
    Lv = None
    def vm_fields(mod):
        t = resolve(NamedT('class.randomx_vm', mod)); o = t.layout()[0]
        tm = resolve(NamedT('struct.randomx::MemoryRegisters', mod)).layout()[0]
        return dict(cachePtr=o[7], memory=o[5] + tm[2], cacheKey=o[10])
    tc = resolve(NamedT('struct.randomx_cache', mod)); co = tc.layout()[0]
    tp = resolve(NamedT('class.randomx::SuperscalarProgram', mod))
    def one(fk):
        it = Interp(mod); it.fork = fk; bind_templates(it, ctx)
        H0 = Heap(it, fail=False); cxxlib.install(it, H0); run_ctors(it, mod)
        H = Heap(it, fail=False); cxxlib.install(it, H); events = []; _quiet_data_paths(it, mod, events)
        VF = vm_fields(mod)
        if kind in ('set_cache', 'create_vm'):
            la, lb = case['lens']
            keyC = [z3.BitVec('Ckey%d' % k, 8) for k in range(lb)]; keyV = [z3.BitVec('Vkey%d' % k, 8) for k in range(la)]
            C = fake_cache(it, mod, 'C', key=keyC, shared=True); dead = fake_cache(it, mod, 'DeadCache', key=[z3.BitVec('Dkey%d' % k, 8) for k in range(la)])
            flags = F['JIT'] if case['jit'] else 0
            boot = fake_cache(it, mod, 'BootCache', key=b'boot', shared=True)
            vm = it.call('randomx_create_vm', [flags, boot if kind == 'set_cache' else C, Ptr(None, 0)])
            if kind == 'create_vm':
                tag = 'create_vm(%s, C) keylen %d' % ('JIT' if case['jit'] else 'interpreted', lb)
            else:
                # arbitrary prior binding: to C itself or to a released cache whose block addresses the allocator may have handed out again
                events.clear()
                stale = it.decide(z3.BitVec('bound_to_released_cache', 1)); alias = it.decide(z3.BitVec('released_memory_address_reused', 1)) if stale else 1
                X = 'DeadCache' if stale else 'C'
                it.mem.store(Ptr(vm.obj, VF['cachePtr']), Ptr(X, 0), 8)
                it.mem.store(Ptr(vm.obj, VF['memory']), Ptr('C_memory', 0) if alias else Ptr('DeadCache_memory', 0), 8)
                cxxlib.make_string(it.mem, vm.obj, VF['cacheKey'], keyV)
                code_for = X
                it.call('randomx_vm_set_cache', [vm, C])
                tag = 'set_cache(%s vm previously bound to %s%s, key lengths %d/%d)' % ('JIT' if case['jit'] else 'interpreted', 'a released cache' if stale else 'the same cache', ' whose memory address was reused' if (stale and alias) else '', la, lb)
            npaths[0] += 1; pc = fk['pc']
            cp = it.mem.load(Ptr(vm.obj, VF['cachePtr']), 8); mp = it.mem.load(Ptr(vm.obj, VF['memory']), 8)
            def chk(c_, msg, site=None):
                q.n += 1; q.unsat += bool(c_); q.sat += (not c_)
                if not c_: q.failed.append(('%s: %s' % (tag, msg), dict(site=site)))
            site = 'randomx_vm_set_cache:stale-cachePtr-after-address-reuse' if kind == 'set_cache' else None
            chk(isinstance(cp, Ptr) and cp.obj == 'C', 'VM keeps using cache object %s instead of the cache it was given' % (getattr(cp, 'obj', cp),), site)
            chk(isinstance(mp, Ptr) and mp.obj == 'C_memory' and mp.off == 0, 'VM memory pointer is %s, not the given cache\'s memory' % (mp,), site)
            # key recorded by the VM == current key of C
            n_ = it.mem.load(Ptr(vm.obj, VF['cacheKey'] + 8), 8)
            if is_c(n_) and n_ == lb:
                dp = it.mem.load(Ptr(vm.obj, VF['cacheKey']), 8)
                for k in range(lb): q.prove_eq(pc, it.mem.load(Ptr(dp.obj, dp.off + k), 1), keyC[k], '%s: VM key byte %d == cache key' % (tag, k), 8)
            else:
                # length differs: only acceptable if ... never (a bound VM records the cache's key)
                chk(False, 'VM records a key of length %s, cache key has length %d' % (n_, lb))
            if case['jit']:
                gens = [e for e in events if e[0].startswith('generateSuperscalarHash')]
                if kind == 'create_vm' or code_for != 'C' or True:
                    # code must be (re)generated from C's programs unless the VM was already bound to this very cache with this key
                    need = kind == 'create_vm' or code_for != 'C'
                    if need:
                        ok = bool(gens) and isinstance(gens[-1][1][1], Ptr) and gens[-1][1][1].obj == 'C' and gens[-1][1][1].off == co[5]
                        chk(ok, 'SuperscalarHash code was not regenerated from the given cache\'s programs', site)
                    elif not gens:
                        # skipped: justified only if the recorded key equals the cache key on this path
                        if la == lb:
                            q.prove(pc, z3.And([keyV[k] == keyC[k] for k in range(la)]) if la else z3.BoolVal(True), '%s: regeneration skipped only for an identical key' % tag)
                        else: chk(False, 'regeneration skipped although the key length differs')
            elif kind == 'set_cache' and not stale:
                pass
        else:   # init_cache
            la, lb = case['lens']; old = [z3.BitVec('old%d' % k, 8) for k in range(la)]; new = [z3.BitVec('new%d' % k, 8) for k in range(lb)]
            C = fake_cache(it, mod, 'C', key=old)
            size0 = z3.BitVec('programs0_size', 32); it.mem.store(Ptr('C', co[5] + tp.layout()[0][1]), size0, 4)
            calls = []
            it.mem.store(Ptr('C', co[3]), Ptr('@fn:STUB_initialize', 0), 8)
            def init(s, a): calls.append(a); s.mem.store(Ptr('C', co[5] + tp.layout()[0][1]), 1, 4); return None
            it.hooks['STUB_initialize'] = init
            kb = it.mem.alloc(8, 'keybuf')
            for k in range(lb): it.mem.store(Ptr('keybuf', k), new[k], 1)
            it.call('randomx_init_cache', [C, kb, lb]); npaths[0] += 1; pc = fk['pc']
            tag = 'init_cache(old key length %d, new key length %d, %d initialise call)' % (la, lb, len(calls))
            def chk(c_, msg):
                q.n += 1; q.unsat += bool(c_); q.sat += (not c_)
                if not c_: q.failed.append(('%s: %s' % (tag, msg), {}))
            if calls:
                a = calls[0]; chk(len(calls) == 1 and a[0].obj == 'C' and a[1].obj == 'keybuf' and a[1].off == 0 and a[2] == lb, 'initialize(cache, key, keySize) arguments')
            else:
                # skipped: must imply same key (length and bytes) and an initialised cache
                if la != lb: chk(False, 're-initialisation skipped although the new key has a different length (the old content stays)')
                else:
                    q.prove(pc, z3.And([old[k] == new[k] for k in range(la)] + [size0 != 0]), '%s: skipped only if the key is byte-identical and the cache is initialised' % tag)
            n_ = it.mem.load(Ptr('C', co[7] + 8), 8); chk(is_c(n_) and n_ == lb, 'cache records key length %s, expected %d' % (n_, lb))
            if is_c(n_) and n_ == lb:
                dp = it.mem.load(Ptr('C', co[7]), 8)
                for k in range(lb): q.prove_eq(pc, it.mem.load(Ptr(dp.obj, dp.off + k), 1), new[k], '%s: recorded key byte %d' % (tag, k), 8)
        extent_checks(q, fk['pc'], it.mem, tag)
    res, nq = explore(one, limit=64); q.n += nq
    r = result('H3', str(case), q, paths=npaths[0], detail='%d paths' % npaths[0])
    sites = [f[1].get('site') for f in q.failed if isinstance(f[1], dict) and f[1].get('site')]
    if sites and len(sites) == len(q.failed): r['site'] = sites[0]
    return r

def jobs_H3(ctx):
    J = []
    lens = [(a, b) for a in range(0, 4) for b in range(0, 4)] if ctx['tier'] == 'thorough' else [(0, 0), (2, 2), (3, 2), (2, 3), (0, 1), (1, 0)]
    for l in lens:
        J.append(dict(kind='init_cache', lens=l))
        for jit in (False, True): J.append(dict(kind='set_cache', lens=l, jit=jit))
    for jit in (False, True): J.append(dict(kind='create_vm', lens=(2, 2), jit=jit))
    return J

LEMMAS['H3'] = dict(jobs=jobs_H3, run=run_H3, units=['lib'], asm=True,
    functions=['randomx_vm_set_cache', 'randomx_init_cache', 'randomx_create_vm', 'InterpretedLightVm::setCache', 'CompiledLightVm::setCache', 'std::string compare/assign (modelled)'],
    doc='binding bookkeeping, one inductive step per API call from an arbitrary prior binding (same cache, or a released cache whose addresses may have been handed out again): afterwards the VM uses exactly the given cache object, its memory, its current key, and (JIT) code generated from its programs; init_cache skips work only for a byte-identical key on an initialised cache',
    bound='keys of length <= 3 (all length pairs in thorough, 6 pairs quick), symbolic key bytes; interpreted and compiled light VMs; one call', symbolic='key bytes, prior binding (object identity, address reuse), initialised flag',
    stubs=['std::string := SSO model', 'Argon2/Blake2 generator/JIT code generation := recorders', 'cache->initialize := recorder'], outside='sequences violating the documented contract (hash on a VM bound to a released cache without re-binding)')

# ---------------------------------------------------------------------------------------------- H9: the compiled dataset initialiser belongs to the current key
def run_H9(ctx, case):
    """JIT cache: alloc, init(key A), [init_dataset], init(key B), init_dataset -- whenever generated code is entered, SuperscalarHash and dataset-init code
    have been generated from this cache's program array after the programs were last rewritten"""
    q = Q(30); mod = Module(ctx['ll']['lib']); F = flagvals(); npaths = [0]
    tc = resolve(NamedT('struct.randomx_cache', mod)); co = tc.layout()[0]
    def one(fk):
        it = Interp(mod); it.fork = fk; bind_templates(it, ctx)
        H0 = Heap(it, fail=False); cxxlib.install(it, H0); run_ctors(it, mod)
        H = Heap(it, fail=False); cxxlib.install(it, H); events = []
        def gen(name):
            def h(s, a): events.append((name, a)); return None
            return h
        for f in mod.funcs:
            for g in ('generateSuperscalarHashE', 'generateDatasetInitCodeE'):
                if 'JitCompilerX86' in f and g in f: it.hooks[f] = gen(g[:-1])
        it.hooks['<indirect>'] = lambda s, fp, a: events.append(('execute', [fp] + list(a))) and None
        for nm in ('randomx_blake2b', 'randomx_argon2_validate_inputs', 'randomx_argon2_initialize', 'randomx_argon2_fill_memory_blocks', '_ZN7randomx15Blake2GeneratorC1EPKvmi'):
            it.hooks[nm] = lambda s, a: 0
        def gensup(s, a):
            tp = resolve(NamedT('class.randomx::SuperscalarProgram', mod)); po = tp.layout()[0]
            s.mem.store(Ptr(a[0].obj, a[0].off + po[1]), 1, 4); s.mem.store(Ptr(a[0].obj, a[0].off), 0, 8); events.append(('program', a)); return None
        it.hooks['_ZN7randomx19generateSuperscalarERNS_18SuperscalarProgramERNS_15Blake2GeneratorE'] = gensup
        def once(s, a):      # pthread_once(flag, __once_proxy) as libstdc++'s std::call_once uses it: the callable runs iff the flag has not fired; the flag lives in a long-lived object
            v = s.mem.load(a[0], 4)
            fired = (v != 0) if is_c(v) else s.decide(z3.If(bv(v, 32) != 0, z3.BitVecVal(1, 1), z3.BitVecVal(0, 1)))
            if fired: return 0
            s.mem.store(a[0], 2, 4)
            fp = s.mem.load(s.glob('_ZSt11__once_call'), 8)
            if not (isinstance(fp, Ptr) and str(fp.obj).startswith('@fn:')): raise Unsupported('pthread_once: callable of std::call_once not found')
            s.call(fp.obj[4:], []); return 0
        it.hooks['pthread_once'] = once
        c = it.call('randomx_alloc_cache', [F['JIT'] | case.get('extra', 0)])
        if not isinstance(c, Ptr) or c.obj is None: raise Exception('randomx_alloc_cache returned NULL without faults')
        key = it.mem.alloc(8, 'key')
        for k in range(8): it.mem.store(Ptr('key', k), z3.BitVec('key%d' % k, 8), 1)
        ds = it.mem.alloc(16, 'the_dataset'); dm = it.mem.mkarr('dataset_memory', P.DATASET_BASE + P.DATASET_EXTRA); it.mem.store(Ptr('the_dataset', 0), dm, 8)
        it.call('randomx_init_cache', [c, key, 4])
        if case['first_dataset']: it.call('randomx_init_dataset', [ds, c, 0, 8])
        it.call('randomx_init_cache', [c, key, 5])        # a different key (other length): must re-initialise
        it.call('randomx_init_dataset', [ds, c, 8, 3])
        npaths[0] += 1; tag = 'JIT cache, key A%s, key B, init_dataset' % (', init_dataset' if case['first_dataset'] else '')
        def chk(c_, msg):
            q.n += 1; q.unsat += bool(c_); q.sat += (not c_)
            if not c_: q.failed.append(('%s: %s' % (tag, msg), dict(events=[e[0] for e in events])))
        names = [e[0] for e in events]
        ex = [i for i, n_ in enumerate(names) if n_ == 'execute']; pr = [i for i, n_ in enumerate(names) if n_ == 'program']
        # vacuity: the scenario must really rewrite the programs for the second key and enter generated code afterwards (otherwise this harness no longer exercises the code: inconclusive, not a violation)
        if not pr or not ex or not any(i > pr[-1] for i in ex) or (case['first_dataset'] and not any(i > ex[0] for i in pr)):
            q.inconclusive.append(tag + ': scenario not exercised (programs rewritten %d times, generated code entered %d times)' % (len(pr), len(ex))); return
        for i in ex:
            lastp = max([j for j in range(i) if names[j] == 'program'] or [-1])
            gh = [j for j in range(i) if names[j] == 'generateSuperscalarHash']; gd = [j for j in range(i) if names[j] == 'generateDatasetInitCode']
            chk(bool(gh) and gh[-1] > lastp, 'generated code entered although SuperscalarHash code was last generated before the programs were rewritten (stale code of the previous key)')
            chk(bool(gd) and gd[-1] > lastp, 'generated code entered although the dataset-init code was last generated before the programs were rewritten')
            if gh:
                a = events[gh[-1]][1]
                chk(isinstance(a[1], Ptr) and a[1].obj == c.obj and a[1].off == co[5], 'SuperscalarHash code generated from this cache\'s program array')
            fp = events[i][1][0]; a = events[i][1][1:]
            chk(isinstance(a[0], Ptr) and a[0].obj == c.obj, 'generated dataset-init code receives this cache')
    res, nq = explore(one, limit=64); q.n += nq
    return result('H9', str(case), q, paths=npaths[0])

LEMMAS['H9'] = dict(jobs=lambda ctx: [dict(first_dataset=f) for f in (1, 0)], run=run_H9, units=['lib'], asm=True,
    functions=['randomx_alloc_cache', 'randomx_init_cache', 'initCacheCompile', 'initCache (program loop)', 'randomx_init_dataset'],
    doc='compiled dataset initialisation after re-keying: on every path of alloc_cache(JIT); init_cache(A); [init_dataset]; init_cache(B); init_dataset the generated code is entered only after SuperscalarHash code and dataset-init code were generated from this cache\'s program array later than the last rewrite of the programs',
    bound='one JIT cache, two keys of different length, item ranges (0,8) and (8,3)', symbolic='key bytes',
    stubs=['Argon2 fill, Blake2 generator, generateSuperscalar := recorders (any program)', 'JIT code generation := recorders', 'pthread_once := runs the std::call_once callable iff the flag word is zero, then sets it'], outside='what the generated code computes (J5)')

# ---------------------------------------------------------------------------------------------- H8: v1 <-> v2 switch
def run_H8(ctx, case):
    """setFlagV2 / clearFlagV2 of the VM classes built by randomx_create_vm, from an arbitrary flag word: one inductive step per switch"""
    from lemmas import api
    q = Q(30); mod = Module(ctx['ll']['lib']); F = flagvals(); npaths = [0]; V2 = F['V2']
    def one(fk):
        it = Interp(mod); it.fork = fk; bind_templates(it, ctx)
        H0 = Heap(it, fail=False); cxxlib.install(it, H0); run_ctors(it, mod)
        H = Heap(it, fail=False); cxxlib.install(it, H); events = []; _quiet_data_paths(it, mod, events)
        C = fake_cache(it, mod, 'C', key=b'k', shared=True)
        flags = (F['JIT'] if case['jit'] else 0) | (F['HARD_AES'] if case.get('aes') else 0)
        vm = it.call('randomx_create_vm', [flags, C, Ptr(None, 0)])
        if not isinstance(vm, Ptr) or vm.obj is None: raise Exception('randomx_create_vm returned no machine')
        L = api.vm_layout(mod); f = z3.BitVec('vmFlags_before', 32); it.mem.store(Ptr(vm.obj, L['vmFlags']), f, 4)
        vp = it.mem.load(Ptr(vm.obj, 0), 8); meth = {}
        for k in range(0, 24):
            try: fp = it.mem.load(Ptr(vp.obj, vp.off + 8 * k), 8)
            except Exception: break
            if isinstance(fp, Ptr) and str(fp.obj).startswith('@fn:'):
                nm = fp.obj[4:]
                if re.search(r'\d+setFlagV2Ev$', nm): meth['set'] = nm
                if re.search(r'\d+clearFlagV2Ev$', nm): meth['clear'] = nm
        if set(meth) != {'set', 'clear'}: raise Exception('setFlagV2 / clearFlagV2 not found in the vtable of the created machine')
        seen = []
        for nm in list(mod.funcs):
            if re.search(r'JitCompiler\w*8setFlagsE', nm):
                def rec(s, a, nm=nm):
                    seen.append(a); h = s.hooks.pop(nm); r = s.call(nm, a); s.hooks[nm] = h; return r
                it.hooks[nm] = rec
        it.call(meth[case['op']], [vm]); npaths[0] += 1; pc = fk['pc']
        exp = (f | V2) if case['op'] == 'set' else (f & ~V2)
        tag = '%s %s machine, %sFlagV2()' % ('compiled' if case['jit'] else 'interpreted', 'hard-AES' if case.get('aes') else 'soft-AES', case['op'])
        q.prove_eq(pc, it.mem.load(Ptr(vm.obj, L['vmFlags']), 4), exp, tag + ': version bit %s whatever it was before, every other flag unchanged' % ('set' if case['op'] == 'set' else 'cleared'), 32)
        if case['jit']:
            if not seen: q.inconclusive.append(tag + ': no JitCompiler::setFlags call seen - how the code generator learns the version is not recognised by this harness')
            else:
                ok = isinstance(seen[-1][0], Ptr) and seen[-1][0].obj == vm.obj
                q.n += 1; q.unsat += ok; q.sat += (not ok)
                if not ok: q.failed.append((tag + ': setFlags called on a code generator that is not this machine\'s', {}))
                else: q.prove_eq(pc, seen[-1][1], exp, tag + ': flags handed to the code generator == flags of the machine', 32)
    res, nq = explore(one, limit=64); q.n += nq
    return result('H8', str(case), q, paths=npaths[0])

LEMMAS['H8'] = dict(jobs=lambda ctx: [dict(jit=j, op=o, aes=a) for j in (0, 1) for o in ('set', 'clear') for a in ((0,) if ctx['tier'] == 'quick' else (0, 1))], run=run_H8, units=['lib'], asm=True,
    functions=['randomx_create_vm', 'randomx_vm::setFlagV2', 'randomx_vm::clearFlagV2', 'CompiledVm::setFlagV2', 'CompiledVm::clearFlagV2', 'JitCompilerX86::setFlags'],
    doc='version switch, one inductive step from an arbitrary flag word: setFlagV2 sets and clearFlagV2 clears the version bit whatever it was before (a redundant switch is a no-op), no other flag changes, and a compiled machine hands exactly the new flags to its code generator',
    bound='light-mode interpreted and compiled machines as built by randomx_create_vm (soft AES; + hard AES thorough); one switch; every 32-bit flag word', symbolic='flag word before the switch',
    stubs=['Argon2/Blake2 generator/JIT code generation := recorders', 'operator new := ghost heap (no failure)'], outside='full-memory machines (same class templates, dataset binding not built in this harness)')

# ---------------------------------------------------------------------------------------------- K1: VM glue around the engines (C01, C03)
def run_K1(ctx, case):
    """what run(seed) of every VM class does around the engine: program generation with the right AES flavour into the VM's own program buffer,
    VM programming, (JIT) code generation with the VM's flags and dataset offset, dataset base = memory + datasetOffset, engine entered with the VM's own
    register file / memory registers / scratchpad and RANDOMX_PROGRAM_ITERATIONS; v1<->v2 switches reach the compiler"""
    q = Q(30); mod = Module(ctx['ll']['lib']); F = flagvals(); flags = case['flags']; from lemmas.api import vm_layout, vtable_slots
    it = Interp(mod); bind_templates(it, ctx); H0 = Heap(it, fail=False); cxxlib.install(it, H0); run_ctors(it, mod)
    H = Heap(it, fail=False); cxxlib.install(it, H); ev = []
    def rec(name):
        def h(s, a): ev.append((name, a)); return None
        return h
    for f in mod.funcs:
        for g in ('generateSuperscalarHash', 'generateDatasetInitCode', 'generateProgramLight', 'generateProgram'):
            if 'JitCompilerX86' in f and re.search(r'\d+' + g + 'E', f): it.hooks[f] = rec(g)
        if re.search(r'InterpretedVm.*7executeEv$', f): it.hooks[f] = rec('execute')
    for soft in (0, 1):
        for nm, short in (('_Z11fillAes4Rx4ILb%dEEvPvmS0_', 'fillAes4Rx4'), ('_Z11fillAes1Rx4ILb%dEEvPvmS0_', 'fillAes1Rx4')):
            it.hooks[nm % soft] = (lambda n_, s_: lambda s, a: ev.append((n_, a, s_)) and None)(short, soft)
    it.hooks['<indirect>'] = lambda s, fp, a: ev.append(('enter_code', [fp] + list(a))) and None
    full = bool(flags & F['FULL_MEM']); jit = bool(flags & F['JIT']); hard = bool(flags & F['HARD_AES'])
    cache = fake_cache(it, mod, shared=True); d = it.mem.alloc(16, 'the_dataset'); dm = it.mem.alloc(P.DATASET_BASE + P.DATASET_EXTRA, 'dataset_memory'); it.mem.store(Ptr('the_dataset', 0), dm, 8); it.mem.share('the_dataset', 'dataset_memory')
    vm = it.call('randomx_create_vm', [flags, Ptr(None, 0) if full else cache, d if full else Ptr(None, 0)])
    L = vm_layout(mod); tm = resolve(NamedT('struct.randomx::MemoryRegisters', mod)).layout()[0]; tag = 'VM(flags=%d)' % flags
    def chk(c, what):
        q.n += 1; q.unsat += bool(c); q.sat += (not c)
        if not c: q.failed.append(('%s: %s' % (tag, what), {}))
    chk(isinstance(vm, Ptr) and vm.obj is not None, 'created'); 
    if not (isinstance(vm, Ptr) and vm.obj): return result('K1', str(case), q, paths=1)
    mp = it.mem.load(Ptr(vm.obj, L['mem'] + tm[2]), 8)
    if not jit or not full: chk(isinstance(mp, Ptr) and mp.obj == ('dataset_memory' if full else 'the_cache_memory') and mp.off == 0, 'after creation the interpreter/light VM reads from the %s memory' % ('dataset' if full else 'cache'))
    # run(seed) through the vtable
    vt = it.mem.load(Ptr(vm.obj, 0), 8); slots, n = vtable_slots(mod, 'InterpretedVm'); runslot = [k for k, v in slots.items() if v == 'run'][0]
    runfn = it.mem.load(Ptr(vt.obj, vt.off + 8 * runslot), 8); seed = it.mem.alloc(64, 'seed')
    del ev[:]; dso = z3.BitVec('datasetOffset_entropy', 64)
    # make the program's entropy[13] symbolic so that datasetOffset is symbolic after initialize(): fillAes4Rx4 is a recorder, so fill the program buffer here
    for k in range(16): it.mem.store(Ptr(vm.obj, L['program'] + 8 * k), z3.BitVec('entropy%d' % k, 64), 8)
    it.call(runfn.obj[4:], [vm, seed])
    names = [e[0] for e in ev]
    want = ['fillAes4Rx4'] + ((['generateProgram' if full else 'generateProgramLight', 'enter_code']) if jit else ['execute'])
    chk(names == want, 'run(seed) performs %s, expected %s' % (names, want))
    if names == want:
        a = ev[0]; psize = 128 + 8 * build.config_constants().get('RANDOMX_PROGRAM_MAX_SIZE', 384)
        chk(a[1][0].obj == 'seed' and a[1][1] == psize and a[1][2].obj == vm.obj and a[1][2].off == L['program'], 'program = AesGenerator4R(seed) over the whole program buffer (%d bytes) of this VM' % psize)
        chk(a[2] == (0 if hard else 1), 'program generator uses the %s AES flavour selected by the flags' % ('hardware' if hard else 'software'))
        dsoff = it.mem.load(Ptr(vm.obj, L['datasetOffset']), 8)
        if jit:
            g = ev[1][1]
            chk(g[1].obj == vm.obj and g[1].off == L['program'] and g[2].obj == vm.obj and g[2].off == L['config'], 'code generated from this VM\'s program and configuration')
            if not full: q.prove_eq([], g[3], z3.Extract(31, 0, bv(dsoff, 64)), '%s: light JIT code is generated with this program\'s datasetOffset' % tag, 32)
            c = ev[2][1]; TJ = resolve(NamedT('class.randomx::JitCompilerX86', mod)).layout()[0]
            chk(isinstance(c[0], Ptr) and c[0].obj == it.mem.load(Ptr(g[0].obj, g[0].off + TJ[2]), 8).obj and c[0].off == 0, 'the generated code of this VM\'s compiler is entered at its start')
            chk(c[1].obj == vm.obj and c[1].off == L['reg'] and c[2].obj == vm.obj and c[2].off == L['mem'], 'engine runs on this VM\'s register file and memory registers')
            sp = it.mem.load(Ptr(vm.obj, L['scratchpad']), 8); chk(isinstance(c[3], Ptr) and c[3].obj == sp.obj and c[3].off == 0, 'engine runs on this VM\'s scratchpad')
            chk(c[4] == P.P['RANDOMX_PROGRAM_ITERATIONS'], 'engine runs RANDOMX_PROGRAM_ITERATIONS iterations')
            mp = it.mem.load(Ptr(vm.obj, L['mem'] + tm[2]), 8)
            if full:
                ok = isinstance(mp, Ptr) and mp.obj == 'dataset_memory'; chk(ok, 'fast mode: dataset base pointer points into the dataset')
                if ok: q.prove_eq([], mp.off, dsoff, '%s: fast mode: dataset base = dataset memory + datasetOffset' % tag, 64)
            else: chk(isinstance(mp, Ptr) and mp.obj == 'the_cache_memory' and mp.off == 0, 'light mode: memory pointer = cache memory')
            # flags reach the compiler, also after version switches
            jf = it.mem.load(Ptr(g[0].obj, g[0].off + TJ[4]), 4); q.prove_eq([], jf, flags, '%s: compiler flags == VM flags' % tag, 32)
            for meth, expect in (('setFlagV2', flags | F['V2']), ('clearFlagV2', flags & ~F['V2'])):
                sl = [k for k, v in slots.items() if v == meth]
                if sl:
                    fn = it.mem.load(Ptr(vt.obj, vt.off + 8 * sl[0]), 8); it.call(fn.obj[4:], [vm])
                    q.prove_eq([], it.mem.load(Ptr(g[0].obj, g[0].off + TJ[4]), 4), expect, '%s: %s reaches the compiler' % (tag, meth), 32)
                    q.prove_eq([], it.mem.load(Ptr(vm.obj, L['vmFlags']), 4), expect, '%s: %s updates the VM flags' % (tag, meth), 32)
        else:
            chk(ev[1][1][0].obj == vm.obj, 'interpreter loop runs on this VM')
    it.call('randomx_destroy_vm', [vm]); chk(not H.live, 'everything released')
    return result('K1', 'flags=%d' % flags, q, paths=1)

LEMMAS['K1'] = dict(jobs=lambda ctx: [dict(flags=f) for f in (0, 2, 4, 6, 8, 10, 12, 14, 24, 28, 30)], run=run_K1, units=['lib'], asm=True,
    functions=['InterpretedVm::run', 'CompiledVm::run', 'CompiledLightVm::run', 'CompiledVm::CompiledVm', 'setFlagV2/clearFlagV2', 'VmBase::generateProgram', 'randomx_vm::initialize', 'setDataset/setCache of every class'],
    doc='glue around the engines for every VM class: program = AesGenerator4R(seed) over the VM\'s whole program buffer with the AES flavour of the flags; JIT code generated from this program/configuration/datasetOffset with the VM\'s flags (also after v1<->v2 switches); fast mode dataset base = memory + datasetOffset; engine entered on the VM\'s own register file, memory registers, scratchpad, for RANDOMX_PROGRAM_ITERATIONS',
    bound='one run(seed) per class (11 flag combinations incl. secure), symbolic program entropy', symbolic='configuration quadwords', stubs=['AES generators, code generators, generated code, interpreter loop := recorders'])
