# property -> lemmas; lemma -> module.  (explanations = the composition argument of DESIGN.md section 6)
LEMMA_MODULE = {}
def _reg(mod, names):
    for n in names: LEMMA_MODULE[n] = mod
_reg('blake', ['B1', 'B2', 'B3', 'B4', 'B5'])
_reg('argon', ['G1', 'G2', 'G3', 'G4', 'G5', 'G6', 'B6'])
_reg('aes', ['A1', 'A2', 'A3', 'A5', 'A4'])
_reg('isa', ['I1', 'I4', 'I6'])
_reg('jit', ['J1', 'X0', 'X1'])
_reg('recip', ['R1', 'R2', 'R3'])
_reg('api', ['H1', 'D2', 'I7'])
_reg('life', ['H6', 'H7', 'H3', 'K1', 'H8', 'H9'])
_reg('sshash', ['S4', 'D1', 'S1', 'S5', 'S2', 'S3'])
_reg('vmloop', ['I8'])
_reg('foot', ['F1'])
_reg('frame', ['J3', 'J4', 'J5'])
_reg('portable', ['P1', 'P3', 'P4'])
_reg('a64', ['N0', 'N1', 'N5'])
_reg('a64frame', ['N3', 'N6', 'N4'])
_reg('rv64', ['V0', 'V1', 'V5'])
_reg('rv64frame', ['V3', 'V6', 'V4'])

PROPS = {
 'C11': dict(level='other', lemmas=['B1', 'B2', 'B3', 'B4', 'B5'],
   files=['src/blake2/blake2b.c', 'src/blake2/blake2.h', 'src/blake2/blake2-impl.h', 'src/blake2/endian.h', 'src/randomx.cpp'],
   explanation='Blake2b conformance is decomposed into lemmas over the real functions of src/blake2/blake2b.c lowered to LLVM IR on this run: B1 the compression function equals RFC 7693 F for all inputs (term-level equivalence); B2 one blake2b_update call from an arbitrary valid state equals the byte-wise RFC streaming semantics for every (buflen, inlen) inside the bound, with the compression function abstracted to an uninterpreted function (sound by B1) and an arbitrary 128-bit counter (covers totals beyond 2^32 and 2^64 carries) - because the reference is a fold over bytes, every chunking of a message gives the same state; B3 blake2b_final equals the RFC final step and writes exactly outlen bytes; B4 init/init_key build the RFC parameter block over arbitrary stale memory, invalid parameters are rejected, and the one-shot blake2b() is init;update;final with rejected calls never writing; B5 the commitment is Blake2b-256(input||hash). The composition of the lemmas into the end-to-end statement is a paper argument (DESIGN.md 6/C11).',
   trusted=['RFC 7693 transcription in spec/blake2b_ref.py (self-tested against hashlib)'], outside=['single update calls longer than the stated bound; composition of lemmas is on paper']),
 'C10': dict(level='other', lemmas=['G1', 'G2', 'G4', 'B1', 'B2', 'B3', 'B4', 'H3', 'G3', 'G5', 'G6', 'B6'],
   files=['src/dataset.cpp', 'src/argon2_core.c', 'src/argon2_ref.c', 'src/argon2_ssse3.c', 'src/argon2_avx2.c', 'src/blake2/blamka-round-ref.h', 'src/blake2/blamka-round-ssse3.h', 'src/blake2/blamka-round-avx2.h', 'src/blake2/blake2b.c'],
   explanation='TODO', trusted=['RFC 9106 transcription in spec/argon2_ref.py'], outside=[]),
 'C12': dict(level='other', lemmas=['A1', 'A2', 'A3', 'A5', 'A4', 'J3'],
   files=['src/aes_hash.cpp', 'src/aes_hash.hpp', 'src/soft_aes.cpp', 'src/soft_aes.h', 'src/intrin_portable.h', 'src/virtual_machine.cpp', 'src/asm/program_loop_store_hard_aes.inc', 'src/asm/program_loop_store_soft_aes.inc', 'doc/specs.md'],
   explanation='TODO', trusted=['FIPS-197 transcription in spec/aes_ref.py (self-tested on the FIPS-197 appendix B vector)', 'Intel SDM: AESENC/AESDEC == FIPS-197 round / inverse round'], outside=[]),
 'C05': dict(level='other', lemmas=['I1', 'I7', 'I8', 'J1'],
   files=['src/bytecode_machine.cpp', 'src/bytecode_machine.hpp', 'src/instruction.hpp', 'src/virtual_machine.cpp', 'src/vm_interpreted.cpp', 'src/intrin_portable.h', 'src/instructions_portable.cpp', 'src/common.hpp', 'src/configuration.h', 'doc/specs.md'],
   explanation='TODO', trusted=['doc/specs.md chapter 4-5 transcription in spec/vm_ref.py'], outside=[]),
 'C04': dict(level='translation_validation', lemmas=['X0', 'X1', 'J1', 'J3', 'J4', 'A4', 'I1'],
   files=['src/jit_compiler_x86.cpp', 'src/jit_compiler_x86.hpp', 'src/jit_compiler_x86_static.S', 'src/bytecode_machine.cpp', 'src/bytecode_machine.hpp', 'src/vm_interpreted.cpp', 'src/vm_compiled.cpp', 'src/instruction_weights.hpp'],
   explanation='TODO', trusted=['x86-64 semantics of engine/x86sem.py (Intel SDM transcription for the ~60 forms used)', 'doc/specs.md chapter 5 transcription'], outside=[]),
 'C20': dict(level='translation_validation', lemmas=['V0', 'V3', 'V4', 'V5', 'V6', 'V1'],
   claim='PARTIAL: per-instruction translation validation of the scalar RISC-V emitters (h_*, emitImm32, genAddress*, loadFromScratchpad, emitRcpLiteral1) against the specification step, validation of the generated SuperscalarHash routine (generateSuperscalarHash + runtime templates) against specification 7.3, and of the hand-written program loop as generateProgram stitches it (full and light mode, v1 and v2 with its software-AES F/E mix) against specification 4.6, under an RV64GC model whose decoder is cross-checked against LLVM and whose semantics are an unvalidated transcription of the ISA manual; the vector back-end and the Zba/Zbb emitter variants are outside the claim. Bounds are listed in the evidence.',
   technique='symbolic execution of the emitter (clang LLVM IR, own interpreter), execution of the emitted RV64GC code under an RV64 semantics written for this task (engine/rv64sem.py), SMT (z3) equivalence with the specification step per obligation; lemmas: V0,V3,V4,V5,V6,V1',
   files=['src/jit_compiler_rv64.cpp', 'src/jit_compiler_rv64.hpp', 'src/jit_compiler_rv64_static.S', 'src/jit_compiler_rv64_static.hpp', 'src/jit_compiler.hpp', 'doc/specs.md'],
   explanation='TODO', trusted=['RV64GC semantics of engine/rv64sem.py (ISA manual transcription for the ~60 forms used; decoding cross-checked against LLVM, semantics not validated on hardware)', 'doc/specs.md chapter 5 transcription'], outside=[]),
 'C19': dict(level='translation_validation', lemmas=['N0', 'N3', 'N4', 'N5', 'N6', 'N1'],
   claim='PARTIAL: per-instruction translation validation of the ARM64 emitters (JitCompilerA64::h_*, emitMovImmediate, emitAddImmediate, emitMemLoad, emitMemLoadFP) against the specification step, validation of the generated dataset-item function (generateSuperscalarHash + runtime templates) against specification 7.3, and of the hand-written main loop as generateProgram patches it (full and light mode, v1 and v2 with hardware or software AES) against specification 4.6, under an A64 model whose decoder is cross-checked against LLVM and whose semantics are an unvalidated transcription of the Arm ARM; code-buffer capacity is outside the claim. Bounds are listed in the evidence.',
   technique='symbolic execution of the emitter (clang LLVM IR, own interpreter), execution of the emitted A64 words under an A64 semantics written for this task (engine/a64sem.py), SMT (z3) equivalence with the specification step per obligation; lemmas: N0,N3,N4,N5,N6,N1',
   files=['src/jit_compiler_a64.cpp', 'src/jit_compiler_a64.hpp', 'src/jit_compiler_a64_static.S', 'src/jit_compiler_a64_static.hpp', 'doc/specs.md'],
   explanation='TODO', trusted=['A64 semantics of engine/a64sem.py (Arm ARM transcription for the ~45 forms used; decoding cross-checked against LLVM, semantics not validated on hardware)', 'doc/specs.md chapter 5 transcription'], outside=[]),
 'C18': dict(level='other', lemmas=['R1', 'R2', 'R3'],
   files=['src/reciprocal.c', 'src/reciprocal.h', 'src/asm/randomx_reciprocal.inc', 'src/common.hpp', 'src/bytecode_machine.cpp', 'src/jit_compiler_x86.cpp', 'src/dataset.cpp', 'src/superscalar.cpp'],
   explanation='TODO', trusted=['Euclidean characterisation of unsigned division'], outside=[]),
 'C08': dict(level='translation_validation', lemmas=['D2', 'D1', 'S4', 'J5', 'F1', 'H9', 'H3'],
   files=['src/randomx.cpp', 'src/dataset.cpp', 'src/dataset.hpp', 'src/superscalar.cpp', 'src/jit_compiler_x86.cpp', 'src/jit_compiler_x86_static.S', 'src/vm_interpreted_light.cpp'],
   explanation='TODO', trusted=[], outside=[]),
 'C13': dict(level='other', lemmas=['H1'],
   files=['src/randomx.cpp', 'src/virtual_machine.cpp', 'src/intrin_portable.h', 'src/instructions_portable.cpp', 'src/jit_compiler_x86.cpp', 'src/bytecode_machine.hpp'],
   explanation='TODO', trusted=[], outside=[]),
 'C15': dict(level='other', lemmas=['H6'],
   files=['src/randomx.cpp', 'src/allocator.cpp', 'src/virtual_memory.c', 'src/virtual_machine.cpp', 'src/vm_compiled.hpp', 'src/vm_interpreted.hpp', 'src/jit_compiler_x86.cpp', 'src/dataset.hpp', 'src/dataset.cpp'],
   explanation='TODO', trusted=[], outside=[]),
 'C16': dict(level='other', lemmas=['H7'],
   files=['src/vm_compiled.cpp', 'src/vm_compiled_light.cpp', 'src/dataset.cpp', 'src/virtual_memory.c', 'src/jit_compiler_x86.cpp', 'src/randomx.cpp'],
   explanation='TODO', trusted=[], outside=[]),
 'C03': dict(level='other', lemmas=['H3', 'H8', 'H1', 'H6', 'K1', 'G3', 'G6', 'G4'],
   files=['src/randomx.cpp', 'src/virtual_machine.cpp', 'src/virtual_machine.hpp', 'src/vm_compiled_light.cpp', 'src/vm_interpreted_light.cpp', 'src/vm_compiled.cpp', 'src/dataset.hpp', 'src/aes_hash.cpp'],
   explanation='TODO', trusted=[], outside=[]),
 'C09': dict(level='translation_validation', lemmas=['S4', 'S1', 'S2', 'S3', 'S5'],
   files=['src/superscalar.cpp', 'src/superscalar.hpp', 'src/superscalar_program.hpp', 'src/blake2_generator.cpp', 'src/dataset.cpp', 'src/jit_compiler_x86.cpp', 'src/reciprocal.c', 'doc/specs.md'],
   explanation='TODO', trusted=[], outside=[]),
 'C07': dict(level='other', footprint=True, lemmas=['I4', 'I6', 'I1', 'J1'],
   files=['src/bytecode_machine.cpp', 'src/bytecode_machine.hpp', 'src/jit_compiler_x86.cpp', 'src/configuration.h', 'src/common.hpp', 'doc/specs.md'],
   explanation='TODO', trusted=[], outside=[]),
 'C14': dict(level='other', footprint=True, max_jobs_per_lemma=6, lemmas=['F1', 'K1', 'H6', 'H7', 'I8', 'J3', 'J5', 'I1', 'J1', 'D1', 'D2', 'S1', 'S4', 'A5', 'A2', 'B2', 'B3', 'H1', 'H3', 'G4'],
   files=['src/randomx.cpp', 'src/virtual_machine.cpp', 'src/dataset.cpp', 'src/vm_interpreted_light.cpp', 'src/vm_compiled_light.cpp', 'src/superscalar.cpp', 'src/soft_aes.cpp', 'src/cpu.cpp', 'src/jit_compiler_x86_static.S'],
   explanation='TODO', trusted=[], outside=[]),
 'C02': dict(level='other', lemmas=['H1', 'F1', 'I7', 'I8', 'I1', 'B1', 'B2', 'B3', 'B4', 'A1', 'A2', 'A3', 'A5', 'S1', 'S2', 'S3', 'S4', 'S5', 'D1', 'G1', 'G4', 'R1', 'G3', 'G5', 'G6', 'B6', 'H3'],
   files=['doc/specs.md', 'src/randomx.cpp', 'src/virtual_machine.cpp', 'src/vm_interpreted.cpp', 'src/bytecode_machine.cpp', 'src/bytecode_machine.hpp', 'src/aes_hash.cpp', 'src/dataset.cpp', 'src/superscalar.cpp', 'src/blake2_generator.cpp', 'src/argon2_core.c', 'src/argon2_ref.c', 'src/blake2/blake2b.c', 'src/configuration.h'],
   explanation='TODO', trusted=[], outside=[]),
 'C01': dict(level='other', lemmas=['K1', 'J3', 'J1', 'I1', 'I8', 'A2', 'A3', 'A5', 'D1', 'D2', 'S4', 'G2', 'G4', 'H1', 'H7'],
   files=['src/randomx.cpp', 'src/vm_interpreted.cpp', 'src/vm_interpreted_light.cpp', 'src/vm_compiled.cpp', 'src/vm_compiled_light.cpp', 'src/virtual_machine.cpp', 'src/jit_compiler_x86.cpp', 'src/jit_compiler_x86_static.S', 'src/aes_hash.cpp', 'src/soft_aes.cpp', 'src/dataset.cpp'],
   explanation='TODO', trusted=[], outside=[]),
 'C06': dict(level='other', lemmas=['J4', 'I1', 'J1', 'I8', 'J3', 'J5', 'I7', 'D1', 'D2', 'A5', 'B2', 'B3', 'H1', 'S4', 'G4'],
   files=['src/common.hpp', 'src/bytecode_machine.hpp', 'src/bytecode_machine.cpp', 'src/vm_interpreted.cpp', 'src/virtual_machine.cpp', 'src/jit_compiler_x86.cpp', 'src/jit_compiler_x86_static.S', 'src/dataset.cpp', 'src/randomx.cpp'],
   explanation='TODO', trusted=[], outside=[]),
 'C17': dict(level='other', lemmas=['P1', 'P3', 'P4'],
   files=['src/intrin_portable.h', 'src/instructions_portable.cpp', 'src/randomx.cpp', 'src/blake2/endian.h', 'src/bytecode_machine.hpp', 'src/soft_aes.cpp'],
   explanation='TODO', trusted=[], outside=[]),
}

from lemmas.explanations import E as _E
for _k, _v in _E.items():
    if _k in PROPS: PROPS[_k]['explanation'] = _v
