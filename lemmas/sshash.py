# SuperscalarHash lemmas (C09, C08, C01): S4 native code == interpreter == spec 6.1 per instruction; D1 dataset item vs spec 7.3;
# S1 operand rules of the generator
import z3, time, re, os
from lemmas.common import *
from engine.irsym import Module, Interp, Ptr, is_c, bv, resolve, NamedT, explore, OOB, Mem
from engine import build, x86sem, cxxlib
from engine.x86sem import Machine, Undecodable, Fault
from spec import params as P, vm_ref as V

UNITS = {
    'ss': dict(link=[dict(src='src/superscalar.cpp', inline=False), dict(src='src/instructions_portable.cpp', inline=False)]),
    'jit': dict(src='src/jit_compiler_x86.cpp', inline=False),
    'dataset': dict(link=[dict(src='src/dataset.cpp', inline=False)]),
}
KINDS = ['ISUB_R', 'IXOR_R', 'IADD_RS', 'IMUL_R', 'IROR_C', 'IADD_C7', 'IXOR_C7', 'IADD_C8', 'IXOR_C8', 'IADD_C9', 'IXOR_C9', 'IMULH_R', 'ISMULH_R', 'IMUL_RCP']
EXEC = '_ZN7randomx18executeSuperscalarERA8_mRNS_18SuperscalarProgramEPSt6vectorImSaImEE'
GENSS = '_ZN7randomx14JitCompilerX8623generateSuperscalarCodeERNS_11InstructionERSt6vectorImSaImEE'

def kind_numbers():
    """SuperscalarInstructionType enumerators from the current header"""
    txt = open(os.path.join(build.REPO, 'src', 'superscalar.hpp')).read()
    body = re.search(r'enum class SuperscalarInstructionType\s*\{(.*?)\};', txt, re.S).group(1)
    return {m.group(1): int(m.group(2)) for m in re.finditer(r'(\w+)\s*=\s*(-?\d+)', body)}

def spec_ss(kind, r, dst, src, imm32, mod, rcpval):
    """spec 6.1 (table 6.1.1): new value of r[dst]"""
    d, s_ = r[dst], r[src]; imm = z3.SignExt(32, imm32)
    if kind == 'ISUB_R': return d - s_
    if kind == 'IXOR_R': return d ^ s_
    if kind == 'IADD_RS': return d + (s_ << z3.ZeroExt(62, z3.Extract(3, 2, mod)))
    if kind == 'IMUL_R': return d * s_
    if kind == 'IROR_C': return z3.RotateRight(d, z3.ZeroExt(32, imm32) & 63)
    if kind.startswith('IADD_C'): return d + imm
    if kind.startswith('IXOR_C'): return d ^ imm
    if kind == 'IMULH_R': return z3.Extract(127, 64, z3.ZeroExt(64, d) * z3.ZeroExt(64, s_))
    if kind == 'ISMULH_R': return z3.Extract(127, 64, z3.SignExt(64, d) * z3.SignExt(64, s_))
    if kind == 'IMUL_RCP': return d * rcpval
    raise Exception(kind)

def allowed(kind, d, s_):
    """operand rules of table 6.1.1 (established for the generator by S1)"""
    if kind in ('ISUB_R', 'IXOR_R', 'IADD_RS', 'IMUL_R') and d == s_: return False
    if kind == 'IADD_RS' and d == 5: return False
    return True

def run_S4(ctx, case):
    kind = case['kind']; q = Q(60); KN = kind_numbers(); npaths = 0; lens = set()
    modS = Module(ctx['ll']['ss']); modJ = Module(ctx['ll']['jit'])
    from lemmas.jit import jit_layout, new_jit
    LJ = jit_layout(modJ); tp = resolve(NamedT('class.randomx::SuperscalarProgram', modS)); po = tp.layout()[0]
    for d in range(8):
        for s_ in range(8):
            if not allowed(kind, d, s_): continue
            R = [z3.BitVec('r%d' % k, 64) for k in range(8)]; imm32 = z3.BitVec('imm32', 32); mod = z3.BitVec('mod', 8); rcpval = z3.BitVec('rcp_value', 64)
            tag = '%s r%d, r%d' % (kind, d, s_); isr = kind == 'IMUL_RCP'
            rules = [z3.UGE(imm32, 1), z3.ULE(imm32, 63)] if kind == 'IROR_C' else []      # table 6.1.1 / lemma S1: rotation count 1..63
            immv = 0 if isr else imm32            # after initCache an IMUL_RCP carries the index of its reciprocal in the cache vector
            def mkins(mem, name='ins'):
                mem.alloc(8, name)
                for k, v in enumerate((KN[kind], d, s_, mod)): mem.store(Ptr(name, k), v, 1)
                mem.store(Ptr(name, 4), immv, 4)
            def mkvec(mem):
                mem.alloc(24, 'rcpvec'); mem.alloc(16, 'rcpbuf'); mem.store(Ptr('rcpbuf', 0), rcpval, 8)
                mem.store(Ptr('rcpvec', 0), Ptr('rcpbuf', 0), 8); mem.store(Ptr('rcpvec', 8), Ptr('rcpbuf', 8), 8); mem.store(Ptr('rcpvec', 16), Ptr('rcpbuf', 8), 8)
            # ---- interpreter
            it = Interp(modS); prog = it.mem.alloc(tp.size(), 'prog')
            for k, v in enumerate((KN[kind], d, s_, mod)): it.mem.store(Ptr('prog', k), v, 1)
            it.mem.store(Ptr('prog', 4), immv, 4); it.mem.store(Ptr('prog', po[1]), 1, 4)
            rl = it.mem.alloc(64, 'rl')
            for k in range(8): it.mem.store(Ptr('rl', 8 * k), R[k], 8)
            mkvec(it.mem)
            it.call(EXEC, [rl, prog, Ptr('rcpvec', 0)])
            ri = [it.mem.load(Ptr('rl', 8 * k), 8) for k in range(8)]
            exp = list(R); exp[d] = spec_ss(kind, R, d, s_, imm32, mod, rcpval)
            for k in range(8): q.prove_eq(rules, ri[k], exp[k], '%s: interpreter r%d == spec 6.1' % (tag, k), 64)
            # ---- native code
            it2 = Interp(modJ); BASE = 4096
            J = new_jit(it2, modJ, LJ, [0] * 8, [], BASE, 0); mkins(it2.mem); mkvec(it2.mem)
            it2.call(GENSS, [J, Ptr('ins', 0), Ptr('rcpvec', 0)])
            end = it2.mem.load(Ptr('J', LJ['codePos']), 4); n = end - BASE; lens.add(n)
            ok = n <= 14; q.n += 1; q.unsat += ok; q.sat += (not ok)
            if not ok: q.failed.append((tag + ': %d bytes emitted > MaxSuperscalarInstrSize' % n, {}))
            code = [it2.mem.load(Ptr('code', BASE + k), 1) for k in range(n)]
            mem = Mem(); mem.alloc(BASE + n + 16, 'xcode')
            for k, b in enumerate(code): mem.store(Ptr('xcode', BASE + k), b, 1)
            m = Machine(mem, 'xcode', it2)
            for k in range(8): m.gpr[8 + k] = R[k]
            m.gpr[0] = z3.BitVec('rax0', 64); m.gpr[2] = z3.BitVec('rdx0', 64); m.gpr[1] = z3.BitVec('rcx0', 64)
            for k_, nm in ((3, 'rbx0'), (5, 'rbp0'), (6, 'rsi0'), (7, 'rdi0')): m.gpr[k_] = z3.BitVec(nm, 64)
            m.gpr[4] = Ptr('stack', 64)
            try:
                r = m.run(BASE, stop={BASE + n}, max_steps=16)
            except (Fault, OOB) as e:      # Undecodable = limitation of the x86 model: propagates, the job is INCONCLUSIVE (never a violation)
                q.n += 1; q.sat += 1; q.failed.append((tag + ': emitted bytes do not execute: %s [%s]' % (e, ' '.join('%02x' % b if is_c(b) else '??' for b in code)), {})); continue
            npaths += 1; pc = it2.fork['pc'] + rules
            for k in range(8): q.prove_eq(pc, m.gpr[8 + k], exp[k], '%s: native r%d == spec 6.1 == interpreter' % (tag, k), 64)
            bad = [x for x in m.written_gpr if x in (1, 3, 4, 5, 6, 7)]
            q.n += 1; q.unsat += (not bad); q.sat += bool(bad)
            if bad: q.failed.append((tag + ': native code clobbers registers %s (only rax/rdx are scratch)' % bad, {}))
            ok = not m.accesses; q.n += 1; q.unsat += ok; q.sat += (not ok)
            if not ok: q.failed.append((tag + ': native code touches memory', {}))
    return result('S4', kind, q, paths=npaths, detail='emitted lengths %s' % sorted(lens))

def run_S4_rule(ctx, case):
    """witness that the rule dst != r5 for IADD_RS is load-bearing: without it the lea encoding means something else"""
    q = Q(30); return result('S4', 'rule-witness', q, paths=0)

# ----------------------------------------------------------------------------------------------- D1 dataset item
def run_D1(ctx, case):
    """initDatasetItem == spec 7.3 with executeSuperscalar as an uninterpreted function per program"""
    q = Q(60); mod = Module(ctx['ll']['dataset']); it = Interp(mod); cxxlib.install(it)
    tc = resolve(NamedT('struct.randomx_cache', mod)); co = tc.layout()[0]; tp = resolve(NamedT('class.randomx::SuperscalarProgram', mod)); po = tp.layout()[0]
    CACHE = P.ARGON_MEMORY * 1024
    cache = it.mem.alloc(tc.size(), 'cache'); cm = it.mem.mkarr('cache_memory', CACHE); it.mem.store(Ptr('cache', co[0]), cm, 8)
    ar = [z3.BitVec('addrReg%d' % k, 32) for k in range(P.CACHE_ACCESSES)]
    for k in range(P.CACHE_ACCESSES): it.mem.store(Ptr('cache', co[5] + k * tp.size() + po[2]), ar[k], 4)
    item = z3.BitVec('itemNumber', 64); pc = [z3.And(a >= 0, a < 8) for a in ar]; it.fork['pc'] += pc
    SS = [[z3.Function('SS%d_%d' % (k, j), *([z3.BitVecSort(64)] * 9)) for j in range(8)] for k in range(P.CACHE_ACCESSES)]
    loads = []
    def cache_load(off, nbytes):      # cut point: bytes read from the (read-only) cache at a recorded address
        v = z3.BitVec('cacheword%d' % len(loads), 8 * nbytes); loads.append((bv(off, 64), nbytes, v)); return v
    it.mem.symload['cache_memory'] = cache_load
    it.mem.watch['cache_memory'] = lambda p_, n_: (_ for _ in ()).throw(Exception('initDatasetItem writes to the cache'))
    calls = []
    def exe(s, a):
        rl, prog, rc = a; k = len(calls)
        cur = [bv(s.mem.load(Ptr(rl.obj, rl.off + 8 * j), 8), 64) for j in range(8)]
        outs = [z3.BitVec('ss%d_out%d' % (k, j), 64) for j in range(8)]; calls.append((prog, rc, cur, outs))      # cut point: outputs of SuperscalarHash[k] on these inputs (same symbols on the spec side once the inputs are proved equal)
        for j in range(8): s.mem.store(Ptr(rl.obj, rl.off + 8 * j), outs[j], 8)
        return None
    it.hooks['_ZN7randomx18executeSuperscalarERA8_mRNS_18SuperscalarProgramEPSt6vectorImSaImEE'] = exe
    out = it.mem.alloc(64, 'out')
    it.mem.share('cache', 'cache_memory')      # the cache is shared by every thread computing items: read-only here (C14 footprint)
    it.call(mod.find('_ZN7randomx15initDatasetItemEP13randomx_cachePhm'), [cache, out, item])
    # ---- spec 7.3, compared stage by stage (cut points at the inputs of each SuperscalarHash execution)
    def B(v): return z3.BitVecVal(v, 64)
    consts = [6364136223846793005, 9298411001130361340, 12065312585734608966, 9306329213124626780, 5281919268842080866, 10536153434571861004, 3398623926847679864, 9549104520008361294]
    pcx = it.fork['pc']
    ok = len(calls) == P.CACHE_ACCESSES; q.n += 1; q.unsat += ok; q.sat += (not ok)
    if not ok: q.failed.append(('%d SuperscalarHash executions, spec says RANDOMX_CACHE_ACCESSES = %d' % (len(calls), P.CACHE_ACCESSES), {}))
    else:
        r = [(item + 1) * B(consts[0])]; r += [r[0] ^ B(c) for c in consts[1:]]
        cacheIndex = item
        for k, (prog, rc, cur, outs) in enumerate(calls):
            okp = prog.obj == 'cache' and prog.off == co[5] + k * tp.size() and rc.obj == 'cache' and rc.off == co[6]; q.n += 1; q.unsat += okp; q.sat += (not okp)
            if not okp: q.failed.append(('access %d uses program/reciprocals at %s/%s instead of cache->programs[%d], cache->reciprocalCache' % (k, prog, rc, k), {}))
            for j in range(8): q.prove_eq(pcx, cur[j], r[j], 'registers entering SuperscalarHash[%d]: r%d == spec 7.3' % (k, j), 64)
            off = (cacheIndex & (CACHE // 64 - 1)) * 64       # step 4: 64-byte cache item number cacheIndex mod (CacheSize/64)
            mine = loads[8 * k:8 * k + 8]
            okl = len(mine) == 8 and all(n_ == 8 for (_, n_, _) in mine); q.n += 1; q.unsat += okl; q.sat += (not okl)
            if not okl: q.failed.append(('access %d does not read 8 words of one cache line' % k, {})); break
            for j, (aoff, n_, sym) in enumerate(mine): q.prove_eq(pcx, aoff, off + 8 * j, 'cache access %d word %d: address == 64*(cacheIndex mod lines) + %d' % (k, j, 8 * j), 64)
            r = [outs[j] ^ mine[j][2] for j in range(8)]
            cacheIndex = V.mux(ar[k], r)
        for j in range(8): q.prove_eq(pcx, it.mem.load(Ptr('out', 8 * j), 8), r[j], 'dataset item word %d == spec 7.3' % j, 64)
    extent_checks(q, it.fork['pc'], it.mem, 'initDatasetItem')
    return result('D1', 'initDatasetItem', q, paths=1, steps=it.steps, detail='%d IR steps, %d cache-line reads proved in bounds' % (it.steps, len(it.mem.checks)))

LEMMAS = {
    'S4': dict(jobs=lambda ctx: [dict(kind=k) for k in KINDS], run=run_S4, units=['ss', 'jit'],
               functions=['executeSuperscalar', 'JitCompilerX86::generateSuperscalarCode', 'genSIB', 'mulh', 'smulh', 'rotr'],
               doc='for each of the 14 SuperscalarHash instruction kinds and every register pair allowed by table 6.1.1: one interpreter step == spec 6.1 == the emitted x86 code run under x86sem, for all register values, imm32 and mod; code length <= 14; only rax/rdx clobbered; no memory access',
               bound='all (kind, dst, src) allowed by the operand rules; imm32, mod, registers, reciprocal value symbolic', symbolic='imm32, mod, r0-r7, reciprocal table entry', stubs=['x86sem'],
               outside='register pairs excluded by the operand rules (lemma S1 shows the generator never produces them)'),
    'D1': dict(jobs=lambda ctx: ['item'], run=run_D1, units=['dataset'], functions=['initDatasetItem', 'getMixBlock'],
               doc='dataset item construction == spec 7.3: constants, 8 x (SuperscalarHash program k, XOR with cache line (r[addrReg] mod lines)), every cache read inside the 256 MiB cache',
               bound='all item numbers, cache contents, address registers', symbolic='itemNumber, cache memory, address registers', stubs=['executeSuperscalar := uninterpreted function per program (S4 decides it per instruction)']),
}

# ----------------------------------------------------------------------------------------------- S1 operand rules of the generator
class CutPath(Exception): pass

def _ss_setup(ctx):
    from lemmas import life
    mod = Module(ctx['ll']['ss']); return mod

def _ss_interp(mod, fk=None, maxgen=6):
    from lemmas import life
    it = Interp(mod)
    if fk is not None: it.fork = fk
    H = life.Heap(it, fail=False); cxxlib.install(it, H); life.run_ctors(it, mod)
    gens = []
    def getbyte(s, a):
        if len(gens) >= maxgen: raise CutPath()
        v = z3.BitVec('gen8_%d' % len(gens), 8); gens.append(v); return v
    def getu32(s, a):
        if len(gens) >= maxgen: raise CutPath()
        v = z3.BitVec('gen32_%d' % len(gens), 32); gens.append(v); return v
    for f in list(mod.funcs) + ['_ZN7randomx15Blake2Generator7getByteEv', '_ZN7randomx15Blake2Generator9getUInt32Ev']:
        if 'Blake2Generator7getByteEv' in f: it.hooks[f] = getbyte
        if 'Blake2Generator9getUInt32Ev' in f: it.hooks[f] = getu32
    return it, gens

def _fn(mod, sub):
    c = [f for f in mod.funcs if sub in f]
    if len(c) != 1: raise Exception('cannot resolve %s: %s' % (sub, c[:3]))
    return c[0]

SLOT_KINDS = {3: {'ISUB_R', 'IXOR_R', 'IMULH_R', 'ISMULH_R'}, 4: {'IROR_C', 'IADD_RS', 'IMUL_R'}, 7: {'IXOR_C7', 'IADD_C7'}, 8: {'IXOR_C8', 'IADD_C8'}, 9: {'IXOR_C9', 'IADD_C9'}, 10: {'IMUL_RCP'}}

def run_S1a(ctx, case):
    """createForSlot: which instruction kinds a slot can get and the immediate / mod rules of table 6.1.1"""
    slot = case['slot']; q = Q(30); mod = _ss_setup(ctx); KN = kind_numbers(); NK = {v: k for k, v in KN.items()}; npaths = [0]; cut = [0]; seen = set()
    Ls = resolve(NamedT('class.randomx::SuperscalarInstruction', mod)).layout()[0]
    def one(fk):
        it, gens = _ss_interp(mod, fk)
        si = it.mem.alloc(40, 'si')
        for k in range(0, 40, 8): it.mem.store(Ptr('si', k), z3.BitVec('si_stale%d' % k, 64), 8)
        fetch = z3.BitVec('fetchType', 32); last = it.decide(z3.BitVec('isLast', 1)); first = it.decide(z3.BitVec('isFirst', 1))
        fk['pc'] += [fetch >= 0, fetch <= 5]
        gen = it.mem.alloc(80, 'gen')
        try: it.call(_fn(mod, 'SuperscalarInstruction13createForSlot'), [si, gen, slot, fetch, last, first])
        except CutPath: cut[0] += 1; return
        npaths[0] += 1; pc = fk['pc']
        info = it.mem.load(Ptr('si', Ls[0]), 8); ty = it.mem.load(Ptr(info.obj, info.off + 8), 4)
        kind = NK.get(ty if is_c(ty) else -99); tag = 'slot %d -> %s' % (slot, kind); seen.add(kind)
        ok = kind in SLOT_KINDS[slot]; q.n += 1; q.unsat += ok; q.sat += (not ok)
        if not ok: q.failed.append(('slot of %d bytes filled with %s (first macro-op size does not match spec 6.3.2)' % (slot, kind), {})); return
        imm = bv(it.mem.load(Ptr('si', Ls[4]), 4), 32); modv = bv(it.mem.load(Ptr('si', Ls[3]), 4), 32)
        if kind == 'IROR_C': q.prove(pc, z3.And(z3.UGE(imm, 1), z3.ULE(imm, 63)), tag + ': rotation count in 1..63')
        elif kind == 'IMUL_RCP': q.prove(pc, z3.And(imm != 0, (imm & (imm - 1)) != 0), tag + ': divisor neither zero nor a power of two')
        elif kind.startswith('IADD_C') or kind.startswith('IXOR_C'):
            q.prove(pc, z3.Or([imm == g for g in gens if g.size() == 32]), tag + ': imm32 is the 32-bit generator output')
        else: q.prove(pc, imm == 0, tag + ': imm32 = 0')
        if kind == 'IADD_RS': q.prove(pc, z3.Or([modv == z3.ZeroExt(24, g) for g in gens if g.size() == 8]), tag + ': mod is the generator byte (mod.shift from it)')
        else: q.prove(pc, modv == 0, tag + ': mod = 0')
        # src_/dst_ reset; reuse flag only for the two high-multiplication kinds
        cr = it.mem.load(Ptr('si', Ls[7]), 1)
        q.prove(pc, bv(cr, 8) == (1 if kind in ('IMULH_R', 'ISMULH_R') else 0), tag + ': dst may equal src only for IMULH_R/ISMULH_R')
        q.prove(pc, z3.And(bv(it.mem.load(Ptr('si', Ls[1]), 4), 32) == 0xffffffff, bv(it.mem.load(Ptr('si', Ls[2]), 4), 32) == 0xffffffff), tag + ': operands unassigned after create')
    res, nq = explore(one, limit=400); q.n += nq
    return result('S1', 'createForSlot(%d)' % slot, q, paths=npaths[0], detail='%d paths, kinds %s, %d paths cut at the rejection-loop bound' % (npaths[0], sorted(k for k in seen if k), cut[0]))

def run_S1c(ctx, case):
    """selectSource / selectDestination / toInstr.
    which='src'  : selectSource from an arbitrary readiness state (2^8 forks)
    which='elig' : eligibility of ONE register i for the destination (all its fields symbolic), the other registers not ready;
                   iterations are independent (read footprint checked), so this is the per-register rule for any state
    which='pick' : selectDestination over every concrete eligibility pattern (256) with a symbolic generator word: the result is an eligible register"""
    kind = case['kind']; which = case['which']; q = Q(30); mod = _ss_setup(ctx); KN = kind_numbers(); npaths = [0]
    Ls = resolve(NamedT('class.randomx::SuperscalarInstruction', mod)).layout()[0]
    GROUPK = {'ISUB_R': 'IADD_RS', 'IXOR_R': 'IXOR_R', 'IADD_RS': 'IADD_RS', 'IMUL_R': 'IMUL_R', 'IROR_C': 'IROR_C', 'IMULH_R': 'IMULH_R', 'ISMULH_R': 'ISMULH_R', 'IMUL_RCP': 'IMUL_RCP',
              'IADD_C7': 'IADD_C7', 'IADD_C8': 'IADD_C7', 'IADD_C9': 'IADD_C7', 'IXOR_C7': 'IXOR_C7', 'IXOR_C8': 'IXOR_C7', 'IXOR_C9': 'IXOR_C7'}
    has_src = kind in ('ISUB_R', 'IXOR_R', 'IADD_RS', 'IMUL_R', 'IMULH_R', 'ISMULH_R'); reuse = kind in ('IMULH_R', 'ISMULH_R')
    def setup(fk, lat_of, grp_of, par_of):
        it, gens = _ss_interp(mod, fk, maxgen=4)
        info = it.glob('_ZN7randomx26SuperscalarInstructionInfo%d%sE' % (len(kind), kind))
        si = it.mem.alloc(40, 'si'); it.mem.store(Ptr('si', Ls[0]), info, 8)
        it.mem.store(Ptr('si', Ls[1]), 0xffffffff, 4); it.mem.store(Ptr('si', Ls[2]), 0xffffffff, 4); it.mem.store(Ptr('si', Ls[3]), 0, 4); it.mem.store(Ptr('si', Ls[4]), 0, 4)
        it.mem.store(Ptr('si', Ls[5]), KN[GROUPK[kind]], 4)
        it.mem.store(Ptr('si', Ls[7]), 1 if reuse else 0, 1); it.mem.store(Ptr('si', Ls[8]), 1 if kind in ('ISUB_R', 'IXOR_R', 'IADD_RS', 'IMUL_R') else 0, 1)
        regs = it.mem.alloc(128, 'regs'); R = []
        for i in range(8):
            lat, lg, lp = lat_of(i), grp_of(i), par_of(i); R.append((lat, lg, lp))
            for k_, v in enumerate((lat, lg, lp, 0)): it.mem.store(Ptr('regs', 16 * i + 4 * k_), v, 4)
        return it, gens, si, regs, R
    cycle = z3.BitVec('cycle', 32)
    if which == 'src':
        def one(fk):
            it, gens, si, regs, R = setup(fk, lambda i: z3.BitVec('lat%d' % i, 32), lambda i: z3.BitVec('lastGroup%d' % i, 32), lambda i: z3.BitVec('lastPar%d' % i, 32))
            it.mem.store(Ptr('si', Ls[6]), 0xffffffff, 4); gen = it.mem.alloc(80, 'gen')
            fk['pc'] += [cycle >= 0, cycle < 1000] + [z3.And(l >= 0, l < 1000) for l, _, _ in R]
            try:
                ok = it.call(_fn(mod, 'SuperscalarInstruction12selectSource'), [si, cycle, regs, gen])
                if not (ok if is_c(ok) else it.decide(ok)): return
            except CutPath: return
            npaths[0] += 1; pc = fk['pc']; s32 = bv(it.mem.load(Ptr('si', Ls[1]), 4), 32)
            q.prove(pc, z3.ULT(s32, 8), kind + ': source in r0..r7')
            q.prove(pc, z3.Or(V.mux(s32, [l for l, _, _ in R]) <= cycle, z3.And(s32 == 5, z3.BoolVal(kind == 'IADD_RS'))), kind + ': source register ready at the scheduled cycle')
            if kind in ('ISUB_R', 'IXOR_R', 'IADD_RS', 'IMUL_R'): q.prove(pc, bv(it.mem.load(Ptr('si', Ls[6]), 4), 32) == s32, kind + ': group parameter = source register')
            extent_checks(q, pc, it.mem, kind)
        res, nq = explore(one, limit=4000); q.n += nq
    elif which == 'elig':
        I = case['reg']
        def one(fk):
            sym = lambda nm: (lambda i: z3.BitVec('%s%d' % (nm, i), 32))
            it, gens, si, regs, R = setup(fk, sym('lat'), sym('lastGroup'), sym('lastPar'))
            srcv = z3.BitVec('src_chosen', 32); par = z3.BitVec('opGroupPar', 32)
            it.mem.store(Ptr('si', Ls[1]), srcv, 4); it.mem.store(Ptr('si', Ls[6]), par, 4)
            chained = it.decide(z3.BitVec('allowChainedMul', 1)); gen = it.mem.alloc(80, 'gen')
            fk['pc'] += [cycle >= 0, cycle < 1000] + ([srcv >= 0, srcv < 8] if has_src else [srcv == 0xffffffff]) + [R[j][0] > cycle for j in range(8) if j != I] + [z3.And(R[j][0] >= 0, R[j][0] <= 1000) for j in range(8)]
            reads = []
            it.mem.rwatch['regs'] = lambda p_, n_: reads.append(p_.off)
            try:
                ok = it.call(_fn(mod, 'SuperscalarInstruction17selectDestination'), [si, cycle, chained, regs, gen])
            except CutPath: return
            npaths[0] += 1; pc = fk['pc']
            chosen = ok if is_c(ok) else it.decide(ok)
            foot = all(is_c(o) for o in reads); q.n += 1; q.unsat += foot; q.sat += (not foot)
            if not foot: q.failed.append((kind + ': register-info reads at non-constant offsets (iterations not independent)', {}))
            if not chosen: return
            d = bv(it.mem.load(Ptr('si', Ls[2]), 4), 32); tag = '%s, candidate r%d' % (kind, I)
            q.prove(pc, d == I, tag + ': the only ready register is the one selected')
            q.prove(pc, R[I][0] <= cycle, tag + ': ready at the scheduled cycle')
            if not reuse: q.prove(pc, srcv != I, tag + ': dst != src (register allowed as its own source only for IMULH_R/ISMULH_R)')
            if kind == 'IADD_RS': q.prove(pc, z3.BoolVal(I != 5), tag + ': r5 is never the destination of IADD_RS')
            q.prove(pc, z3.Or(R[I][1] != KN[GROUPK[kind]], R[I][2] != par), tag + ': not the same operation with the same operand twice in a row')
            if kind == 'IMUL_R': q.prove(pc, z3.Or(chained == 1 if not is_c(chained) else z3.BoolVal(bool(chained)), R[I][1] != KN['IMUL_R']), tag + ': no chained multiplication unless allowed')
        res, nq = explore(one, limit=400); q.n += nq
    else:   # pick
        gword = None
        for pat in range(256):
            fk = {'prefix': [], 'taken': [], 'pc': [], 'pending': [], 'queries': 0}
            it, gens, si, regs, R = setup(fk, lambda i: 0 if (pat >> i) & 1 else 900, lambda i: 0xffffffff, lambda i: 0xffffffff)
            srcv = case.get('src', 0xffffffff) if has_src else 0xffffffff
            it.mem.store(Ptr('si', Ls[1]), srcv, 4); it.mem.store(Ptr('si', Ls[6]), 0x7fffffff, 4); gen = it.mem.alloc(80, 'gen')
            ok = it.call(_fn(mod, 'SuperscalarInstruction17selectDestination'), [si, 5, 0, regs, gen]); npaths[0] += 1
            elig = [i for i in range(8) if (pat >> i) & 1 and (reuse or i != srcv) and not (kind == 'IADD_RS' and i == 5)]
            tag = '%s ready=%s' % (kind, format(pat, '08b'))
            okc = is_c(ok) and bool(ok) == bool(elig); q.n += 1; q.unsat += okc; q.sat += (not okc)
            if not okc: q.failed.append((tag + ': returns %s with %d eligible registers' % (ok, len(elig)), {})); continue
            if elig:
                d = bv(it.mem.load(Ptr('si', Ls[2]), 4), 32)
                q.prove(fk['pc'], z3.Or([d == e for e in elig]), tag + ': the selected destination is one of the eligible registers')
                ins = it.mem.alloc(8, 'ins'); it.call(_fn(mod, 'SuperscalarInstruction7toInstr'), [si, ins])
                q.prove_eq(fk['pc'], it.mem.load(Ptr('ins', 0), 1), KN[kind], tag + ': opcode byte', 8)
                q.prove(fk['pc'], bv(it.mem.load(Ptr('ins', 1), 1), 8) == z3.Extract(7, 0, d), tag + ': dst byte')
                sb = bv(it.mem.load(Ptr('ins', 2), 1), 8)
                q.prove(fk['pc'], sb == (z3.BitVecVal(srcv, 8) if has_src else z3.Extract(7, 0, d)), tag + ': src byte (= dst when the instruction has no source)')
                extent_checks(q, fk['pc'], it.mem, tag)
    return result('S1', 'select %s(%s%s)' % (which, kind, ', r%d' % case['reg'] if 'reg' in case else ''), q, paths=npaths[0], detail='%d paths' % npaths[0])

def run_S1(ctx, case):
    return run_S1a(ctx, case) if 'slot' in case else run_S1c(ctx, case)

def jobs_S1(ctx):
    quick = ctx['tier'] == 'quick'
    kinds = ['IADD_RS', 'ISUB_R', 'IMUL_R', 'IMULH_R', 'IMUL_RCP', 'IROR_C'] if quick else ['ISUB_R', 'IXOR_R', 'IADD_RS', 'IMUL_R', 'IROR_C', 'IADD_C7', 'IXOR_C8', 'IADD_C9', 'IMULH_R', 'ISMULH_R', 'IMUL_RCP']
    J = [dict(slot=s_) for s_ in (3, 4, 7, 8, 9, 10)]
    for k in kinds:
        for r_ in ((0, 5) if quick else range(8)): J.append(dict(kind=k, which='elig', reg=r_))
        J.append(dict(kind=k, which='pick', src=3))
        if k in ('ISUB_R', 'IXOR_R', 'IADD_RS', 'IMUL_R', 'IMULH_R', 'ISMULH_R') and (not quick or k in ('IADD_RS', 'IMULH_R')): J.append(dict(kind=k, which='src'))
    return J

LEMMAS['S1'] = dict(jobs=jobs_S1, run=run_S1, footprint_jobs=lambda ctx: [dict(slot=3), dict(slot=10), dict(kind='IADD_RS', which='elig', reg=0), dict(kind='IMULH_R', which='pick', src=3), dict(kind='IADD_RS', which='src'), dict(kind='IMULH_R', which='src')], units=['ss'], functions=['SuperscalarInstruction::createForSlot', 'create', 'selectSource', 'selectDestination', 'selectRegister', 'toInstr', 'std::vector<int>::push_back'],
    doc='generator operand rules (table 6.1.1): slot -> instruction kinds, rotation count 1..63, reciprocal divisor neither 0 nor 2^k, mod from the generator byte; for every readiness state of the 8 registers: dst,src in r0..r7, dst != src where required, r5 never the destination of IADD_RS, operands ready at the scheduled cycle',
    bound='every slot size; every subset of ready registers (forks), symbolic latencies/last-op info/generator outputs; rejection loops unrolled 3 times (longer runs of rejected values cut: termination of those loops is probabilistic)',
    symbolic='generator bytes/words, register latencies and last-operation info, cycle, fetch type', stubs=['Blake2Generator::getByte/getUInt32 := arbitrary values', 'operator new := ghost heap (no failure)'],
    outside='termination of the two rejection-sampling loops; the port-scheduling simulation (which instruction sequence a key yields)')

# ----------------------------------------------------------------------------------------------- S5 BlakeGenerator (spec 3.5)
UNITS['b2gen'] = dict(src='src/blake2_generator.cpp', inline=False)
def run_S5(ctx, case):
    q = Q(30); mod = Module(ctx['ll']['b2gen']); n = case['keylen']
    tg = resolve(NamedT('class.randomx::Blake2Generator', mod)); og = tg.layout()[0]      # { data[64], dataIndex }
    H = [z3.Function('Hash512_byte%d' % k, *([z3.BitVecSort(8)] * 65)) for k in range(0)]  # (unused: hash modelled by fresh bytes per call)
    it = Interp(mod); calls = []
    def blake(s, a):
        out, outlen, inp, inlen, key, keylen = a
        ok = out.obj == 'gen' and out.off == og[0] and outlen == 64 and inp.obj == 'gen' and inp.off == og[0] and inlen == 64 and keylen == 0
        cur = [s.mem.load(Ptr('gen', og[0] + k), 1) for k in range(64)]; k_ = len(calls); calls.append((ok, cur))
        for j in range(64): s.mem.store(Ptr('gen', og[0] + j), z3.BitVec('S%d_%d' % (k_ + 1, j), 8), 1)
        return 0
    it.hooks['randomx_blake2b'] = blake
    gen = it.mem.alloc(tg.size(), 'gen')
    for k in range(0, tg.size()): it.mem.store(Ptr('gen', k), z3.BitVec('gen_stale%d' % k, 8), 1)
    key = it.mem.alloc(max(n, 1), 'key'); K = [z3.BitVec('key%d' % k, 8) for k in range(n)]
    for k in range(n): it.mem.store(Ptr('key', k), K[k], 1)
    nonce = z3.BitVec('nonce', 32)
    it.call(_fn(mod, 'Blake2GeneratorC2EPKvmi'), [gen, key, n, nonce]); tag = 'BlakeGenerator(key of %d bytes)' % n
    def chk(c, what):
        q.n += 1; q.unsat += bool(c); q.sat += (not c)
        if not c: q.failed.append(('%s: %s' % (tag, what), {}))
    chk(not calls, 'no hashing in the constructor (the state is hashed on first use)')
    # draw 70 bytes and 3 words: reseed exactly when fewer bytes remain than requested
    outs = []
    seq = ['b'] * 3 + ['w'] * 15 + ['b'] * 2 + ['w'] + ['b'] * 70 + ['w'] * 2
    pos = 64; gen_no = 0; exp = []
    for kind in seq:
        need = 1 if kind == 'b' else 4
        if pos + need > 64: gen_no += 1; pos = 0
        exp.append((gen_no, pos, need)); pos += need
        v = it.call(_fn(mod, 'Blake2Generator7getByteEv' if kind == 'b' else 'Blake2Generator9getUInt32Ev'), [gen]); outs.append(v)
    chk(len(calls) == gen_no, 'state re-hashed %d times for this draw sequence, spec 3.5.2 says %d (only when fewer unused bytes remain than requested)' % (len(calls), gen_no))
    chk(all(c[0] for c in calls), 'S = Hash512(S): 64 bytes in, 64 bytes out, unkeyed, in place')
    if calls:
        first = calls[0][1]     # the initial state that is hashed first: key (at most 60 bytes) zero padded + nonce in the last 4 bytes
        for k in range(64):
            if k < min(n, 60): e = K[k]
            elif k < 60: e = 0
            else: e = z3.Extract(8 * (k - 60) + 7, 8 * (k - 60), nonce)
            q.prove_eq([], first[k], e, '%s: initial state byte %d (key[0..60) zero padded, 4-byte nonce)' % (tag, k), 8)
    for (g, p_, need), v in zip(exp, outs):
        e = z3.Concat(*[z3.BitVec('S%d_%d' % (g, p_ + j), 8) for j in reversed(range(need))]) if need > 1 else z3.BitVec('S%d_%d' % (g, p_), 8)
        q.prove_eq([], v, e, '%s: output = next %d unused state byte(s), little endian (state #%d offset %d)' % (tag, need, g, p_), 8 * need)
    return result('S5', 'keylen %d' % n, q, paths=1, steps=it.steps)

LEMMAS['S5'] = dict(jobs=lambda ctx: [dict(keylen=n) for n in ((0, 1, 59, 60, 61, 64, 80) if ctx['tier'] == 'quick' else list(range(0, 70)) + [80, 100, 200])], run=run_S5, units=['b2gen'],
    functions=['Blake2Generator::Blake2Generator', 'getByte', 'getUInt32', 'checkData'],
    doc='BlakeGenerator == spec 3.5: state = first 60 key bytes zero padded (+ nonce in the last four bytes), hashed in place with Hash512 exactly when fewer unused bytes remain than requested, outputs are the next unused bytes (32-bit words little endian); key bytes beyond 60 have no influence',
    bound='key lengths 0,1,59,60,61,64,80 (quick) / 0..69,80,100,200; a 94-draw sequence crossing three re-hashes', symbolic='key bytes, nonce, hash outputs', stubs=['blake2b := fresh symbolic 64-byte state per call'])

# ----------------------------------------------------------------------------------------------- S2 port assignment (spec 6.3.3) and the cycle map
# The specification never refuses to schedule a macro-op; the reference keeps a finite cycle map. Cycles up to latency+2 are really used:
# key "k10660", program 0, commits its last macro-op in cycle 172 (the reference generator run over 4.1 million keys / 33 million programs:
# highest committed cycle 171 in 6322 programs, 172 in 1627, never 173). A map that cannot hold cycle latency+2 therefore drops an instruction
# the specification (and the reference) emits. Nothing is demanded beyond that cycle.
SCHEDULABLE_BEYOND_LATENCY = 2
def spec_macro_ops():
    """table 6.2.1 of doc/specs.md: name -> (latency, sizes, uop1 mask, uop2 mask)"""
    txt = open(P.DOC).read(); i = txt.index('Table 6.2.1'); PORT = {'-': 0, 'P0': 1, 'P1': 2, 'P5': 4, 'P01': 3, 'P05': 5, 'P015': 7}; T = {}
    for m in re.finditer(r'^\|`(\w+)`\|(\d+)\|([\d, ]+)\|(\S+)\|(\S+)\|\s*$', txt[i:i + 3000], re.M):
        T[m.group(1)] = (int(m.group(2)), [int(x) for x in m.group(3).split(',')], PORT[m.group(4)], PORT[m.group(5)])
    if len(T) != 11: raise Exception('table 6.2.1 of the specification not understood (%d rows)' % len(T))
    return T

def _map_rows(mod, fn):
    m = re.search(r'\[(\d+) x \[3 x i32\]\]\*', mod.funcs[fn].sig)
    if not m: raise Exception('port map parameter of %s not recognised' % fn)
    return int(m.group(1))

def _cell(arr, row, col):
    base = (row * 3 + col) * 4
    return z3.Concat(*[z3.Select(arr, base + k) for k in (3, 2, 1, 0)])

def _fit(arr, row, uop):
    """spec 6.3.3: a micro-op can issue in this cycle if a port it may use is free; ports are tried in the order P5, P0, P1"""
    f5 = z3.And((uop & 4) != 0, _cell(arr, row, 2) == 0); f0 = z3.And((uop & 1) != 0, _cell(arr, row, 0) == 0); f1 = z3.And((uop & 2) != 0, _cell(arr, row, 1) == 0)
    return z3.Or(f5, f0, f1), z3.If(f5, z3.BitVecVal(2, 64), z3.If(f0, z3.BitVecVal(0, 64), z3.BitVecVal(1, 64)))

def _mark(arr, row, col, uop):
    base = (row * 3 + col) * 4
    for k in range(4): arr = z3.Store(arr, base + k, z3.Extract(8 * k + 7, 8 * k, uop))
    return arr

def run_S2(ctx, case):
    q = Q(60); mod = _ss_setup(ctx); what = case['what']; npaths = [0]
    T = spec_macro_ops(); REQ = P.SS_LATENCY + SCHEDULABLE_BEYOND_LATENCY + 1
    if what == 'table':
        # the macro-op objects the generator schedules == table 6.2.1 (latency, size, ports); two-uop macro-ops use disjoint port sets
        it, _ = _ss_interp(mod); Lm = resolve(NamedT('class.randomx::MacroOp', mod)).layout()[0]
        NAME = {'sub_rr': 'Sub_rr', 'xor_rr': 'Xor_rr', 'lea_sib': 'Lea_sib', 'imul_rr': 'Imul_rr', 'ror_ri': 'Ror_ri', 'add_ri': 'Add_ri', 'xor_ri': 'Xor_ri', 'mov_rr': 'Mov_rr', 'mul_r': 'Mul_r', 'imul_r': 'Imul_r', 'mov_ri': 'Mov_ri64'}
        def chk(c, t):
            q.n += 1; q.unsat += bool(c); q.sat += (not c)
            if not c: q.failed.append((t, {}))
        for sn, cn in sorted(NAME.items()):
            g = [k for k in it.mem.objs if re.fullmatch(r'@_ZN7randomx7MacroOp\d+%sE' % cn, k)]
            if len(g) != 1: raise Exception('macro-op object %s not found' % cn)
            f = [it.mem.load(Ptr(g[0], Lm[k]), 4) for k in (1, 2, 3, 4)]
            if not all(is_c(x) for x in f): raise Exception('macro-op object %s not constant after static initialisation' % cn)
            lat, sizes, u1, u2 = T[sn]
            chk(f[1] == lat, 'macro-op %s: latency %d, table 6.2.1 says %d' % (sn, f[1], lat)); chk(f[0] in sizes, 'macro-op %s: size %d, table 6.2.1 says %s' % (sn, f[0], sizes))
            chk((f[2], f[3]) == (u1, u2), 'macro-op %s: micro-op ports (%d,%d), table 6.2.1 says (%d,%d)' % (sn, f[2], f[3], u1, u2))
            chk(not (f[2] & f[3]), 'macro-op %s: its two micro-ops use disjoint port sets' % sn)
        fnu = _fn(mod, 'scheduleUopILb1E'); rows = _map_rows(mod, fnu)
        return result('S2', 'table', q, paths=1, detail='11 macro-ops; cycle map has %d rows, cycles up to %d must be schedulable (latency %d + %d)' % (rows, REQ - 1, P.SS_LATENCY, SCHEDULABLE_BEYOND_LATENCY))
    commit = case['commit']; W = case['W']
    fn = _fn(mod, ('scheduleUopILb%dE' if what == 'uop' else 'scheduleMopILb%dE') % commit); rows = _map_rows(mod, fn)
    def one(fk):
        it, _ = _ss_interp(mod, fk); pc = fk['pc']
        pm = it.mem.mkarr('portBusy', rows * 12); arr0 = it.mem.objs['portBusy']['arr']
        cyc = z3.BitVec('cycle', 32); pc += [cyc >= 0, cyc < REQ]
        if what == 'uop':
            u1 = z3.BitVec('uop', 32); u2 = z3.BitVecVal(0, 32); pc += [u1 >= 1, u1 <= 7]; st = cyc; two = False; elim = False
        else:
            mop = it.mem.alloc(32, 'mop'); Lm = resolve(NamedT('class.randomx::MacroOp', mod)).layout()[0]
            u1 = z3.BitVec('uop1', 32); u2 = z3.BitVec('uop2', 32); dep = z3.BitVec('depCycle', 32); b1 = lambda c: z3.If(c, z3.BitVecVal(1, 1), z3.BitVecVal(0, 1)); depf = it.decide(z3.BitVec('dependent', 1))
            if case.get('pair'): u1, u2 = [z3.BitVecVal(x, 32) for x in case['pair']]; elim = False; two = True      # two micro-ops: port masks concrete (one job per pair of disjoint masks)
            else: u2 = z3.BitVecVal(0, 32); elim = it.decide(b1(u1 == 0)); two = False
            pc += [u1 >= 0, u1 <= 7, dep >= 0, dep < REQ]
            it.mem.store(mop, z3.BitVec('mop_name', 64), 8); it.mem.store(Ptr('mop', Lm[1]), z3.BitVec('mop_size', 32), 4); it.mem.store(Ptr('mop', Lm[2]), z3.BitVec('mop_latency', 32), 4)
            it.mem.store(Ptr('mop', Lm[3]), u1, 4); it.mem.store(Ptr('mop', Lm[4]), u2, 4); it.mem.store(Ptr('mop', Lm[5]), 1 if depf else 0, 1)
            st = z3.If(dep > cyc, dep, cyc) if depf else cyc
        st64 = z3.SignExt(32, st)
        fits = []
        for j in range(W):
            a, col1 = _fit(arr0, st64 + j, u1)
            if two: b, _c = _fit(arr0, st64 + j, u2); a = z3.And(a, b)
            fits.append(z3.And(st64 + j < REQ, a))
        # bound of this lemma: the first cycle in which the macro-op can issue lies within W cycles of the start and below latency+longest macro-op
        if not elim: pc += [z3.Or(fits)]
        r = it.call(fn, [u1, pm, cyc] if what == 'uop' else [mop, pm, cyc, dep]); npaths[0] += 1
        exp = z3.BitVecVal(-1, 32)
        for j in reversed(range(W)): exp = z3.If(fits[j], st + j, exp)
        if elim: exp = st
        tag = '%s commit=%d %s' % (what, commit, 'eliminated' if elim else 'two micro-ops' if two else 'one micro-op')
        q.prove(pc, bv(r, 32) == exp, tag + ': returns the first cycle >= start in which a permitted port is free for every micro-op (P5, P0, P1 order), never "no port" below cycle %d' % REQ)
        arrF = it.mem.objs['portBusy']['arr']; e64 = z3.SignExt(32, exp); arrE = arr0
        if commit and not elim:
            _a, c1 = _fit(arr0, e64, u1); arrE = _mark(arr0, e64, c1, u1)
            if two: _b, c2 = _fit(arrE, e64, u2); arrE = _mark(arrE, e64, c2, u2)
        q.prove(pc, arrF == arrE, tag + (': exactly the chosen port(s) of that cycle become busy' if commit and not elim else ': the port map is unchanged'))
        extent_checks(q, pc, it.mem, prefix=tag + ' extent')
    res, nq = explore(one, limit=4000); q.n += nq
    return result('S2', '%s%s commit=%d W=%d' % (what, ' ports %s' % (case['pair'],) if case.get('pair') else '', commit, W), q, paths=npaths[0], detail='%d paths; map rows %d, required %d' % (npaths[0], rows, REQ))

def jobs_S2(ctx):
    quick = ctx['tier'] == 'quick'; W = 4 if quick else 10; Wm = 3 if quick else 4
    pairs = [(a, b) for a in range(1, 8) for b in range(1, 8) if not (a & b)]
    if quick: pairs = [(2, 4), (4, 2), (3, 4), (1, 6)]
    return [dict(what='table')] + [dict(what=w, commit=c, W=W) for w in ('uop', 'mop') for c in (0, 1)] + [dict(what='mop', commit=c, W=Wm, pair=pr) for pr in pairs for c in (0, 1)]

LEMMAS['S2'] = dict(jobs=jobs_S2, run=run_S2, units=['ss'], functions=['scheduleUop<false>', 'scheduleUop<true>', 'scheduleMop<false>', 'scheduleMop<true>', 'MacroOp table (static initialisers)'],
    doc='port assignment == spec 6.3.3: for every port map, start cycle, dependency cycle and macro-op (0, 1 or 2 micro-ops on any port subsets, two micro-ops on disjoint subsets as in table 6.2.1) the scheduler returns the first cycle >= start (start = max(cycle, depCycle) for a dependent macro-op) in which every micro-op finds a free permitted port, tries ports in the order P5, P0, P1, marks exactly the chosen ports when committing and nothing otherwise; the cycle map holds every cycle up to RANDOMX_SUPERSCALAR_LATENCY + 2 (a cycle in which real keys commit a macro-op after look-forward stalls: witness key "k10660", program 0, cycle 172), so "no port" is never answered for a first fit up to there; the macro-op objects equal table 6.2.1',
    bound='start and dependency cycles 0..latency+2; the first fitting cycle within W = 4 (one micro-op) / 3 (two micro-ops) cycles of the start in the quick tier, 10 / 4 thorough; port map contents symbolic (z3 array); one micro-op: port mask symbolic; two micro-ops: one job per pair of disjoint port masks (4 pairs quick incl. the (P1,P5) of mul_r / imul_r, all 12 thorough)', symbolic='port map, micro-op port masks, cycle, depCycle, dependent flag',
    stubs=[], outside='which start cycles the decode loop of generateSuperscalar passes (the loop itself is not executed symbolically); first fits further than W cycles from the start; first fits beyond cycle latency+2 (never observed in 33 million generated programs): there the reference answers "no port" from cycle latency+4 on and the specification is silent')

# ----------------------------------------------------------------------------------------------- S3 address register (spec 7.3 step 6): the tail of generateSuperscalar from a cut point
GEN_CALLS = re.compile(r'scheduleMop|scheduleUop|createForSlot|selectSource|selectDestination|toInstrE|fetchNext|DecoderBuffer|Blake2Generator|RegisterInfoC\d|SuperscalarInstruction')
def _tail_entry(mod, fn):
    """the part of generateSuperscalar after the generation loop: the blocks from which no call of the generator machinery is reachable; its single entry block is the cut point"""
    f = mod.funcs[fn]; succ = {}; bad = set()
    for lab, blk in f.blocks.items():
        succ[lab] = re.findall(r'label %([\w.$-]+)', blk[-1])
        if any(re.search(r'\b(call|invoke)\b', l) and GEN_CALLS.search(l) for l in blk): bad.add(lab)
    rb = set(bad); ch = True
    while ch:
        ch = False
        for lab in f.blocks:
            if lab not in rb and any(x in rb for x in succ[lab]): rb.add(lab); ch = True
    T = [l for l in f.order if l not in rb]
    entries = [l for l in T if any(l in succ[p] for p in rb)]
    if len(entries) != 1 or not bad: raise Exception('tail of generateSuperscalar not recognised (%d entry blocks)' % len(entries))
    return entries[0], T

def run_S3(ctx, case):
    from engine.irsym import phi_nodes, IntT
    K = case['n']; q = Q(60); mod = _ss_setup(ctx); fn = _fn(mod, 'generateSuperscalarERNS_18SuperscalarProgram'); entry, T = _tail_entry(mod, fn); f = mod.funcs[fn]; npaths = [0]
    mm = [re.search(r'setSizeEj\(.*, i32 noundef (%[\w.$-]+)\)', l) for lab in T for l in f.blocks[lab]]; mm = [x for x in mm if x]
    if len(mm) != 1 or mm[0].group(1) not in phi_nodes(f, entry): raise Exception('programSize not recognised at the cut point')
    sizev = mm[0].group(1); psz = resolve(NamedT('class.randomx::SuperscalarProgram', mod)).size()
    def one(fk):
        it, _ = _ss_interp(mod, fk); pc = fk['pc']
        prog = it.mem.alloc(psz, 'prog'); it.mem.objs['prog']['rechunk'] = True; gen = it.mem.alloc(80, 'gen')
        n = z3.BitVec('programSize', 32); pc += [n == K]; ib = {}       # one job per program size
        for i in range(K):
            for j in range(8): ib[8 * i + j] = z3.BitVec('instr%d_byte%d' % (i, j), 8); it.mem.store(Ptr('prog', 8 * i + j), ib[8 * i + j], 1)
        dst = [z3.ZeroExt(24, ib[8 * i + 1]) for i in range(K)]; src = [z3.ZeroExt(24, ib[8 * i + 2]) for i in range(K)]
        pc += [z3.ULT(x, 8) for x in dst + src]          # S1: operands are r0..r7
        def havoc(name, t):
            t = resolve(t)
            if name == sizev: return n
            if not isinstance(t, (IntT,)) and not hasattr(t, 'w'): raise Exception('value %s computed before the cut point is not a scalar' % name)
            return z3.BitVec('cut_' + name.strip('%'), t.w)
        seen = {}
        for key, sub in (('addr', 'SuperscalarProgram18setAddressRegisterEi'), ('size', 'SuperscalarProgram7setSizeEj')):
            nm = _fn(mod, sub)
            def rec(s, a, key=key, nm=nm):
                seen[key] = a[1]; h = s.hooks.pop(nm); r = s.call(nm, a); s.hooks[nm] = h; return r
            it.hooks[nm] = rec
        it.call_at(fn, entry, [prog, gen], havoc); npaths[0] += 1
        # spec 7.3 step 6 / reference: dependency chain of a register = 1 + the longer of the chains of the destination and (if different) the source of the instruction writing it
        chain = [z3.BitVecVal(0, 32)] * 8
        def sel(c, r): 
            v = c[7]
            for k in range(6, -1, -1): v = z3.If(r == k, c[k], v)
            return v
        for i in range(K):
            d, s_ = dst[i], src[i]; cd = sel(chain, d) + 1; cs = z3.If(s_ != d, sel(chain, s_) + 1, z3.BitVecVal(0, 32)); nv = z3.If(cd > cs, cd, cs)
            chain = [z3.If(z3.And(i < n, d == k), nv, chain[k]) for k in range(8)]
        if 'addr' not in seen or 'size' not in seen: q.inconclusive.append('setAddressRegister / setSize not called on this path: how the result is recorded is not recognised by this harness'); return
        a = bv(seen['addr'], 32)
        q.prove(pc, z3.And(a >= 0, a < 8), 'the address register is one of r0..r7')
        q.prove(pc, z3.And([sel(chain, a) >= chain[k] for k in range(8)]), 'the address register has the longest dependency chain of the program (spec 7.3 step 6)')
        q.prove(pc, bv(seen['size'], 32) == n, 'program size = number of generated instructions')
        q.prove(pc, z3.And([bv(it.mem.load(Ptr('prog', j), 1), 8) == ib[j] for j in range(8 * K)]), 'the generated instructions are not modified after the generation loop')
        extent_checks(q, pc, it.mem, prefix='extent')
    res, nq = explore(one, limit=5000); q.n += nq
    return result('S3', 'programs of %d instructions' % K, q, paths=npaths[0], detail='%d paths; cut point = block %%%s of generateSuperscalar (%d tail blocks)' % (npaths[0], entry, len(T)))

LEMMAS['S3'] = dict(jobs=lambda ctx: [dict(n=k) for k in range(0, 5 if ctx['tier'] == 'quick' else 7)], run=run_S3, units=['ss'], functions=['generateSuperscalar (from the end of the generation loop to the return)', 'SuperscalarProgram::operator()', 'setSize', 'setAddressRegister', 'std::max<int>'],
    doc='address register == spec 7.3 step 6: for every instruction list the register passed to setAddressRegister has the longest dependency chain (chain of a destination = 1 + max(chain of destination, chain of a different source)); the size recorded is the number of generated instructions and the instructions are not modified after the loop',
    bound='programs of 0..4 (quick) / 0..6 instructions (one job per size); the real code is executed from a cut point: the entry of the loop-free-of-generator-calls tail of generateSuperscalar, every value computed before it arbitrary', symbolic='program size, all instruction bytes (dst, src in r0..r7 by S1), every scalar live across the cut, stack contents',
    stubs=[], outside='longer programs (the chain computation is a fold over the instruction list: the same loop body per instruction); how ties between equally long chains are resolved (the specification is silent; the reference takes the lowest index)')
