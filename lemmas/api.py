# API-level lemmas on src/randomx.cpp + src/virtual_machine.cpp (IR): H1 driver trace, H4 FP environment, D2 dataset
# range splitting, I7 VM programming (C01 C02 C03 C06 C08 C13)
import z3, time, re, os
from lemmas.common import *
from engine.irsym import Module, Interp, Ptr, is_c, bv, resolve, NamedT, explore, OOB, Thrown
from engine import build
from spec import params as P, vm_ref as V

UNITS = {
    'api': dict(link=[dict(src='src/randomx.cpp', inline=False), dict(src='src/virtual_machine.cpp', inline=False)]),
    'api_assert': dict(src='src/randomx.cpp', inline=False, asserts=True, out='randomx_assert.ll'),
}
METHODS = ['allocate', 'getFinalResult', 'hashAndFill', 'setDataset', 'setCache', 'initScratchpad', 'run', 'setFlagV2', 'clearFlagV2', 'datasetRead', 'datasetPrefetch']

def vtable_slots(mod, sub):
    """slot index -> method name, read from a concrete vtable global of the current IR"""
    names = [g for g in mod.globals if g.startswith('_ZTV') and sub in g]
    if not names: raise Exception('no vtable matching ' + sub)
    txt = mod.globals[names[0]]; ents = re.findall(r'i8\* (null|bitcast \([^@]*@([\w.$]+) to i8\*\))', txt)
    slots = {}
    for k, (full, fn) in enumerate(ents[2:]):
        for mname in METHODS:
            if re.search(r'\d+' + mname + 'E', fn): slots[k] = mname
        if fn.endswith('D2Ev') or fn.endswith('D1Ev'): slots[k] = 'dtor'
        if fn.endswith('D0Ev'): slots[k] = 'deleting_dtor'
    return slots, len(ents) - 2

def vm_layout(mod):
    t = resolve(NamedT('class.randomx_vm', mod)); o = t.layout()[0]
    # { vptr, pad, Program, RegisterFile, ProgramConfiguration, MemoryRegisters, scratchpad*, union cache/dataset ptr, datasetOffset, vmFlags, cacheKey, tempHash[8], pad }
    return dict(program=o[2], reg=o[3], config=o[4], mem=o[5], scratchpad=o[6], cachePtr=o[7], datasetOffset=o[8], vmFlags=o[9], cacheKey=o[10], tempHash=o[11], size=t.size())

def stub_vm(it, mod, ev):
    """a randomx_vm object whose virtual methods are event recorders"""
    L = vm_layout(mod); slots, n = vtable_slots(mod, 'InterpretedVm') if any('InterpretedVm' in g for g in mod.globals) else vtable_slots(mod, 'VmBase')
    vm = it.mem.alloc(L['size'], 'vm'); vt = it.mem.alloc(8 * max(n, 16), 'vtable')
    for k in range(max(n, 16)):
        nm = slots.get(k, 'slot%d' % k); it.mem.store(Ptr('vtable', 8 * k), Ptr('@fn:STUB_' + nm, 0), 8)
        def rec(s, a, nm=nm):
            ev.append((nm, a, s.snap(a)))
            if nm == 'run':     # a program executes FP code: CFROUND leaves any rounding mode, arithmetic raises sticky exception flags -> the control/status word after it is arbitrary
                s.mxcsr = z3.BitVec('mxcsr_after_run_%d' % len(ev), 32)
            return None
        it.hooks['STUB_' + nm] = rec
    it.mem.store(Ptr('vm', 0), vt, 8)
    return vm, L

def run_H1(ctx, case):
    """the four hashing entry points: sequence and data flow == spec chapter 2 (steps 2-14)"""
    q = Q(60); mod = Module(ctx['ll']['api']); entry = case
    n = z3.BitVec('inputSize', 64); PC = P.P['RANDOMX_PROGRAM_COUNT']
    it = Interp(mod); ev = []; bl = [0]
    def snap(a):
        # content of 64 bytes behind pointer arguments that name the seed / temp hash at call time
        out = []
        for x in a[1:]:
            if isinstance(x, Ptr) and x.obj in it.mem.objs and is_c(x.off) and it.mem.objs[x.obj]['size'] >= x.off + 64 and (x.obj.startswith('o') or x.obj == 'vm'):
                out.append([it.mem.load(Ptr(x.obj, x.off + 8 * k), 8) for k in range(8)])
            else: out.append(None)
        return out
    it.snap = snap
    def blake(s, a):
        out, outlen, inp, inlen, key, keylen = a; bl[0] += 1; k = bl[0]
        ev.append(('blake2b', a, None))
        if is_c(outlen):
            for j in range(outlen // 8): s.mem.store(Ptr(out.obj, out.off + 8 * j), z3.BitVec('H%d_%d' % (k, j), 64), 8)
        return 0
    it.hooks['randomx_blake2b'] = blake
    vm, L = stub_vm(it, mod, ev)
    inp = it.mem.alloc(64, 'input'); out = it.mem.alloc(32, 'output'); nxt = it.mem.alloc(64, 'nextInput')
    mx0 = z3.BitVec('mxcsr_entry', 32); it.mxcsr = mx0
    fn = {'hash': 'randomx_calculate_hash', 'first': 'randomx_calculate_hash_first', 'next': 'randomx_calculate_hash_next', 'last': 'randomx_calculate_hash_last'}[entry]
    args = {'hash': [vm, inp, n, out], 'first': [vm, inp, n], 'next': [vm, nxt, n, out], 'last': [vm, out]}[entry]
    it.call(fn, args)
    names = [e[0] for e in ev]
    ldm = [t for t in it.trace if t[0] == 'ldmxcsr']
    seq_run = []
    for c in range(PC - 1): seq_run += ['run', 'blake2b']
    seq_run += ['run']
    exp = {'hash': ['blake2b', 'initScratchpad'] + seq_run + ['getFinalResult'], 'first': ['blake2b', 'initScratchpad'],
           'next': seq_run + ['blake2b', 'hashAndFill'], 'last': seq_run + ['getFinalResult']}[entry]
    ok = names == exp; q.n += 1; q.unsat += ok; q.sat += (not ok)
    if not ok:
        q.failed.append(('%s: call sequence %s != spec chapter 2 sequence %s' % (fn, names, exp), {}))
        return result('H1', entry, q, paths=1)
    def is_ptr(x, obj, off=0): return isinstance(x, Ptr) and x.obj == obj and is_c(x.off) and x.off == off
    def chk(c, what):
        q.n += 1; q.unsat += bool(c); q.sat += (not c)
        if not c: q.failed.append(('%s: %s' % (fn, what), {}))
    # the buffer that carries the seed between steps: the local tempHash (single call) or vm->tempHash (pipelined)
    T = ev[0][1][0] if entry in ('hash', 'first') else Ptr('vm', L['tempHash'])
    if entry != 'hash': chk(is_ptr(T, 'vm', L['tempHash']), 'pipelined calls keep the seed in vm->tempHash')
    idx = 0
    if entry in ('hash', 'first'):
        a = ev[0][1]; chk(is_ptr(a[2], 'input') and a[1] == 64 and a[5] == 0 and a[4].obj is None, 'step 2: S = Hash512(input): blake2b(T,64,input,n,NULL,0)')
        q.prove_eq([], a[3], n, '%s: Hash512 over exactly inputSize bytes' % fn, 64)
        a = ev[1][1]; chk(a[0].obj == 'vm' and a[1].obj == T.obj and a[1].off == T.off, 'step 3-4: initScratchpad(seed = Hash512 output)')
        chk(ev[1][2][0] is not None and all((not is_c(w)) and str(w) == 'H1_%d' % j for j, w in enumerate(ev[1][2][0])), 'initScratchpad sees the Hash512 output unmodified')
        idx = 2
    if entry != 'first':
        # rounding mode reset before the first run (spec step 6), and nothing changes MXCSR in between
        chk(len(ldm) >= 1 and is_c(ldm[0][1]) and ldm[0][1] == 0x9FC0, 'step 6: fprc := 0 (MXCSR := 0x9FC0) before the first program')
        for c in range(PC):
            e = ev[idx]; chk(e[0] == 'run' and e[1][1].obj == T.obj and e[1][1].off == T.off, 'step 7-8: run(seed) #%d' % c); idx += 1
            if c < PC - 1:
                a = ev[idx][1]; chk(a[0].obj == T.obj and a[0].off == T.off and a[1] == 64 and is_ptr(a[2], 'vm', L['reg']) and a[3] == 256 and a[5] == 0,
                                    'step 9: S = Hash512(RegisterFile) (256 bytes at vm->reg) #%d' % c); idx += 1
        if entry in ('hash', 'last'):
            a = ev[idx][1]; chk(is_ptr(a[1], 'output') and a[2] == 32, 'step 12-14: getFinalResult(output, 32)')
        else:
            a = ev[idx][1]; chk(a[0].obj == T.obj and a[0].off == T.off and a[1] == 64 and is_ptr(a[2], 'nextInput') and a[5] == 0, 'next: seed of the following hash = Hash512(nextInput) into vm->tempHash');
            q.prove_eq([], a[3], n, '%s: Hash512 over exactly nextInputSize bytes' % fn, 64); idx += 1
            a = ev[idx][1]; chk(is_ptr(a[1], 'output') and a[2] == 32 and a[3].obj == T.obj and a[3].off == T.off, 'next: hashAndFill(output, 32, fill_state = vm->tempHash)')
    if entry == 'hash':
        # C13: the caller's control word is restored exactly, and it is the last MXCSR write
        q.prove_eq([], it.mxcsr, mx0, '%s: MXCSR on return == MXCSR on entry' % fn, 32)
        chk(len(ldm) == 2, 'exactly two MXCSR writes in the driver: reset and restore')
    return result('H1', entry, q, paths=1, steps=it.steps, detail='%s: %d events %s..' % (fn, len(ev), names[:4]))

def run_D2(ctx, case):
    """randomx_init_dataset: which item ranges are handed to cache->datasetInit and where they land"""
    q = Q(60); mod = Module(ctx['ll']['api']); N = (P.DATASET_BASE + P.DATASET_EXTRA) // 64
    tc = resolve(NamedT('struct.randomx_cache', mod)); DSINIT = tc.layout()[0][4]
    fixed = case['count']; start, count = z3.BitVecs('startItem itemCount', 64); npaths = [0]
    def one(fk):
        it = Interp(mod); it.fork = fk; calls = []; copies = []
        it.hooks['STUB_dsinit'] = lambda s, a: calls.append((a[1], a[2], a[3])) and None
        ds = it.mem.alloc(16, 'dsobj'); dmem = it.mem.mkarr('dataset', N * 64); it.mem.store(Ptr('dsobj', 0), dmem, 8)
        cache = it.mem.alloc(tc.size(), 'cache'); it.mem.store(Ptr('cache', DSINIT), Ptr('@fn:STUB_dsinit', 0), 8)
        fk['pc'] += [z3.ULT(start, N), z3.ULE(count, N), z3.ULE(start + count, N)]      # the function's own asserts = the documented contract
        if fixed is not None: fk['pc'].append(count == fixed)
        else: fk['pc'].append(z3.UGE(count, 4))
        def memcpy(s, a):
            d, sr, n_ = a[0], a[1], a[2]
            if is_c(n_): nn = n_
            else:
                v = z3.simplify(z3.substitute(n_, (count, z3.BitVecVal(fixed if fixed is not None else 0, 64))))
                if fixed is None or not z3.is_bv_value(v): raise Exception('memcpy length not determined by itemCount')
                nn = v.as_long()
            copies.append((d, sr, nn)); return None
        it.intr_hooks['llvm.memcpy'] = memcpy
        it.call('randomx_init_dataset', [ds, cache, start, count]); npaths[0] += 1
        pc = fk['pc']; i = z3.BitVec('i_item', 64); tag = 'init_dataset(count%s) path %d' % ('=%d' % fixed if fixed is not None else '>=4', npaths[0])
        covered = []; stackbuf = None
        for (p, s_, e_) in calls:
            s64 = z3.ZeroExt(32, bv(s_, 32)); e64 = z3.ZeroExt(32, bv(e_, 32))
            q.prove(pc, z3.And(z3.ULT(s64, e64), (e64 - s64) & 3 == 0), tag + ': each datasetInit call covers a positive multiple of 4 items')
            q.prove(pc, z3.ULE(e64, N), tag + ': item numbers stay below the item count (no 32-bit truncation)') if p.obj == 'dataset' else None
            if p.obj == 'dataset':
                q.prove(pc, bv(p.off, 64) == s64 * 64, tag + ': items are written at memory + 64*item')
                q.prove(pc, z3.And(z3.ULE(start, s64), z3.ULE(e64, start + count)), tag + ': the call writes only requested items')
                covered.append(z3.And(z3.ULE(s64, i), z3.ULT(i, e64)))
            else:
                stackbuf = p; sz = it.mem.objs[p.obj]['size']
                okb = not p.obj.startswith('@'); q.n += 1; q.unsat += okb; q.sat += (not okb)
                if not okb: q.failed.append((tag + ': the temporary item buffer is the global %s, shared by all threads that initialise short ranges concurrently' % p.obj, {}))
                q.prove(pc, z3.And(s64 == start, (e64 - s64) * 64 <= sz - p.off), tag + ': temporary buffer call starts at startItem and fits the buffer')
        for (d, sr, nn) in copies:
            ok = d.obj == 'dataset' and stackbuf is not None and sr.obj == stackbuf.obj and sr.off == stackbuf.off
            q.n += 1; q.unsat += ok; q.sat += (not ok)
            if not ok: q.failed.append((tag + ': unexpected copy', {})); continue
            q.prove(pc, z3.And(bv(d.off, 64) == start * 64, count * 64 == nn), tag + ': copies exactly 64*itemCount bytes to memory + 64*startItem')
            covered.append(z3.And(z3.ULE(bv(d.off, 64), i * 64), z3.ULT(i * 64, bv(d.off, 64) + nn)))
        q.prove(pc, z3.Implies(z3.And(z3.ULE(start, i), z3.ULT(i, start + count)), z3.Or(covered) if covered else z3.BoolVal(False)), tag + ': every requested item is written')
        extent_checks(q, pc, it.mem, tag)
    res, nq = explore(one, limit=16); q.n += nq
    return result('D2', 'itemCount %s' % ('== %d' % fixed if fixed is not None else '>= 4'), q, paths=npaths[0], detail='%d paths' % npaths[0])

def run_I7(ctx, case):
    """randomx_vm::initialize == spec 4.5 for all 128 configuration bytes"""
    q = Q(60); mod = Module(ctx['ll']['api']); it = Interp(mod); L = vm_layout(mod)
    vm = it.mem.alloc(L['size'], 'vm'); Q16 = [z3.BitVec('q%d' % k, 64) for k in range(16)]
    for k in range(16): it.mem.store(Ptr('vm', L['program'] + 8 * k), Q16[k], 8)
    it.call(mod.find('_ZN10randomx_vm10initializeEv'), [vm])
    sp = V.program_vm(Q16)
    treg = resolve(NamedT('struct.randomx::RegisterFile', mod)); ra = L['reg'] + treg.layout()[0][3]
    for k in range(4):
        for l in range(2): q.prove_eq([], it.mem.load(Ptr('vm', ra + 16 * k + 8 * l), 8), sp['a'][k][l], 'a%d[%d] = +1.fraction x 2^exponent (4.5.2)' % (k, l), 64)
    tm = resolve(NamedT('struct.randomx::MemoryRegisters', mod)); om = tm.layout()[0]
    # MemoryRegisters {mx, ma, memory}
    mx = it.mem.load(Ptr('vm', L['mem'] + om[0]), 4); ma = it.mem.load(Ptr('vm', L['mem'] + om[1]), 4)
    # ma/mx are only ever used as `x % RANDOMX_DATASET_BASE_SIZE` on 64-byte aligned items (4.1, 4.6.2 steps 6-7): compare the address-relevant bits
    AM = z3.BitVecVal((P.DATASET_BASE - 1) & ~63, 32)
    q.prove_eq([], bv(ma, 32) & AM, sp['ma'] & AM, 'ma = low 32 bits of quadword 8 (address-relevant bits) (4.5.3)', 32)
    q.prove_eq([], bv(mx, 32) & AM, sp['mx'] & AM, 'mx = low 32 bits of quadword 10 (address-relevant bits) (4.5.3)', 32)
    for k in range(4): q.prove_eq([], it.mem.load(Ptr('vm', L['config'] + 16 + 4 * k), 4), sp['readReg'][k], 'readReg%d (4.5.4)' % k, 32)
    # datasetOffset: remainder by a constant -> compare in integer terms via the Euclidean definition
    dso = bv(it.mem.load(Ptr('vm', L['datasetOffset']), 8), 64)
    q.check([], dso != sp['datasetOffset'], 'datasetOffset = (q13 mod (EXTRA/64+1))*64 (4.5.5)', abstract=False)
    q.prove([], z3.ULE(dso, P.DATASET_EXTRA), 'datasetOffset <= RANDOMX_DATASET_EXTRA_SIZE (dataset reads stay inside the allocation)')
    for l in range(2): q.prove_eq([], it.mem.load(Ptr('vm', L['config'] + 8 * l), 8), sp['emask'][l], 'eMask[%d] (4.5.6)' % l, 64)
    return result('I7', 'initialize', q, paths=1, steps=it.steps, detail='%d IR steps' % it.steps)

LEMMAS = {
    'H1': dict(jobs=lambda ctx: ['hash', 'first', 'next', 'last'], run=run_H1, units=['api'], functions=['randomx_calculate_hash', 'randomx_calculate_hash_first', 'randomx_calculate_hash_next', 'randomx_calculate_hash_last', 'randomx_vm::resetRoundingMode', 'rx_reset_float_state'],
               doc='driver trace == spec chapter 2: Hash512 of exactly the input, scratchpad init from it, rounding mode reset, 8 runs chained by Hash512(RegisterFile), final result into the 32-byte output; pipelined calls carry the seed in vm->tempHash; single call restores the entry MXCSR',
               bound='symbolic input size and entry MXCSR; one call of each entry point', symbolic='inputSize, MXCSR', stubs=['virtual methods := event recorders', 'blake2b := recorder producing fresh symbols']),
    'D2': dict(jobs=lambda ctx: [dict(count=c) for c in (0, 1, 2, 3, None)], run=run_D2, units=['api'], functions=['randomx_init_dataset'],
               doc='range splitting: each datasetInit call covers a positive multiple of 4 items at memory+64*item inside [start,start+count); <4 items go through the stack buffer and exactly 64*count bytes are copied; every requested item is written',
               bound='all (startItem, itemCount) within the asserted contract; itemCount in {0,1,2,3} and symbolic >= 4', symbolic='startItem, itemCount', stubs=['cache->datasetInit := recorder', 'contract = the function\'s own asserts']),
    'I7': dict(jobs=lambda ctx: ['initialize'], run=run_I7, units=['api'], functions=['randomx_vm::initialize', 'getSmallPositiveFloatBits', 'getFloatMask', 'getStaticExponent'],
               doc='VM programming == spec 4.5: A registers, ma/mx, address registers, datasetOffset (<= extra size), E masks', bound='all 128 configuration bytes', symbolic='16 configuration quadwords', stubs=[]),
}
