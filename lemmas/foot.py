# F1: footprint harnesses for thread-side functions that no other lemma executes with their real bodies (C14)
import z3, re
from lemmas.common import *
from engine.irsym import Module, Interp, Ptr, is_c, bv, resolve, NamedT, explore
from engine import cxxlib
from spec import params as P

UNITS = {'foot': dict(link=[dict(src='src/dataset.cpp', inline=False), dict(src='src/virtual_machine.cpp', inline=False), dict(src='src/vm_interpreted.cpp', inline=False), dict(src='src/vm_interpreted_light.cpp', inline=False)])}

def run_F1(ctx, case):
    q = Q(30); mod = Module(ctx['ll']['foot']); what = case; it = Interp(mod); cxxlib.install(it); calls = []
    def rec(name):
        def h(s, a): calls.append((name, a)); return None
        return h
    if what == 'initDataset':
        it.hooks['_ZN7randomx15initDatasetItemEP13randomx_cachePhm'] = rec('initDatasetItem')
        cache = it.mem.alloc(64, 'cache'); ds = it.mem.mkarr('dataset', P.DATASET_BASE + P.DATASET_EXTRA); start = z3.BitVec('start', 32)
        it.fork['pc'] += [z3.ULT(start, 1000)]
        def one(fk):
            it2 = Interp(mod); it2.fork = fk; fk['pc'].append(z3.ULT(start, 1000)); calls2 = []
            it2.hooks['_ZN7randomx15initDatasetItemEP13randomx_cachePhm'] = lambda s, a: calls2.append(a) and None
            it2.mem.alloc(64, 'cache'); it2.mem.share('cache'); it2.mem.mkarr('dataset', P.DATASET_BASE + P.DATASET_EXTRA)
            it2.call(mod.find('_ZN7randomx11initDatasetEP13randomx_cachePhjj'), [Ptr('cache', 0), Ptr('dataset', 4096), start, start + 3])
            ok = len(calls2) == 3; q.n += 1; q.unsat += ok; q.sat += (not ok)
            if not ok: q.failed.append(('initDataset(start, start+3) computed %d items' % len(calls2), {})); return
            for k, a in enumerate(calls2):
                okk = a[0].obj == 'cache' and a[1].obj == 'dataset' and a[1].off == 4096 + 64 * k; q.n += 1; q.unsat += okk; q.sat += (not okk)
                if not okk: q.failed.append(('initDataset item %d written to %s (expected directly into the caller\'s range at +%d)' % (k, a[1], 64 * k), {}))
                q.prove_eq(fk['pc'], bv(a[2], 64), z3.ZeroExt(32, start + k), 'initDataset: item number %d' % k, 64)
        res, nq = explore(one, limit=16); q.n += nq
    else:
        soft = 1 if 'soft' in what else 0
        names = dict(scratch='14initScratchpadEPv', final='14getFinalResultEPvm', haf='11hashAndFillEPvmPm')
        base = '_ZN7randomx6VmBaseINS_16AlignedAllocatorILm64EEELb%dEE' % soft
        for f in list(mod.funcs) + ['randomx_blake2b']:
            pass
        ev = []
        for nm in ('_Z11fillAes1Rx4ILb%dEEvPvmS0_', '_Z11hashAes1Rx4ILb%dEEvPKvmPv', '_Z18hashAndFillAes1Rx4ILb%dEEvPvmS0_S0_', '_Z11fillAes4Rx4ILb%dEEvPvmS0_'):
            it.hooks[nm % soft] = (lambda n: lambda s, a: ev.append((n, a)) and None)(nm.split('ILb')[0][4:])
        it.hooks['randomx_blake2b'] = lambda s, a: ev.append(('blake2b', a)) and 0
        tvm = resolve(NamedT('class.randomx_vm', mod)); ov = tvm.layout()[0]
        vm = it.mem.alloc(tvm.size(), 'vm'); sp = it.mem.alloc(P.L3, 'scratchpad'); it.mem.store(Ptr('vm', ov[6]), sp, 8)
        seed = it.mem.alloc(64, 'seed'); out = it.mem.alloc(32, 'out')
        treg = resolve(NamedT('struct.randomx::RegisterFile', mod)).layout()[0]
        it.call(base + names['scratch'], [vm, seed]); it.call(base + names['final'], [vm, out, 32]); it.call(base + names['haf'], [vm, out, 32, seed])
        exp = ['fillAes1Rx4', 'hashAes1Rx4', 'blake2b', 'hashAndFillAes1Rx4', 'blake2b']; got = [e[0] for e in ev]
        ok = got == exp; q.n += 1; q.unsat += ok; q.sat += (not ok)
        if not ok: q.failed.append(('VmBase<%s>: call sequence %s != %s' % ('soft' if soft else 'hard', got, exp), {}))
        else:
            def chk(c, what_):
                q.n += 1; q.unsat += bool(c); q.sat += (not c)
                if not c: q.failed.append(('VmBase<%s>: %s' % ('soft' if soft else 'hard', what_), {}))
            a = ev[0][1]; chk(a[0].obj == 'seed' and a[1] == P.L3 and a[2].obj == 'scratchpad' and a[2].off == 0, 'initScratchpad = AesGenerator1R(seed) over exactly the 2 MiB scratchpad')
            a = ev[1][1]; chk(a[0].obj == 'scratchpad' and a[1] == P.L3 and a[2].obj == 'vm' and a[2].off == ov[3] + treg[3], 'getFinalResult: AesHash1R(whole scratchpad) into register group a (bytes 192-255)')
            a = ev[2][1]; chk(a[0].obj == 'out' and a[1] == 32 and a[2].obj == 'vm' and a[2].off == ov[3] and a[3] == 256 and a[5] == 0, 'getFinalResult: Hash256(RegisterFile) into the output')
            a = ev[3][1]; chk(a[0].obj == 'scratchpad' and a[1] == P.L3 and a[2].obj == 'vm' and a[2].off == ov[3] + treg[3] and a[3].obj == 'seed', 'hashAndFill: fingerprint into a, refill from the next seed')
            a = ev[4][1]; chk(a[0].obj == 'out' and a[1] == 32 and a[2].obj == 'vm' and a[2].off == ov[3] and a[3] == 256, 'hashAndFill: Hash256(RegisterFile)')
    return result('F1', str(case), q, paths=1)

LEMMAS = {'F1': dict(jobs=lambda ctx: ['initDataset', 'vmbase-soft', 'vmbase-hard'], run=run_F1, units=['foot'], functions=['initDataset', 'VmBase::initScratchpad', 'VmBase::getFinalResult', 'VmBase::hashAndFill'],
    doc='initDataset writes each item directly into the caller\'s range (no shared staging); VmBase glue: AesGenerator1R over the whole scratchpad, AesHash1R into register group a, Hash256 of the 256-byte register file', bound='3 consecutive items from a symbolic start; one call of each method', symbolic='start item', stubs=['AES/Blake2b/initDatasetItem := recorders'])}
