# shared helpers for lemma modules: query bookkeeping, result records
import time, os, sys, json, z3
sys.path.insert(0, os.path.join(os.path.dirname(os.path.abspath(__file__)), '..'))
from engine import irsym
from engine.irsym import Ptr, is_c, bv

class Q:
    """query bookkeeping for one job: every solver call goes through here (one query per conjunct)"""
    def __init__(s, timeout_s=120):
        s.n = 0; s.unsat = 0; s.sat = 0; s.unknown = 0; s.solver_s = 0.0; s.timeout = timeout_s
        s.failed = []      # (name, model-dict)     -> candidate violations
        s.inconclusive = []  # names
        s.proved = []
    def check(s, pc, goal_neg, name, tactic=None, abstract=True):
        """asks: exists assignment with pc and goal_neg ? unsat -> obligation `name` holds"""
        if abstract:
            ex = abstract_mul(list(pc) + [goal_neg])
            if not all(a.eq(b) for a, b in zip(ex, list(pc) + [goal_neg])):
                sol = z3.Solver(); sol.set('timeout', int(min(s.timeout, 30) * 1000)); sol.add(*ex)
                t = time.time(); r = sol.check(); s.solver_s += time.time() - t; s.n += 1
                if r == z3.unsat: s.unsat += 1; s.proved.append(name); return 'unsat', None
                s.n -= 1          # abstraction inconclusive: decide with real multiplication below
        sol = z3.Solver() if tactic is None else z3.Tactic(tactic).solver()
        sol.set('timeout', int(s.timeout * 1000))
        for p in pc: sol.add(p)
        sol.add(goal_neg)
        t = time.time(); r = sol.check(); s.solver_s += time.time() - t; s.n += 1
        if r == z3.unsat: s.unsat += 1; s.proved.append(name); return 'unsat', None
        if r == z3.sat:
            s.sat += 1; m = sol.model(); md = model_dict(m); s.failed.append((name, md)); return 'sat', m
        s.unknown += 1; s.inconclusive.append(name); return 'unknown', None
    def prove(s, pc, goal, name):
        return s.check(pc, z3.Not(goal), name)
    def prove_eq(s, pc, a, b, name, w=None):
        """a == b; syntactic / simplifier fast path, else solver"""
        if is_c(a) and is_c(b):
            s.n += 1
            if a == b: s.unsat += 1; s.proved.append(name); return 'unsat', None
            s.sat += 1; s.failed.append((name, {'lhs': a, 'rhs': b})); return 'sat', None
        if w is None: w = (a if not is_c(a) else b).size()
        a = bv(a, w); b = bv(b, w)
        if a.eq(b): s.n += 1; s.unsat += 1; s.proved.append(name); return 'unsat', None
        return s.check(pc, a != b, name)
    def prove_array_eq(s, pc, A, Bx, name):
        """two scratchpad/dataset array terms are equal: same store chains pairwise, else extensionally at a fresh index"""
        if A.eq(Bx): s.n += 1; s.unsat += 1; s.proved.append(name); return True
        ra, sa = store_chain(A); rb, sb = store_chain(Bx)
        if ra.eq(rb) and len(sa) == len(sb):
            ok = True
            for k, ((ia, va), (ib, vb)) in enumerate(zip(sa, sb)):
                ok &= s.prove_eq(pc, ia, ib, '%s: address of store %d' % (name, k))[0] == 'unsat'
                ok &= s.prove_eq(pc, va, vb, '%s: value of store %d' % (name, k))[0] == 'unsat'
            return ok
        j = z3.BitVec('j_any', A.sort().domain().size())
        return s.check(pc, z3.Select(A, j) != z3.Select(Bx, j), name + ' (byte at arbitrary index)')[0] == 'unsat'
    def feasible(s, pc):
        sol = z3.Solver(); sol.set('timeout', int(s.timeout * 1000)); sol.add(*pc)
        t = time.time(); r = sol.check(); s.solver_s += time.time() - t; s.n += 1
        return r == z3.sat
    def stats(s):
        return dict(queries=s.n, unsat=s.unsat, sat=s.sat, unknown=s.unknown, solver_s=round(s.solver_s, 3))

_MULUF = {}
_ABS_MEMO = {}
_ABS_KEEP = []
def abstract_mul(exprs):
    """replace every wide bit-vector multiplication by a commutative uninterpreted function of its operands.
    Sound for proving equalities (unsat under the abstraction implies unsat for real multiplication)."""
    memo = _ABS_MEMO
    def rebuild(root):
        stack = [(root, False)]
        while stack:
            n, done = stack.pop(); i = n.get_id()
            if i in memo: continue
            if not done:
                stack.append((n, True))
                for c in n.children():
                    if c.get_id() not in memo: stack.append((c, False))
                continue
            ch = [memo[c.get_id()] for c in n.children()]
            if z3.is_app(n) and n.decl().kind() == z3.Z3_OP_BMUL and n.size() >= 32 and sum(1 for c in ch if not z3.is_bv_value(c)) >= 2:
                w = n.size(); f = _MULUF.get(w)
                if f is None: f = _MULUF[w] = z3.Function('MUL%d' % w, z3.BitVecSort(w), z3.BitVecSort(w), z3.BitVecSort(w))
                r = ch[0]
                for c in ch[1:]:
                    lo = z3.If(z3.ULE(r, c), r, c); hi = z3.If(z3.ULE(r, c), c, r); r = f(lo, hi)
                memo[i] = r
            elif n.num_args() == 0: memo[i] = n
            elif z3.is_app(n):
                try: memo[i] = n.decl()(*ch)
                except Exception: memo[i] = n
            else: memo[i] = n
        return memo[root.get_id()]
    _ABS_KEEP.extend(exprs)
    return [rebuild(e) for e in exprs]

def store_chain(arr):
    """(root, [(index, value) oldest first]) of a z3 Store chain"""
    st = []
    while z3.is_app(arr) and arr.decl().kind() == z3.Z3_OP_STORE:
        st.append((arr.arg(1), arr.arg(2))); arr = arr.arg(0)
    return arr, st[::-1]

def array_value(a):
    """{'array_default': d, 'stores': {index: byte}} of a model's array value given as a store chain over a constant array (else None)"""
    st = {}
    chain = []
    while z3.is_app(a) and a.decl().kind() == z3.Z3_OP_STORE: chain.append((a.arg(1), a.arg(2))); a = a.arg(0)
    if not z3.is_K(a) or not z3.is_bv_value(a.arg(0)): return None
    for i, v in reversed(chain):
        if not (z3.is_bv_value(i) and z3.is_bv_value(v)): return None
        st[str(i.as_long())] = v.as_long()
    return dict(array_default=a.arg(0).as_long(), stores=st)

def model_dict(m):
    d = {}
    for v in m.decls():
        try:
            val = m[v]
            if z3.is_bv_value(val): d[v.name()] = val.as_long()
            elif z3.is_int_value(val): d[v.name()] = val.as_long()
            elif z3.is_expr(val) and z3.is_array(val) and array_value(val) is not None: d[v.name()] = array_value(val)
            else: d[v.name()] = str(val)[:200]
        except Exception:
            d[v.name()] = '?'
    return d

def result(lemma, case, q, **kw):
    """job result record. status: proved | violated | inconclusive"""
    st = 'proved'
    if q.failed: st = 'violated'
    elif q.inconclusive: st = 'inconclusive'
    r = dict(lemma=lemma, case=case, status=st, **q.stats())
    r['failed'] = [(n, m) for n, m in q.failed[:5]]
    r['inconclusive'] = q.inconclusive[:10]
    r['obligations'] = len(q.proved) + len(q.failed) + len(q.inconclusive)
    r.update(kw)
    gw = sorted(set(irsym.GLOBAL_WRITES)); del irsym.GLOBAL_WRITES[:]
    r['global_writes'] = [list(x) for x in gw][:20]
    return r

def extent_checks(q, pc, mem, prefix='extent'):
    """every recorded symbolic-offset access lies inside its object (C06 obligations)"""
    k = 0
    seen = set()
    for (obj, off, nb, size, kind) in mem.checks:
        off = bv(off, 64)
        key = (obj, off.get_id(), nb, kind)
        if key in seen: continue
        seen.add(key)
        q.prove(pc, z3.And(z3.ULE(off, size - nb)), '%s:%s %s %d bytes @%s' % (prefix, kind, obj, nb, k)); k += 1
    for (obj, off, cands, kind) in getattr(mem, 'cand_checks', []):
        off = bv(off, 64); key = (obj, off.get_id(), cands, kind)
        if key in seen: continue
        seen.add(key)
        q.prove(pc, z3.Or([off == c for c in cands]) if cands else z3.BoolVal(False), '%s:%s %s hits one of %d cells @%s' % (prefix, kind, obj, len(cands), k)); k += 1
    return k

# ---- shapes of the structures whose members the harnesses address by position (engine/irsym.Module refuses a tree where they differ)
_FN = r'\)\*$'
irsym.LAYOUT_GUARDS.update({
    'struct.randomx_cache': [r'^i8\*$', r'^void \(%struct\.randomx_cache\*\)\*$|^\{\}\*$', r'\*$', r'i8\*, i64\)\*$|^\{\}\*$', r'i8\*, i32, i32\)\*$|^\{\}\*$', r'std::array', r'std::vector', r'basic_string', r'\*$'],
    'class.randomx_vm': [r'\(\.\.\.\)\*\*$', r'^\[\d+ x i8\]$', r'randomx::Program"$', r'RegisterFile', r'ProgramConfiguration', r'MemoryRegisters', r'^i8\*$', r'^%', r'^i64$', r'^i32$', r'basic_string', r'^\[8 x i64\]$'],
    'class.randomx::JitCompilerX86': [r'std::vector', r'^\[8 x i32\]$', r'^i8\*$', r'^i32$', r'^i32$'],
    'struct.randomx_dataset': [r'^i8\*$', r'\*$'],
    'class.randomx::SuperscalarProgram': [r'^\[\d+ x %"class\.randomx::Instruction"\]$', r'^i32$', r'^i32$'],
    'class.randomx::Blake2Generator': [r'^\[64 x i8\]$', r'^i64$'],
    'struct.randomx::MemoryRegisters': [r'^i32$', r'^i32$', r'^i8\*$'],
    'struct.randomx::ProgramConfiguration': [r'^\[2 x i64\]$', r'^i32$', r'^i32$', r'^i32$', r'^i32$'],
    'struct.randomx::RegisterFile': [r'^\[8 x i64\]$', r'^\[4 x', r'^\[4 x', r'^\[4 x'],
    'struct.randomx::InstructionByteCode': [r'^%', r'^%', r'^%', r'^i16$', r'^%', r'^i32$'],
    'class.randomx::Program': [r'^\[16 x i64\]$', r'^\[\d+ x %"class\.randomx::Instruction"\]$'],
})

def concretize(it, t, what='value', limit=64):
    """fork (solver-enumerated) until the term t has a concrete value on this path"""
    if is_c(t): return t
    ts = z3.simplify(t)
    if z3.is_bv_value(ts): return ts.as_long()
    for _ in range(limit):
        val = irsym.min_feasible(it.fork['pc'], ts)
        if val is None: raise Exception('infeasible path while concretising %s' % what)
        if it.decide(z3.If(ts == val, z3.BitVecVal(1, 1), z3.BitVecVal(0, 1))): return val
    raise Exception('too many values for %s' % what)
