# Reciprocal lemmas R1..R3 (C18): real randomx_reciprocal (reciprocal.c IR) in integer mode, the assembly routine
# randomx_reciprocal.inc under x86sem, and the no-op rule for zero / powers of two
import z3, time
from lemmas.common import *
from engine.irsym import Module, Interp, Ptr, is_c, bv, Mem, explore
from engine.intmode import IntMode
from engine import build, x86sem

UNITS = {'reciprocal': dict(src='src/reciprocal.c', inline=False)}

def spec_claims(res, d, b):
    """res == floor(2^(63+b) / d): the largest x with 2^x/d < 2^64 is 63+bitlength(d) for a non-power-of-two d"""
    N = 2 ** (63 + b)
    return [('rcp*d <= 2^(63+%d)' % b, res * d <= N), ('2^(63+%d) < (rcp+1)*d' % b, N < (res + 1) * d), ('rcp < 2^64', res < 2 ** 64),
            ('x=63+%d is the largest exponent: 2^(x+1)/d >= 2^64' % b, 2 * N >= (2 ** 64) * d)]

def run_R1(ctx, case):
    b = case['bits']; q = Q(60); mod = Module(ctx['ll']['reciprocal'])
    d = z3.BitVec('d', 32); npaths = [0]; logs = []
    base = [z3.UGT(d, 1 << (b - 1)), z3.ULT(z3.ZeroExt(1, d), z3.BitVecVal(1 << b, 33))]      # 2^(b-1) < d < 2^b : every non-power-of-two with bit length b
    def one(fk):
        it = Interp(mod); it.fork = fk; fk['pc'] += base; it.concretize_shifts = True
        def ctlz(s, args):
            a = args[0]; w = a.size(); full = z3.BitVecVal(w, w)
            for i in range(w): full = z3.If(z3.Extract(i, i, a) == 1, z3.BitVecVal(w - 1 - i, w), full)
            return s.concretize(full, list(range(0, w + 1)))
        it.intr_hooks['llvm.ctlz'] = ctlz
        r = it.call(mod.find('randomx_reciprocal'), [d]); npaths[0] += 1; pc = fk['pc']
        # the divisors of this path form an interval [lo, hi] (checked), which is the integer-side precondition
        o = z3.Optimize(); o.add(*pc); h = o.minimize(z3.ZeroExt(1, d)); o.check(); lo = int(str(o.lower(h)))
        o = z3.Optimize(); o.add(*pc); h = o.maximize(z3.ZeroExt(1, d)); o.check(); hi = int(str(o.upper(h)))
        st, _ = q.check(base + [z3.UGE(d, lo), z3.ULE(d, hi)], z3.Not(z3.And(*pc)), 'path condition == divisor interval [%d, %d]' % (lo, hi), abstract=False)
        if st != 'unsat': return
        D = z3.Int('d_int'); im = IntMode([D >= lo, D <= hi], timeout_s=60)
        res = im.tr(bv(r, 64)); q.n += im.n; q.unsat += im.unsat; q.solver_s += im.solver_s; logs.append('[%d,%d]: %s' % (lo, hi, '; '.join(im.log)))
        for name, claim in spec_claims(res, D, b):
            sol = z3.Solver(); sol.set('timeout', 60000); sol.add(*im.pre); sol.add(*im.defs); sol.add(z3.Not(claim))
            t = time.time(); rr = sol.check(); q.solver_s += time.time() - t; q.n += 1
            if rr == z3.unsat: q.unsat += 1; q.proved.append(name)
            elif rr == z3.sat: q.sat += 1; q.failed.append(('randomx_reciprocal, %d-bit divisors in [%d, %d]: %s' % (b, lo, hi, name), model_dict(sol.model())))
            else: q.unknown += 1; q.inconclusive.append(name)
        wraps = [l for l in im.log if l.startswith('kept')]
        if wraps: q.failed.append(('intermediate value can wrap for divisors in [%d, %d]: %s' % (lo, hi, wraps), {})); q.sat += 1
    res_, nq = explore(one, limit=64); q.n += nq
    # the paths cover the whole bit-length class
    sol = z3.Solver(); sol.add(*base)
    for taken, pc, r_ in res_: sol.add(z3.Not(z3.And(*pc)))
    q.n += 1
    if sol.check() == z3.unsat: q.unsat += 1
    else: q.sat += 1; q.failed.append(('paths do not cover all %d-bit divisors' % b, {}))
    return result('R1', 'bit length %d' % b, q, paths=npaths[0], detail='%d path(s); %s' % (npaths[0], ' | '.join(logs)[:300]))

def run_R2(ctx, case):
    """the assembly routine (bsr/shl/div): same value as the specification, div cannot fault"""
    b = case['bits']; q = Q(60)
    syms, text = ctx['asm']['syms'], ctx['asm']['text']
    start = syms['randomx_reciprocal_fast']; code = list(text[start:start + 64])
    mem = Mem(); mem.alloc(len(code) + 64, 'xcode')
    for k, x in enumerate(code): mem.store(Ptr('xcode', k), x, 1)
    mem.alloc(64, 'stack'); mem.store(Ptr('stack', 32), Ptr('caller', 0), 8)
    m = x86sem.Machine(mem, 'xcode')
    d = z3.BitVec('d', 32)
    for r in range(16): m.gpr[r] = z3.BitVec('g%d' % r, 64)
    m.gpr[7] = z3.ZeroExt(32, d); m.gpr[4] = Ptr('stack', 32)           # SysV: divisor in edi, zero-extended
    pc = [z3.UGT(d, 1 << (b - 1)), z3.ULT(z3.ZeroExt(1, d), z3.BitVecVal(1 << b, 33))]
    def bsr_hook(t):
        st, _ = q.check(pc, t != (b - 1), 'bsr(divisor) == %d for every %d-bit divisor' % (b - 1, b), abstract=False)
        if st != 'unsat': raise Exception('bsr result not determined by the bit length')
        return b - 1
    m.bsr_hook = bsr_hook
    try:
        r = m.run(0, max_steps=16)
    except x86sem.Fault as e:      # Undecodable = limitation of the x86 model: propagates, the job is INCONCLUSIVE
        q.n += 1; q.sat += 1; q.failed.append(('randomx_reciprocal_fast does not execute: %s' % e, {})); return result('R2', 'bit length %d' % b, q, paths=1)
    ok = r[0] == 'ret' and isinstance(r[1], Ptr) and r[1].obj == 'caller'; q.n += 1; q.unsat += ok; q.sat += (not ok)
    if not ok: q.failed.append(('assembly routine does not return to its caller', {}))
    D = z3.Int('d_int'); im = IntMode([D > 2 ** (b - 1), D < 2 ** b], timeout_s=60)
    for (rip, cond) in m.div_checks:
        if z3.is_bool(cond) and 'bvudiv' not in str(cond)[:0]:
            pass
    # no #DE: divisor != 0 and high half of the dividend below the divisor -- decided in integer mode (rdx = 2^(b-1) < d)
    rdx_at_div = None
    res = im.tr(bv(m.gpr[0], 64)); q.n += im.n; q.unsat += im.unsat; q.solver_s += im.solver_s
    for (rip, cond) in m.div_checks:
        st, _ = q.check(pc, z3.Not(cond), 'no fault at code offset %d (bsr input non-zero / div: divisor != 0 and rdx < divisor)' % rip, abstract=False)
    for name, claim in spec_claims(res, D, b):
        sol = z3.Solver(); sol.set('timeout', 60000); sol.add(*im.pre); sol.add(*im.defs); sol.add(z3.Not(claim))
        t = time.time(); rr = sol.check(); q.solver_s += time.time() - t; q.n += 1
        if rr == z3.unsat: q.unsat += 1; q.proved.append(name)
        elif rr == z3.sat: q.sat += 1; q.failed.append(('randomx_reciprocal_fast (asm), %d-bit divisors: %s' % (b, name), model_dict(sol.model())))
        else: q.unknown += 1; q.inconclusive.append(name)
    return result('R2', 'bit length %d' % b, q, paths=1, detail='; '.join(im.log)[:300])

LEMMAS = {
    'R1': dict(jobs=lambda ctx: [dict(bits=b) for b in range(2, 33)], run=run_R1, units=['reciprocal'], functions=['randomx_reciprocal'],
               doc='randomx_reciprocal(d) == floor(2^(63+bitlength(d))/d), the largest exponent keeping the quotient below 2^64, with no intermediate wrap-around',
               bound='every non-power-of-two divisor in [3, 2^32), split by bit length (31 cases); integer encoding with solver-checked no-wrap side conditions', symbolic='divisor', stubs=['udiv/urem by their Euclidean definition'],
               outside='powers of two and zero (R3: the instruction is a no-op there)'),
    'R2': dict(jobs=lambda ctx: [dict(bits=b) for b in range(2, 33)], run=run_R2, units=[], asm=True, functions=['randomx_reciprocal_fast (src/asm/randomx_reciprocal.inc, assembled)'],
               doc='the assembly routine returns the same floor(2^(63+b)/d) and its div cannot fault', bound='as R1', symbolic='divisor, all other registers', stubs=['x86sem']),
}

# ---- R3: zero / power-of-two immediates make IMUL_RCP a no-op that is not a register modification (interpreter decode and JIT)
def run_R3(ctx, case):
    from spec import params as P
    lo, hi = P.RANGE['IMUL_RCP']
    if case['engine'] == 'interp':
        from lemmas import isa
        r = isa.run_I1(ctx, dict(dst=case['dst'], src=case['src'], opcodes=(lo, hi - 1)))
    else:
        from lemmas import jit
        r = jit.run_J1(ctx, dict(opcode=case['opcode'], dst=case['dst'], src=case['src']))
    r['lemma'] = 'R3'; return r

def jobs_R3(ctx):
    from spec import params as P
    lo, hi = P.RANGE['IMUL_RCP']; J = []
    for d in range(8):
        J.append(dict(engine='interp', dst=d, src=(d + 3) % 8))
        for op in ((lo, hi - 1) if ctx['tier'] == 'quick' else range(lo, hi)): J.append(dict(engine='jit', opcode=op, dst=d, src=(d + 3) % 8))
    return J

LEMMAS['R3'] = dict(jobs=jobs_R3, run=run_R3, units=['vmcore', 'jit'], functions=['BytecodeMachine::compileInstruction (IMUL_RCP arm)', 'executeInstruction', 'JitCompilerX86::h_IMUL_RCP', 'isZeroOrPowerOf2'],
    doc='IMUL_RCP with imm32 zero or a power of two (unsigned, including 2^31) is a no-op in interpreter and JIT and leaves both last-writer tables untouched; otherwise it multiplies by the reciprocal and records the write (I1/J1 restricted to the IMUL_RCP opcodes)',
    bound='all imm32, all 8 destinations, all register states', symbolic='imm32, registers, last-writer tables', stubs=['reciprocal value := uninterpreted (R1/R2)'])
from lemmas import isa as _isa, jit as _jit
UNITS['vmcore'] = _isa.UNITS['vmcore']; UNITS['jit'] = _jit.UNITS['jit']
