#include "randomx.h"
#include <cstdio>
#include <cstdlib>
#include <cstring>
int main(){
  randomx_flags f = RANDOMX_FLAG_DEFAULT;           // interpreted light VM
  const char key[]="test key 000";
  randomx_cache* c1 = randomx_alloc_cache(f); randomx_init_cache(c1,key,sizeof key-1);
  void* m1 = randomx_get_cache_memory(c1);
  randomx_vm* vm = randomx_create_vm(f,c1,nullptr);
  char h1[32], h2[32]; randomx_calculate_hash(vm,"abc",3,h1);
  randomx_release_cache(c1);                        // VM stays alive, will be re-bound below
  void* steal = malloc(STEAL);                      // occupy the freed randomx_cache struct's chunk
  randomx_cache* c2 = randomx_alloc_cache(f); randomx_init_cache(c2,key,sizeof key-1);
  printf("c1=%p c2=%p  mem1=%p mem2=%p  same_mem=%d same_obj=%d\n",(void*)c1,(void*)c2,m1,randomx_get_cache_memory(c2), m1==randomx_get_cache_memory(c2), c1==c2);
  randomx_vm_set_cache(vm,c2);                      // documented way to re-bind
  randomx_calculate_hash(vm,"abc",3,h2);
  printf("hash equal: %d\n", !memcmp(h1,h2,32));
  free(steal); randomx_destroy_vm(vm); randomx_release_cache(c2);
}
