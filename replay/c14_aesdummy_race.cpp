// two threads create (and destroy) their own hardware-AES VMs over one shared, initialised cache: under ThreadSanitizer any
// write to state shared between the threads inside randomx_create_vm is reported as a data race
#include "randomx.h"
#include <thread>
#include <cstdio>
int main() {
  randomx_flags f = (randomx_flags)(RANDOMX_FLAG_HARD_AES);
  randomx_cache* c = randomx_alloc_cache(RANDOMX_FLAG_DEFAULT); randomx_init_cache(c, "k", 1);
  auto work = [&]() { for (int i = 0; i < 200; ++i) { randomx_vm* vm = randomx_create_vm(f, c, nullptr); if (vm) randomx_destroy_vm(vm); } };
  std::thread a(work), b(work); a.join(); b.join();
  randomx_release_cache(c); puts("done");
}
