// native replay shim: thin extern "C" entry points around the REAL code of the current tree (linked against the library built from it),
// so that a counterexample found symbolically can be run on the host CPU.  Not part of any proof.
#include <vector>
#include <cstdint>
#include <cstring>
#include <new>
#define private public
#define protected public
#include "bytecode_machine.hpp"
#include "jit_compiler_x86.hpp"
#undef private
#undef protected
#include "intrin_portable.h"
#include "program.hpp"
using namespace randomx;

extern "C" int verif_interp_step(uint8_t* instr8, int i, uint32_t flags, int* usage8, void* nreg, uint8_t* scratchpad, void* cfg, uint32_t* mxcsr) {
	BytecodeMachine bm;
	memcpy(bm.registerUsage, usage8, 8 * sizeof(int));
	bm.nreg = (NativeRegisterFile*)nreg;
	InstructionByteCode ibc; memset((void*)&ibc, 0, sizeof ibc);
	Instruction ins; memcpy((void*)&ins, instr8, 8);
	uint32_t saved = _mm_getcsr();
	_mm_setcsr(*mxcsr);
	bm.compileInstruction(ins, i, ibc);
	int pc = i;
	BytecodeMachine::executeInstruction(ibc, pc, scratchpad, *(ProgramConfiguration*)cfg, (randomx_flags)flags);
	*mxcsr = _mm_getcsr();
	_mm_setcsr(saved);
	memcpy(usage8, bm.registerUsage, 8 * sizeof(int));
	return pc + 1;
}

// emits the x86 code of one instruction word with the real emitter; returns its length (bytes copied to out), updates usage8
extern "C" int verif_jit_emit(uint8_t* instr8, int i, uint32_t flags, int* usage8, const int32_t* offs, int noffs, int base, uint8_t* out, int outcap) {
	JitCompilerX86* jit = new JitCompilerX86();
	jit->enableAll();
	jit->setFlags((randomx_flags)flags);
	memcpy(jit->registerUsage, usage8, 8 * sizeof(int));
	jit->instructionOffsets.assign(offs, offs + noffs);
	jit->codePos = base;
	Instruction ins; memcpy((void*)&ins, instr8, 8);
	jit->generateCode(ins, i);
	int n = jit->codePos - base;
	if (n > outcap) n = outcap;
	memcpy(out, jit->code + base, n);
	memcpy(usage8, jit->registerUsage, 8 * sizeof(int));
	delete jit;
	return n;
}

// whole program function: the real JIT compiles `prog` (any bytes are a valid program); the caller receives the code buffer and can run it
extern "C" void* verif_jit_program(const uint8_t* progbytes, size_t n, uint32_t flags, void* cfg, uint8_t** code, size_t* size) {
	JitCompilerX86* jit = new JitCompilerX86();
	jit->enableAll();
	jit->setFlags((randomx_flags)flags);
	Program* p = new Program();
	memset((void*)p, 0, sizeof(Program));
	memcpy((void*)p, progbytes, n < sizeof(Program) ? n : sizeof(Program));
	jit->generateProgram(*p, *(ProgramConfiguration*)cfg);
	delete p;
	*code = jit->getCode(); *size = jit->getCodeSize();
	return jit;
}
extern "C" void verif_jit_run(void* jit, void* reg, void* memregs, uint8_t* scratchpad, uint64_t iterations) {
	uint32_t saved = _mm_getcsr();
	((JitCompilerX86*)jit)->getProgramFunc()(*(RegisterFile*)reg, *(MemoryRegisters*)memregs, scratchpad, iterations);
	_mm_setcsr(saved);
}
extern "C" void verif_jit_free(void* jit) { delete (JitCompilerX86*)jit; }

#include "blake2/blake2.h"
#include <cstddef>
extern "C" void verif_blake_layout(int* o) {
	o[0] = offsetof(blake2b_state, h); o[1] = offsetof(blake2b_state, t); o[2] = offsetof(blake2b_state, f); o[3] = offsetof(blake2b_state, buf);
	o[4] = offsetof(blake2b_state, buflen); o[5] = offsetof(blake2b_state, outlen); o[6] = offsetof(blake2b_state, last_node); o[7] = sizeof(blake2b_state);
}
extern "C" int verif_blake_update(void* S, const void* in, size_t n) { return blake2b_update((blake2b_state*)S, in, n); }
extern "C" int verif_blake_final(void* S, void* out, size_t n) { return blake2b_final((blake2b_state*)S, out, n); }

#include "superscalar.hpp"
#include "superscalar_program.hpp"
// one SuperscalarHash instruction: interpreter (executeSuperscalar) and the bytes the JIT emits for it
extern "C" void verif_ss_exec(const uint8_t* instr8, uint64_t rcp, uint64_t* r) {
	SuperscalarProgram* p = new SuperscalarProgram();
	memcpy((void*)&(*p)(0), instr8, 8); p->setSize(1);
	std::vector<uint64_t> rc; rc.push_back(rcp);
	executeSuperscalar(*(uint64_t(*)[8])r, *p, &rc);
	delete p;
}
extern "C" int verif_ss_emit(const uint8_t* instr8, uint64_t rcp, uint8_t* out, int cap) {
	JitCompilerX86* jit = new JitCompilerX86();
	jit->enableAll();
	const int base = 4096; jit->codePos = base;
	Instruction ins; memcpy((void*)&ins, instr8, 8);
	std::vector<uint64_t> rc; rc.push_back(rcp);
	jit->generateSuperscalarCode(ins, rc);
	int n = jit->codePos - base; if (n > cap) n = cap;
	memcpy(out, jit->code + base, n);
	delete jit;
	return n;
}
